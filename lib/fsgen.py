"""History generator for the full-stack harness: structured, mostly valid NRI event
sequences plus a separate malformed stream.  All randomness comes from the rng passed in."""
import copy, json
import machines

NS = 'resource-policy.nri.io'
GiB = 1 << 30
MiB = 1 << 20


def shares_of(milli):
    if milli == 0:
        return 2
    s = milli * 1024 // 1000
    return max(2, min(262144, s))


class World:
    """What the (simulated) runtime knows: pods and containers with their states."""

    def __init__(self, rng, policy, machine, profile):
        self.rng, self.policy, self.machine, self.profile = rng, policy, machine, profile
        self.pods = {}      # id -> pod dict (+ '_state': 'run'|'stopped')
        self.ctrs = {}      # id -> ctr dict (+ '_state': 'created'|'running'|'stopped')
        self.removed_ctrs = []
        self.removed_pods = []
        self.npod = 0
        self.nctr = 0
        self.events = []
        self.ncpu = len([c for c in machine['cpus'] if c['online']])
        self.nodemem = max(n['memtotal'] for n in machine['nodes']) * 1024

    # ---- object construction
    def new_pod(self, qos=None, ns=None, ann=None):
        r = self.rng
        self.npod += 1
        i = self.npod
        qos = qos or r.choice(['Guaranteed', 'Guaranteed', 'Burstable', 'BestEffort'] + (['Guaranteed'] * 3 if self.profile == 'iso' else []))
        if ns is None:
            ns = r.choice(['default', 'default', 'default', 'kube-system', 'prod', 'reserved-ns', 'ns-a'])
        pod = dict(id='p%03d' % i, name='pod%d' % i, ns=ns, uid='uid-%03d' % i, qos=qos, annotations=dict(ann or {}), labels={'app': 'a%d' % (i % 3)})
        return pod

    def cpu_request(self, qos):
        r = self.rng
        if qos == 'BestEffort':
            return 0
        prof = self.profile
        if prof == 'light':
            return r.choice([100, 250, 500, 1000, 1000, 2000] if qos == 'Guaranteed' else [1, 100, 250, 500])
        if qos == 'Guaranteed':
            if prof == 'iso':      # whole-CPU requests the size of the isolated sets of the machines (1, 2, 4 CPUs)
                return r.choice([1000, 1000, 1000, 2000, 2000, 4000, 1500, 3000])
            if prof == 'brim':     # mixed whole+fractional requests arriving in a tree that is filled to the brim
                return r.choice([1500, 1500, 2500, 1200, 1800, 1100, 2200, 1000])
            if prof == 'fill':
                return r.choice([1000, 2000, 2000, 3000, 4000, 1500, 2500, 500])
            return r.choice([100, 500, 750, 1000, 1000, 1500, 2000, 2000, 2500, 3000, 4000, 6000, 1000 * max(1, self.ncpu // 2)])
        if prof == 'brim':
            return r.choice([300, 700, 900, 1300, 1700, 2300, 2900, 3300])
        return r.choice([1, 2, 3, 100, 250, 500, 900, 1000, 1200, 2000, 2500, 3000])

    def mem_limit(self, qos):
        r = self.rng
        if qos == 'BestEffort':
            return r.choice([0, 0, 128 * MiB])
        if self.profile == 'light':
            return r.choice([0, 64 * MiB, 128 * MiB])
        frac = r.choice([0, 0.01, 0.05, 0.2, 0.3, 0.45, 0.6, 0.8, 1.1, 1.7]) if self.profile in ('mem', 'fill', 'mempres') and self.profile != 'brim' else r.choice([0, 0.01, 0.05, 0.1, 0.3, 0.6])
        return int(self.nodemem * frac)

    def resources(self, qos, milli=None, mem=None):
        r = self.rng
        milli = self.cpu_request(qos) if milli is None else milli
        mem = self.mem_limit(qos) if mem is None else mem
        res = dict(shares=shares_of(milli), period=100000, quota=None, memlimit=mem if mem else None)
        if mem and r.random() < 0.4:
            res['swap'] = mem * r.choice([1, 2])      # memory+swap limit (cgroup v1 memsw semantics)
        if qos == 'Guaranteed':
            res['quota'] = milli * 100 if milli else None
        elif qos == 'Burstable' and r.random() < 0.5:
            res['quota'] = (milli + r.choice([0, 500, 1000])) * 100
        oom = -997 if qos == 'Guaranteed' else (1000 if qos == 'BestEffort' else r.choice([2, 3, 500, 900, 936, 999]))
        return res, oom, milli

    def new_ctr(self, pod, name=None, milli=None, mem=None):
        self.nctr += 1
        i = self.nctr
        res, oom, milli = self.resources(pod['qos'], milli, mem)
        if any(k.startswith('memory.preserve.') for k in pod.get('annotations', {})) and self.rng.random() < 0.7:
            # a memory-preserving container keeps what the runtime gave it: give it something to keep
            nodes = [n['id'] for n in self.machine['nodes'] if n['has_memory'] and n['memtotal'] > 0 and n.get('cpus')] or [0]
            res['mems'] = str(self.rng.choice(nodes))
        c = dict(id='c%03d' % i, pod=pod['id'], name=name or 'ctr%d' % (i % 4), state='created', annotations={}, labels={}, res=res, oomadj=oom)
        c['_milli'] = milli
        return c

    # ---- annotations the policies interpret
    def ta_annotations(self, pod):
        r = self.rng
        ann = {}
        def key(base, scope):
            k = base + '.' + NS
            if scope == 'pod':
                return k + '/pod'
            if scope == 'bare':
                return k
            return k + '/container.' + scope
        p = r.random()
        scopes = ['pod', 'bare', 'ctr0', 'ctr1', 'ctr2']
        if p < 0.12:
            ann[key('prefer-isolated-cpus', r.choice(scopes))] = r.choice(['true', 'false'])
        if 0.1 < p < 0.25:
            ann[key('prefer-shared-cpus', r.choice(scopes))] = r.choice(['true', 'false'])
        if 0.22 < p < 0.3:
            ann[key('prefer-reserved-cpus', r.choice(scopes))] = r.choice(['true', 'true', 'false'])
        if 0.3 < p < 0.36 or self.profile == 'preserve' and p < 0.5:
            ann[key('cpu.preserve', r.choice(scopes))] = r.choice(['true', 'true', 'false'])
        if 0.36 < p < 0.42 or self.profile == 'preserve' and 0.4 < p < 0.8 or self.profile == 'mempres' and p < 0.6:
            ann[key('memory.preserve', r.choice(scopes))] = r.choice(['true', 'true', 'false'])
        if 0.42 < p < 0.47:
            ann[key('hide-hyperthreads', r.choice(scopes))] = r.choice(['true', 'false'])
        if 0.47 < p < 0.52:
            ann[key('memory-type', r.choice(scopes))] = r.choice(['dram', 'pmem', 'dram,pmem', 'hbm,dram', 'mixed'])
        if 0.52 < p < 0.55:
            ann[key('prefer-cpu-priority', r.choice(scopes))] = r.choice(['high', 'normal', 'low', 'none'])
        return ann

    def bln_annotations(self, pod, types):
        r = self.rng
        ann = {}
        p = r.random()
        scopes = ['pod', 'bare', 'ctr0', 'ctr1']
        def key(base, scope):
            k = base + '.' + NS
            return k + '/pod' if scope == 'pod' else (k if scope == 'bare' else k + '/container.' + scope)
        if p < 0.25 and types:
            ann[key('balloon.balloons', r.choice(scopes))] = r.choice(types)
        if 0.25 < p < 0.32 or self.profile == 'preserve' and p < 0.5:
            ann[key('cpu.preserve', r.choice(scopes))] = 'true'
        if 0.32 < p < 0.4 or self.profile == 'preserve' and 0.4 < p < 0.8 or self.profile == 'mempres' and p < 0.6:
            ann[key('memory.preserve', r.choice(scopes))] = 'true'
        if 0.4 < p < 0.45:
            ann[key('hide-hyperthreads', r.choice(scopes))] = r.choice(['true', 'false'])
        if 0.45 < p < 0.5:
            ann[key('memory-type', r.choice(scopes))] = r.choice(['dram', 'pmem', 'dram,pmem'])
        return ann

    # ---- events
    def emit(self, op, **kw):
        e = dict(op=op)
        for k, v in kw.items():
            if isinstance(v, dict):
                v = {a: b for a, b in v.items() if not a.startswith('_')}
            e[k] = v
        self.events.append(e)
        return e

    def live_ctrs(self, states=('created', 'running')):
        return [c for c in self.ctrs.values() if c['_state'] in states]

    def run_pod(self, pod):
        pod['_state'] = 'run'
        self.pods[pod['id']] = pod
        self.emit('RunPodSandbox', pod=pod)

    def create(self, c):
        c['_state'] = 'created'
        self.ctrs[c['id']] = c
        self.emit('CreateContainer', ctr=c)

    def start(self, c):
        c['_state'] = 'running'
        self.emit('StartContainer', ctr=dict(id=c['id']))

    def stop(self, c):
        c['_state'] = 'stopped'
        self.emit('StopContainer', ctr=dict(id=c['id']))

    def remove(self, c):
        del self.ctrs[c['id']]
        self.removed_ctrs.append(c)
        self.emit('RemoveContainer', ctr=dict(id=c['id']))

    def update(self, c, milli=None):
        pod = self.pods[c['pod']]
        if milli is None and self.rng.random() < 0.25 and c.get('res'):
            # the runtime re-sends the resources the container already has
            self.emit('UpdateContainer', ctr=dict(id=c['id']), res=c['res'], tag='identical')
            return
        res, oom, milli = self.resources(pod['qos'], milli)
        c['res'] = res
        c['_milli'] = milli
        self.emit('UpdateContainer', ctr=dict(id=c['id']), res=res)

    def stop_pod(self, pod):
        pod['_state'] = 'stopped'
        self.emit('StopPodSandbox', pod=dict(id=pod['id']))

    def remove_pod(self, pod):
        del self.pods[pod['id']]
        self.removed_pods.append(pod)
        self.emit('RemovePodSandbox', pod=dict(id=pod['id']))

    def runtime_listing(self, perturb=0.0):
        """Synchronize arguments derived from the world; perturb = probability of dropping /
        changing an entry (runtime state at restart)."""
        r = self.rng
        pods, ctrs = [], []
        dropped = set()
        for p in list(self.pods.values()):
            if r.random() < perturb * 0.5:
                dropped.add(p['id'])
                for c in [c for c in self.ctrs.values() if c['pod'] == p['id']]:
                    del self.ctrs[c['id']]
                del self.pods[p['id']]
                continue
            pods.append({k: v for k, v in p.items() if not k.startswith('_')})
        for c in list(self.ctrs.values()):
            if r.random() < perturb:
                del self.ctrs[c['id']]
                continue
            if r.random() < perturb and c['_state'] != 'retired':
                c['_state'] = 'stopped' if c['_state'] == 'stopped' else r.choice([c['_state'], 'running', 'stopped'])
            cc = {k: v for k, v in c.items() if not k.startswith('_')}
            cc['state'] = 'stopped' if c['_state'] == 'retired' else c['_state']
            ctrs.append(cc)
        # pods and containers that appeared while the plugin was not looking: a new pod with
        # containers, a new container in a pod the plugin knows
        if perturb and r.random() < perturb:
            pod = self.new_pod()
            pod['_state'] = 'run'
            self.pods[pod['id']] = pod
            pods.append({k: v for k, v in pod.items() if not k.startswith('_')})
            for k in range(r.choice([1, 1, 2])):
                c = self.new_ctr(pod, name='ctr%d' % k, milli=r.choice([0, 100, 500, 1000]) if pod['qos'] != 'BestEffort' else None, mem=r.choice([0, 64 * MiB]))
                c['_state'] = r.choice(['running', 'running', 'created'])
                self.ctrs[c['id']] = c
                cc = {a: b for a, b in c.items() if not a.startswith('_')}
                cc['state'] = c['_state']
                ctrs.append(cc)
        if perturb and r.random() < perturb and pods:
            pod = self.pods[r.choice(pods)['id']]
            names = {c['name'] for c in self.ctrs.values() if c['pod'] == pod['id']}
            free = [n for n in ('ctr0', 'ctr1', 'ctr2', 'ctr3') if n not in names]
            if free and pod.get('_state') == 'run':
                c = self.new_ctr(pod, name=free[0], milli=r.choice([0, 100, 500]) if pod['qos'] != 'BestEffort' else None, mem=0)
                c['_state'] = 'running'
                self.ctrs[c['id']] = c
                cc = {a: b for a, b in c.items() if not a.startswith('_')}
                cc['state'] = c['_state']
                ctrs.append(cc)
        return pods, ctrs

    def drain(self):
        for c in list(self.ctrs.values()):
            if c['_state'] != 'stopped':
                self.stop(c)
        for c in list(self.ctrs.values()):
            self.remove(c)
        for p in list(self.pods.values()):
            self.stop_pod(p)
            self.remove_pod(p)
        self.events[-1]['tag'] = 'quiescent' if self.events else ''


# ---------------------------------------------------------------- configurations

def ta_config(rng, machine, variant=None):
    online = sorted(c['id'] for c in machine['cpus'] if c['online'])
    iso = sorted(c['id'] for c in machine['cpus'] if c['isolated'] and c['online'])
    noniso = [c for c in online if c not in iso]
    cfg = dict(pinCPU=True, pinMemory=True, reservedResources={})
    v = variant or rng.choice(['cpuset1', 'cpuset1', 'cpuset2', 'qty', 'qty', 'avail'])
    if v == 'cpuset1':
        cfg['reservedResources'] = {'cpu': 'cpuset:%d' % noniso[0]}
    elif v == 'cpuset2':
        cfg['reservedResources'] = {'cpu': 'cpuset:%d,%d' % (noniso[0], noniso[1])}
    elif v == 'qty':
        cfg['reservedResources'] = {'cpu': rng.choice(['750m', '1', '1500m', '2'])}
    elif v == 'avail':
        av = online[: max(4, len(online) - rng.choice([1, 2, 4]))]
        cfg['availableResources'] = {'cpu': 'cpuset:' + ','.join(map(str, av))}
        cfg['reservedResources'] = {'cpu': 'cpuset:%d' % [c for c in av if c not in iso][0]}
    p = rng.random()
    if p < 0.15:
        cfg['preferSharedCPUs'] = True
    if 0.1 < p < 0.3:
        cfg['preferIsolatedCPUs'] = rng.choice([True, False])
    if 0.3 < p < 0.5:
        cfg['reservedPoolNamespaces'] = rng.choice([['reserved-ns'], ['reserved-*'], ['ns-a', 'prod']])
    if 0.5 < p < 0.58:
        cfg['pinCPU'] = False
    if 0.58 < p < 0.66:
        cfg['pinMemory'] = False
    if 0.66 < p < 0.75:
        cfg['colocatePods'] = True
    if 0.75 < p < 0.8:
        cfg['defaultCPUPriority'] = rng.choice(['high', 'low', 'normal'])
    return cfg


def ta_bad_configs(machine):
    online = sorted(c['id'] for c in machine['cpus'] if c['online'])
    return [
        ('no-reservation', dict(pinCPU=True, pinMemory=True, reservedResources={})),
        ('unparsable-reserved', dict(pinCPU=True, pinMemory=True, reservedResources={'cpu': 'cpuset:0-x'})),
        ('unparsable-available', dict(pinCPU=True, pinMemory=True, availableResources={'cpu': 'cpuset:a,b'}, reservedResources={'cpu': 'cpuset:0'})),
        ('reserved-outside-available', dict(pinCPU=True, pinMemory=True, availableResources={'cpu': 'cpuset:0-3'}, reservedResources={'cpu': 'cpuset:%d' % online[-1]})),
        ('available-as-quantity', dict(pinCPU=True, pinMemory=True, availableResources={'cpu': '4'}, reservedResources={'cpu': 'cpuset:0'})),
        ('reserved-too-big', dict(pinCPU=True, pinMemory=True, reservedResources={'cpu': str(len(online) + 8)})),
        ('unsatisfiable', dict(pinCPU=True, pinMemory=True, availableResources={'cpu': 'cpuset:%d' % online[0]}, reservedResources={'cpu': 'cpuset:%d' % online[0]})),
    ]


def bln_config(rng, machine, variant=None):
    online = sorted(c['id'] for c in machine['cpus'] if c['online'])
    cfg = dict(pinCPU=True, pinMemory=True, reservedResources={'cpu': rng.choice(['cpuset:%d' % online[0], '1', '750m'])}, balloonTypes=[])
    nt = rng.choice([1, 2, 2, 3])
    names = ['alpha', 'beta', 'gamma'][:nt]
    levels = ['', '', 'system', 'package', 'die', 'numa', 'l2cache', 'core']
    for i, n in enumerate(names):
        maxc = rng.choice([0, 0, 2, 4, 6])
        minc = rng.choice([0, 0, 1, 2])
        if maxc and minc > maxc:
            minc = maxc
        t = dict(name=n, minCPUs=minc, maxCPUs=maxc)
        p = rng.random()
        if i == 0:
            t['namespaces'] = ['default']
        elif i == 1:
            t['namespaces'] = rng.choice([['prod'], ['ns-*'], ['prod', 'ns-a']])
        else:
            t['matchExpressions'] = [dict(key='pod/labels/app', operator='In', values=['a1'])]
        mb = rng.choice([0, 0, 1, 2])
        if mb:
            t['minBalloons'] = mb
        xb = rng.choice([0, 0, 2, 3])
        if xb and xb >= mb:
            t['maxBalloons'] = xb
        if p < 0.3:
            t['preferNewBalloons'] = True
        if 0.2 < p < 0.45:
            t['preferSpreadingPods'] = True
        if 0.4 < p < 0.55:
            t['preferPerNamespaceBalloon'] = True
        lv = rng.choice(levels)
        if lv:
            t['shareIdleCPUsInSame'] = lv
        if rng.random() < 0.2:
            t['hideHyperthreads'] = True
        if rng.random() < 0.15:
            t['pinMemory'] = rng.choice([True, False])
        if rng.random() < 0.2:
            t['cpuClass'] = 'class-' + n
        if rng.random() < 0.15:
            t['groupBy'] = '${pod/labels/app}'
        if rng.random() < 0.15:
            t['allocatorPriority'] = rng.choice(['high', 'normal', 'low'])
        cfg['balloonTypes'].append(t)
    p = rng.random()
    if p < 0.2:
        cfg['idleCPUClass'] = 'idle-class'
    if 0.2 < p < 0.3:
        cfg['pinCPU'] = False
    if 0.3 < p < 0.4:
        cfg['pinMemory'] = False
    if 0.4 < p < 0.6:
        cfg['reservedPoolNamespaces'] = ['reserved-ns']
    if 0.6 < p < 0.7:
        av = online[: max(4, len(online) - 2)]
        cfg['availableResources'] = {'cpu': 'cpuset:' + ','.join(map(str, av))}
        cfg['reservedResources'] = {'cpu': 'cpuset:%d' % av[0]}
    if 0.7 < p < 0.8:
        cfg['preserve'] = dict(matchExpressions=[dict(key='name', operator='Equals', values=['ctr3'])])
    cfg['showContainersInNrt'] = True
    return cfg


def bln_bad_configs(machine):
    online = sorted(c['id'] for c in machine['cpus'] if c['online'])
    base = dict(pinCPU=True, pinMemory=True, reservedResources={'cpu': 'cpuset:%d' % online[0]})
    return [
        ('duplicate-type', dict(base, balloonTypes=[dict(name='x', maxCPUs=2), dict(name='x', maxCPUs=3)])),
        ('min-gt-max', dict(base, balloonTypes=[dict(name='x', minCPUs=4, maxCPUs=2)])),
        ('minballoons-gt-max', dict(base, balloonTypes=[dict(name='x', minBalloons=3, maxBalloons=2)])),
        ('undefined-load', dict(base, balloonTypes=[dict(name='x', loads=['nosuch'])])),
        ('unparsable-reserved', dict(pinCPU=True, reservedResources={'cpu': 'cpuset:0-x'}, balloonTypes=[])),
        ('reserved-outside-available', dict(pinCPU=True, availableResources={'cpu': 'cpuset:0-3'}, reservedResources={'cpu': 'cpuset:%d' % online[-1]}, balloonTypes=[])),
        ('unsatisfiable', dict(base, balloonTypes=[dict(name='x', minCPUs=len(online) // 2 + 1, minBalloons=3)])),
    ]


# ---------------------------------------------------------------- histories

def gen_history(rng, policy, machine, machine_path, nevents=40, profile='mixed', name='h', config=None,
                reconfig=0.0, sync=0.0, restart=0.0, drain=True, malformed=0.0):
    if policy == 'topology-aware' and profile in ('mixed', 'fill', 'light') and any(c['isolated'] for c in machine['cpus']) and rng.random() < 0.5:
        profile = 'iso'      # machines with kernel-isolated CPUs: whole-CPU Guaranteed containers dominate
    w = World(rng, policy, machine, profile)
    cfg = config or (ta_config(rng, machine) if policy == 'topology-aware' else bln_config(rng, machine))
    types = [t['name'] for t in cfg.get('balloonTypes', [])] if policy == 'balloons' else []
    r = rng
    cur_cfg = cfg
    while len(w.events) < nevents:
        x = r.random()
        live = w.live_ctrs()
        if x < reconfig:
            k = r.random()
            if k < 0.35:
                w.emit('Reconfigure', config='__CURRENT__', tag='same')
            elif k < 0.7:
                bad = r.choice(ta_bad_configs(machine) if policy == 'topology-aware' else bln_bad_configs(machine))
                w.emit('Reconfigure', config=bad[1], tag='bad:' + bad[0])
            else:
                ncfg = ta_config(rng, machine) if policy == 'topology-aware' else bln_config(rng, machine)
                w.emit('Reconfigure', config=ncfg, tag='new')
                w._pending_cfg = ncfg
            continue
        if x < reconfig + sync:
            pods, ctrs = w.runtime_listing(0.0)
            w.emit('Synchronize', pods=pods, ctrs=ctrs)
            continue
        if x < reconfig + sync + restart:
            w.emit('Restart')
            pods, ctrs = w.runtime_listing(r.choice([0.0, 0.15, 0.3]))
            w.emit('Synchronize', pods=pods, ctrs=ctrs, tag='after-restart')
            continue
        if malformed and r.random() < malformed:
            malformed_event(w)
            continue
        x = r.random()
        npods = len(w.pods)
        target = 6 if profile not in ('fill', 'brim') else (10 if profile == 'fill' else 14)
        if profile == 'light':
            target = 4
        if x < 0.30 and len(live) < target or not w.pods:
            ns = None
            pod = w.new_pod()
            if r.random() < (0.6 if profile == 'mempres' else 0.35):
                pod['annotations'].update(w.ta_annotations(pod) if policy == 'topology-aware' else w.bln_annotations(pod, types))
            w.run_pod(pod)
            for k in range(r.choice([1, 1, 1, 2, 3])):
                c = w.new_ctr(pod, name='ctr%d' % k)
                w.create(c)
                if r.random() < 0.8:
                    w.start(c)
        elif x < 0.40 and w.pods:
            pod = r.choice(list(w.pods.values()))
            mine = [c for c in w.ctrs.values() if c['pod'] == pod['id'] and c['_state'] in ('created', 'running')]
            if pod.get('_state') == 'run' and mine and r.random() < 0.2:
                # the runtime restarts a container: a new instance (new id) under the same pod and name is
                # created before the plugin has seen the old one stop; the plugin retires the old instance
                old = r.choice(mine)
                c = w.new_ctr(pod, name=old['name'], milli=old.get('_milli'))
                w.create(c)
                w.events[-1]['tag'] = 'recreate'
                w.events[-1]['replaces'] = old['id']     # StopContainer/RemoveContainer of the old instance arrive later
                old['_state'] = 'retired'                  # the runtime lists it as stopped from now on
                if r.random() < 0.7:
                    w.start(c)
            elif pod.get('_state') == 'run':
                names = {c['name'] for c in w.ctrs.values() if c['pod'] == pod['id']}
                free = [n for n in ('ctr0', 'ctr1', 'ctr2', 'ctr3') if n not in names]
                if free:
                    c = w.new_ctr(pod, name=free[0])
                    w.create(c)
                    if r.random() < 0.7:
                        w.start(c)
        elif x < 0.50 and live:
            c = r.choice(live)
            if c['_state'] == 'created':
                w.start(c)
            else:
                w.update(c)
        elif x < 0.60 and live:
            w.update(r.choice(live))
        elif x < 0.80 and live:
            w.stop(r.choice(live))
        elif x < 0.92:
            st = w.live_ctrs(('stopped',))
            if st:
                w.remove(r.choice(st))
        else:
            empt = [p for p in w.pods.values() if not any(c['pod'] == p['id'] for c in w.ctrs.values())]
            if empt:
                p = r.choice(empt)
                w.stop_pod(p)
                w.remove_pod(p)
    if drain:
        w.drain()
    return dict(name=name, machine=machine_path, policy=policy, config=cfg, events=w.events)


# well-formed YAML/JSON of the wrong shape (null elements, missing members, wrong types) for the structured annotations
YJUNK = ['ctr0: [null]', 'ctr0: null', 'ctr0:\n- null', 'ctr0: [{}]', 'ctr0: [{scope: null, match: null}]', '[null]', 'ctr0: [ctr1, null]',
         'ctr0: [{match: {key: name, operator: Equals}}]', 'ctr0: [{match: {key: name, operator: Matches, values: []}}]', '{ctr0: [{weight: 99999999999}]}',
         'ctr0: [{scope: {operator: In}, match: {key: name, operator: In, values: [null]}}]', '- null', '[{}]', '- {provider: null}', 'ctr0: {}', '{}', '[]',
         'ctr0: [null, {}]', 'ctr0: [{match: {key: name, operator: Exists}}, null]', 'ctr0:\n- scope:\n    key: name\n    operator: Exists\n  match:\n    key: name\n    operator: NotIn\n    values: [x]\n  weight: -5000\n- null',
         'ctr0: [{match: {key: name, operator: Exists}, weight: 2147483647}]', 'ctr1: [ctr0]', 'ctr0: [ctr0, ctr0]']


def malformed_event(w):
    """events naming unknown / forgotten ids, duplicated or out-of-order lifecycle events,
    junk annotation values, absent sub-messages"""
    r = w.rng
    k = r.randrange(14)
    junk = ['', 'x', '-1', 'true false', '{', '[1,2', '9' * 40, 'null', '\x00', 'dram,,pmem', '{"a":1}', '- a\n- b', 'TRUE', '0x10']
    # well-formed YAML/JSON of the wrong shape (null elements, missing members, wrong types) for the structured annotations
    yjunk = YJUNK
    if k == 0:
        w.emit('StopPodSandbox', pod=dict(id='nosuch-pod'))
    elif k == 1:
        w.emit('RemovePodSandbox', pod=dict(id='nosuch-pod'))
    elif k == 2:
        pod = w.new_pod()
        c = w.new_ctr(pod)
        w.emit('CreateContainer', ctr=c, tag='unknown-pod')   # pod never announced
    elif k == 3:
        w.emit('StartContainer', ctr=dict(id='nosuch', pod='nosuch-pod', name='x', state='created'))
    elif k == 4:
        w.emit('UpdateContainer', ctr=dict(id='nosuch', pod='nosuch-pod', name='x', state='running'), res=dict(shares=1024))
    elif k == 5:
        w.emit('StopContainer', ctr=dict(id='nosuch', pod='nosuch-pod', name='x', state='running'))
    elif k == 6:
        w.emit('RemoveContainer', ctr=dict(id='nosuch', pod='nosuch-pod', name='x', state='running'))
    elif k == 7 and w.removed_ctrs:
        c = r.choice(w.removed_ctrs)
        w.emit(r.choice(['StartContainer', 'StopContainer', 'RemoveContainer', 'UpdateContainer']), ctr=dict(id=c['id']), res=dict(shares=512))
    elif k == 8 and w.ctrs:
        c = r.choice(list(w.ctrs.values()))
        w.emit(r.choice(['StartContainer', 'StopContainer', 'CreateContainer']), ctr=c if r.random() < 0.5 else dict(id=c['id']), tag='duplicate/out-of-order')
        if w.events[-1]['op'] == 'StopContainer':
            c['_state'] = 'stopped'
        elif w.events[-1]['op'] == 'StartContainer' and c['_state'] != 'stopped':
            c['_state'] = 'running'
    elif k == 9 and w.ctrs:
        c = r.choice(list(w.ctrs.values()))
        if c['_state'] != 'stopped':
            w.emit('UpdateContainer', ctr=dict(id=c['id']), nilres=True, tag='nil-resources')
    elif k == 10:
        pod = w.new_pod()
        keys = ['prefer-isolated-cpus', 'prefer-shared-cpus', 'prefer-reserved-cpus', 'cpu.preserve', 'memory.preserve', 'memory-type',
                'cold-start', 'hide-hyperthreads', 'prefer-cpu-priority', 'balloon.balloons', 'affinity', 'anti-affinity', 'topologyhints',
                'rdtclass', 'blockioclass', 'pick-resources-by-hints']
        for _ in range(r.choice([1, 2, 3])):
            key = r.choice(keys + ['affinity', 'anti-affinity'])
            if key in ('affinity', 'anti-affinity') and r.random() < 0.8:
                # container affinity is read from <namespace>/<key> (not from the <key>.<namespace>[/scope] form)
                pod['annotations'][NS + '/' + key] = r.choice(yjunk + yjunk + junk)
            else:
                kk = key + '.' + NS + r.choice(['', '/pod', '/container.ctr0'])
                pod['annotations'][kk] = r.choice(junk + yjunk)
        w.run_pod(pod)
        c = w.new_ctr(pod, name='ctr0')
        w.create(c)
    elif k == 11:
        pod = w.new_pod()
        pod['nolinux'] = True
        w.run_pod(pod)
        c = w.new_ctr(pod, name='ctr0')
        c['nolinux'] = r.random() < 0.5
        if not c['nolinux']:
            c['res'] = r.choice([None, dict(nocpu=True, memlimit=1 << 20), dict(nomemory=True, shares=1024)])
        w.create(c)
    elif k == 12 and w.pods:
        p = r.choice(list(w.pods.values()))
        w.emit('RunPodSandbox', pod=p, tag='duplicate')
    elif k == 13:
        pods, ctrs = w.runtime_listing(0.0)
        if ctrs and r.random() < 0.7:
            # a container whose pod is not listed
            victim = r.choice(ctrs)
            pods = [p for p in pods if p['id'] != victim['pod']]
        w.emit('Synchronize', pods=pods, ctrs=ctrs, tag='ctr-without-pod')
        # the cache drops what the listing dropped
        keep = {p['id'] for p in pods}
        for pid in [p for p in w.pods if p not in keep]:
            for c in [c for c in w.ctrs.values() if c['pod'] == pid]:
                del w.ctrs[c['id']]
            del w.pods[pid]
