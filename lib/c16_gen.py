"""C16: random machine descriptions (same JSON schema as lib/machines.py, rendered by
harness/common/sysfsgen.go) with sub-NUMA clustering, asymmetric sizes, non-contiguous package /
die ids, permuted node numbering, arbitrary symmetric distance matrices, offline / isolated CPUs,
memory-less CPU nodes, CPU-less PMEM/HBM nodes, movable-only nodes, hybrid cores; plus
available/reserved settings and the printers of machines / observed views / pools as Coq terms."""
import json, random

CACHE_KIND = {'Data': 0, 'Instruction': 1, 'Unified': 2}


def gen_machine(rng, name, max_cpus=48, force=None):
    """force: dict of feature overrides (packages, dies, nodes_per_die, memless_p, extra, ...)."""
    f = force or {}
    while True:
        packages = f.get('packages', rng.choice([1, 1, 2, 2, 2, 3, 4]))
        dies = f.get('dies', rng.choice([1, 1, 1, 2, 2, 3]))
        npd = f.get('nodes_per_die', rng.choice([1, 1, 2, 2, 3, 4]))
        threads = f.get('threads', rng.choice([1, 2, 2]))
        base_cores = f.get('cores', rng.choice([1, 2, 2, 3, 4]))
        if packages * dies * npd * base_cores * threads <= max_cpus:
            break
    asym = f.get('asym', rng.random() < 0.3)
    interleaved = f.get('interleaved', rng.random() < 0.3)
    pkg_ids = list(range(packages))
    if rng.random() < 0.15 and 'pkg_ids' not in f:
        pkg_ids = sorted(rng.sample(range(packages + 3), packages))
    die_ids = list(range(dies))
    if rng.random() < 0.15:
        die_ids = sorted(rng.sample(range(dies + 2), dies))
    # node slots in (pkg, die, n) order; node ids possibly permuted
    slots = [(p, d, n) for p in range(packages) for d in range(dies) for n in range(npd)]
    node_of = list(range(len(slots)))
    if rng.random() < 0.25:
        rng.shuffle(node_of)
    cores_in = [max(1, base_cores + (rng.choice([-1, 0, 0, 1]) if asym else 0)) for _ in slots]
    ncores = sum(cores_in)
    hybrid = f.get('hybrid', rng.random() < 0.12)
    l2_cores = rng.choice([1, 1, 2])
    cluster_cores = rng.choice([1, 2, 4])
    cpus = []
    cg = 0
    core_in_pkg = {}
    for si, (p, d, n) in enumerate(slots):
        ekind = hybrid and (si % 2 == 1)
        for c in range(cores_in[si]):
            th = 1 if ekind else threads
            ids = [(cg + t * ncores) if interleaved else None for t in range(th)]
            cpus.append(dict(_cg=cg, _slot=si, _t=th, _ids=ids, pkg=pkg_ids[p], die=die_ids[d], node=node_of[si],
                             core=core_in_pkg.setdefault(p, 0), cluster=c // cluster_cores + 8 * n,
                             kind='E' if ekind else 'P'))
            core_in_pkg[p] += 1
            cg += 1
    # assign cpu ids
    out = []
    nxt = 0
    used = set()
    for c in cpus:
        ids = []
        for t in range(c['_t']):
            if interleaved:
                i = c['_ids'][t]
            else:
                i = nxt
                nxt += 1
            ids.append(i)
        c['_ids'] = ids
    if interleaved:
        # compact ids (E-cores leave holes): renumber preserving order
        allids = sorted(i for c in cpus for i in c['_ids'])
        ren = {v: k for k, v in enumerate(allids)}
        for c in cpus:
            c['_ids'] = [ren[i] for i in c['_ids']]
    for c in cpus:
        for i in c['_ids']:
            out.append(dict(id=i, online=True, isolated=False, pkg=c['pkg'], die=c['die'], cluster=c['cluster'], core=c['core'],
                            threads=sorted(c['_ids']), node=c['node'], kind=c['kind'], basefreq=0, minfreq=0, maxfreq=0, epp='',
                            caches=[], _cg=c['_cg'], _slot=c['_slot']))
    out.sort(key=lambda c: c['id'])
    ncpu = len(out)
    # offline / isolated
    offline = set()
    mode = f.get('offline', rng.choice(['none', 'none', 'some', 'some', 'node', 'pkg']))
    if mode == 'some':
        for c in out:
            if rng.random() < 0.15:
                offline.add(c['id'])
    elif mode == 'node':      # every CPU of one node offline (the node becomes CPU-less)
        v = rng.choice(out)['node']
        offline = {c['id'] for c in out if c['node'] == v}
    elif mode == 'pkg' and packages > 1:   # a whole package offline
        v = rng.choice(out)['pkg']
        offline = {c['id'] for c in out if c['pkg'] == v}
    if len(offline) >= ncpu:
        offline = set()
    isolated = set()
    if f.get('isolated', rng.random() < 0.45):
        k = rng.choice([1, 1, 2, 3, max(1, ncpu // 4)])
        isolated = set(rng.sample(range(ncpu), min(k, ncpu)))
    l1size, l2size, l3size = rng.choice(['32K', '48K', '64K']), rng.choice(['256K', '1024K', '2048K', '2M']), rng.choice(['8192K', '16384K', '32M'])
    bycg = {}
    for c in out:
        bycg.setdefault(c['_cg'], []).append(c['id'])
    slot_first_cg = {}
    for c in out:
        slot_first_cg.setdefault(c['_slot'], c['_cg'])
    for c in out:
        g = c['_cg']
        rel = g - slot_first_cg[c['_slot']]
        l2lo = g - (rel % l2_cores)
        l2cpus = sorted(i for gg in range(l2lo, l2lo + l2_cores) for i in bycg.get(gg, [])
                        if next(x for x in out if x['id'] == i)['_slot'] == c['_slot'])
        die_cpus = sorted(x['id'] for x in out if x['pkg'] == c['pkg'] and x['die'] == c['die'])
        c['caches'] = [dict(level=1, type='Data', id=g, cpus=sorted(bycg[g]), size=l1size),
                       dict(level=1, type='Instruction', id=g, cpus=sorted(bycg[g]), size=l1size),
                       dict(level=2, type='Unified', id=l2lo, cpus=l2cpus, size=l2size),
                       dict(level=3, type='Unified', id=slots[c['_slot']][0] * 16 + slots[c['_slot']][1], cpus=die_cpus, size=l3size)]
    for c in out:
        c['online'] = c['id'] not in offline
        c['isolated'] = c['id'] in isolated
    for c in out:
        c['threads'] = [t for t in c['threads'] if t not in offline] if c['online'] else []
        for ca in c['caches']:
            ca['cpus'] = [t for t in ca['cpus'] if t not in offline]
        if not c['online']:
            c['caches'] = []
    # nodes
    nn = len(slots)
    nodes = [None] * nn
    for si in range(nn):
        nid = node_of[si]
        nodes[nid] = dict(id=nid, cpus=sorted(c['id'] for c in out if c['node'] == nid and c['online']), distance=[],
                          memtotal=0, memfree=0, normal=True, has_memory=True, _slot=si, _kind='dram')
    nextra = f.get('extra', rng.choice([0, 0, 0, 1, 2, 3]))
    for k in range(nextra):
        kind = rng.choice(['pmem', 'hbm'])
        nodes.append(dict(id=nn + k, cpus=[], distance=[], memtotal=0, memfree=0, normal=True, has_memory=True,
                          _slot=rng.randrange(nn), _kind=kind))
    N = len(nodes)
    # memory sizes (kB)
    for n in nodes:
        if n['_kind'] == 'dram':
            mb = rng.choice([1024, 2048, 4096, 4096, 8192, 3000, 6144]) if asym or rng.random() < 0.3 else 4096
        elif n['_kind'] == 'pmem':
            mb = rng.choice([16384, 32768, 8192, 4096])
        else:
            mb = rng.choice([512, 1024, 2048, 4096])
        n['memtotal'] = mb * 1024 + rng.choice([0, 0, -4, 52])
        n['memfree'] = rng.randrange(0, n['memtotal'] + 1)
    cpu_nodes = [n['id'] for n in nodes if n['_kind'] == 'dram']
    memless_p = f.get('memless_p', rng.choice([0, 0, 0.25, 0.5]))
    memless = {i for i in cpu_nodes if rng.random() < memless_p}
    if len(memless) == len(cpu_nodes):
        memless.discard(rng.choice(cpu_nodes))
    for n in nodes:
        if n['id'] in memless:
            n['memtotal'] = n['memfree'] = 0
            n['has_memory'] = False
            n['normal'] = False
        elif rng.random() < 0.12:
            n['normal'] = False          # movable-only
    if f.get('zero_special', rng.random() < 0.05):
        for n in nodes:
            if n['_kind'] != 'dram':
                n['memtotal'] = n['memfree'] = 0      # listed in has_memory but reports no memory
                break
    # distances
    style = f.get('dist', rng.choice(['hier', 'hier', 'hier', 'random', 'random', 'ties', 'asym']))
    D = [[10] * N for _ in range(N)]
    def loc(n):
        return slots[n['_slot']]
    for a in nodes:
        for b in nodes:
            if a['id'] >= b['id']:
                continue
            la, lb = loc(a), loc(b)
            if style in ('hier', 'asym'):
                if la == lb:
                    d = 17
                elif la[:2] == lb[:2]:
                    d = 12
                elif la[0] == lb[0]:
                    d = 16
                else:
                    d = 21
                if (a['_kind'] == 'dram') != (b['_kind'] == 'dram') and la != lb:
                    d += 7
                if a['_kind'] != 'dram' and b['_kind'] != 'dram':
                    d += 9
            elif style == 'random':
                d = rng.randrange(11, 41)
            else:
                d = rng.choice([12, 20])
            D[a['id']][b['id']] = D[b['id']][a['id']] = d
    if style == 'asym' and N > 1 and rng.random() < 0.3:
        i, j = rng.sample(range(N), 2)
        D[i][j] += 1
    for n in nodes:
        n['distance'] = D[n['id']]
    kinds = {n['id']: n['_kind'] for n in nodes}
    for n in nodes:
        for k in ('_slot', '_kind'):
            n.pop(k)
    for c in out:
        for k in ('_cg', '_slot'):
            c.pop(k)
    return dict(name=name, cpus=out, nodes=nodes, hybrid=hybrid, _kinds=kinds)


def fixed_machines():
    """Hand-picked shapes every run contains (the F11 witness first)."""
    r = random.Random(16)
    ms = []
    # 2 sockets x 2 NUMA nodes, node 1 memory-less: F11 witness
    ms.append(gen_machine(r, 'f11-2s-2n-memless1', force=dict(packages=2, dies=1, nodes_per_die=2, threads=2, cores=2, asym=False,
                                                                 interleaved=False, offline='none', isolated=False, extra=0, memless_p=0,
                                                                 dist='hier', hybrid=False, zero_special=False)))
    n = ms[-1]['nodes'][1]
    n['memtotal'] = n['memfree'] = 0
    n['has_memory'] = False
    n['normal'] = False
    ms.append(gen_machine(r, 'fx-1s-1n', force=dict(packages=1, dies=1, nodes_per_die=1, offline='none', extra=0, memless_p=0, hybrid=False, zero_special=False)))
    ms.append(gen_machine(r, 'fx-1s-2d-2n', force=dict(packages=1, dies=2, nodes_per_die=2, threads=2, cores=1, extra=1, hybrid=False, zero_special=False)))
    ms.append(gen_machine(r, 'fx-2s-pmem', force=dict(packages=2, dies=1, nodes_per_die=1, extra=2, memless_p=0, offline='none', hybrid=False, zero_special=False)))
    ms.append(gen_machine(r, 'fx-2s-2d-2n-mixed', force=dict(packages=2, dies=2, nodes_per_die=2, threads=1, cores=2, extra=3, hybrid=False)))
    ms.append(gen_machine(r, 'fx-hybrid', force=dict(packages=1, dies=1, nodes_per_die=2, threads=2, cores=2, hybrid=True, offline='none', zero_special=False)))
    ms.append(gen_machine(r, 'fx-2s-iso', force=dict(packages=2, dies=1, nodes_per_die=2, threads=2, cores=2, isolated=True, offline='none', hybrid=False,
                                                    zero_special=False, dist='hier')))
    for c in ms[-1]['cpus']:
        c['isolated'] = c['id'] in (3, 6, 7, 12)
    ms.append(gen_machine(r, 'fx-4s-snc', force=dict(packages=4, dies=1, nodes_per_die=2, threads=2, cores=1, hybrid=False)))
    return ms


def cpulist(ids):
    s = sorted(set(ids))
    parts = []
    i = 0
    while i < len(s):
        j = i
        while j + 1 < len(s) and s[j + 1] == s[j] + 1:
            j += 1
        parts.append(str(s[i]) if i == j else '%d-%d' % (s[i], s[j]))
        i = j + 1
    return ','.join(parts)


def gen_cfgs(rng, m, n):
    """Available/reserved settings: (avail, reserved) strings or None."""
    ids = [c['id'] for c in m['cpus']]
    online = [c['id'] for c in m['cpus'] if c['online']]
    iso = [c['id'] for c in m['cpus'] if c['isolated']]
    cfgs = [(None, '750m'), (None, None)]
    # deterministic edge cases of checkConstraints (whenever the machine allows them)
    on_iso = [c for c in online if c in iso]
    on_non = [c for c in online if c not in iso]
    if len(on_iso) >= 2:
        cfgs.append((None, 'cpuset:' + cpulist(on_iso[:2])))                  # two isolated CPUs: rejected
    if on_iso:
        cfgs.append((None, 'cpuset:%d' % on_iso[0]))                          # a single isolated CPU: accepted (excluded by the property)
        if on_non:
            cfgs.append((None, 'cpuset:' + cpulist([on_iso[0], on_non[0]])))  # mixed: rejected
    if len(on_non) >= 2:
        cfgs.append(('cpuset:' + cpulist(on_non[1:]), 'cpuset:%d' % on_non[0]))   # reserved outside allowed: rejected
        cfgs.append(('cpuset:' + cpulist(on_non), str(len(on_non))))          # reserve everything
        cfgs.append(('cpuset:' + cpulist(on_non), str(len(on_non) + 1)))      # one too many: rejected
    def subset(pool, lo=1):
        k = rng.randint(lo, max(lo, len(pool)))
        return sorted(rng.sample(pool, min(k, len(pool))))
    for _ in range(n):
        r = rng.random()
        if r < 0.35:
            av = None
            allowed = online
        elif r < 0.85:
            allowed = subset(online)
            av = 'cpuset:' + cpulist(allowed)
        elif r < 0.93:
            allowed = subset(ids)                      # may contain offline CPUs
            av = 'cpuset:' + cpulist(allowed)
        elif r < 0.97:
            allowed = subset(online) + [max(ids) + 2]  # a CPU the machine does not have
            av = 'cpuset:' + cpulist(allowed)
        else:
            av, allowed = '4', online                   # quantity: rejected
        nonisol = [c for c in allowed if c not in iso]
        r = rng.random()
        if r < 0.4:
            res = rng.choice(['750m', '1', '2', '1500m', '3', '100m', '0', str(len(nonisol)), str(len(nonisol) + 1), '%d' % max(1, len(nonisol) // 2)])
        elif r < 0.75 and nonisol:
            res = 'cpuset:' + cpulist(subset(nonisol)[:rng.choice([1, 1, 2, 3])])
        elif r < 0.82 and [c for c in allowed if c in iso]:
            res = 'cpuset:' + str(rng.choice([c for c in allowed if c in iso]))        # a single isolated CPU
        elif r < 0.88 and [c for c in allowed if c in iso] and nonisol:
            res = 'cpuset:' + cpulist([rng.choice([c for c in allowed if c in iso]), rng.choice(nonisol)])   # mixed: rejected
        elif r < 0.92 and len([c for c in allowed if c in iso]) > 1:
            res = 'cpuset:' + cpulist(rng.sample([c for c in allowed if c in iso], 2))   # two isolated: rejected
        elif r < 0.96:
            res = 'cpuset:' + cpulist(subset(ids)[:2])                                    # maybe outside allowed
        elif r < 0.98:
            res = 'cpuset:'                                                               # empty set: rejected
        else:
            res = None
        cfgs.append((av, res))
    seen, outl = set(), []
    for c in cfgs:
        if c not in seen:
            seen.add(c)
            outl.append(c)
    return outl


def dump(m, path):
    mm = {k: v for k, v in m.items() if not k.startswith('_')}
    with open(path, 'w') as f:
        json.dump(mm, f)


# ---------------------------------------------------------------- Coq printers

def zl(xs):
    return '[' + ';'.join(('(%d)' % x if x < 0 else '%d' % x) for x in xs) + ']'


def zv(x):
    return '(%d)' % x if x < 0 else '%d' % x


def cb(b):
    return 'true' if b else 'false'


def size_k(s):
    """ground-truth cache size in bytes, from the generator's size string."""
    u = {'K': 1 << 10, 'M': 1 << 20, 'G': 1 << 30}
    return int(s[:-1]) * u[s[-1]]


def coq_machine(m):
    cs = []
    for c in m['cpus']:
        cas = ';'.join('mkMCache %d %d %d %s %d' % (ca['level'], CACHE_KIND[ca['type']], ca['id'], zl(ca['cpus']), size_k(ca['size']))
                       for ca in c['caches'])
        cs.append('mkMCpu %d %s %s %d %d %d %d %s %d [%s]' % (c['id'], cb(c['online']), cb(c['isolated']), c['pkg'], c['die'], c['cluster'],
                                                              c['core'], zl(c['threads']), c['node'], cas))
    ns = []
    for n in m['nodes']:
        ns.append('mkMNode %d %s %s %d %d %s %s' % (n['id'], zl(n['cpus']), zl(n['distance']), n['memtotal'], n['memfree'], cb(n['normal']), cb(n['has_memory'])))
    return 'mkMachine [%s]\n [%s]' % (';\n '.join(cs), ';\n '.join(ns))


def coq_view(d):
    """Observed accessor dump (harness VDSys JSON) as a system_view term."""
    cs = []
    for c in d['cpus']:
        cas = ';'.join('mkVCache %d %d %d %s %d' % (ca['level'], ca['kind'], ca['id'], zl(ca['cpus']), ca['size']) for ca in c['caches'])
        cs.append('mkVCpu %s %s %s %s %s %s %s %s %s [%s]' % (zv(c['id']), cb(c['online']), cb(c['isolated']), zv(c['pkg']), zv(c['die']), zv(c['cluster']),
                                                              zv(c['core']), zl(c['threads']), zv(c['node']), cas))
    ns = []
    for n in d['nodes']:
        ns.append('mkVNode %d %s %s %s %s %d %d %d %s' % (n['id'], zv(n['pkg']), zv(n['die']), zl(n['cpus']), zl(n['distance']), n['memtotal'], n['memfree'],
                                                         n['memtype'], cb(n['normal'])))
    ps = []
    for p in d['pkgs']:
        dies = ';'.join('mkVDie %s %s %s' % (zv(x['id']), zl(x['cpus']), zl(x['nodes'])) for x in p['dies'])
        ps.append('mkVPkg %s %s %s %s [%s]' % (zv(p['id']), zl(p['cpus']), zl(p['nodes']), zl(p['dieids']), dies))
    return 'mkView [%s]\n [%s]\n [%s]\n %s %s %s %s' % (';\n '.join(cs), ';\n '.join(ns), ';\n '.join(ps), zl(d['possible']), zl(d['present']),
                                                     zl(d['online']), zl(d['isolated']))
