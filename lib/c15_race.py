"""Parser for Go race detector logs (C15)."""
import re, glob, os

HDR = re.compile(r'^(Read|Write|Previous read|Previous write|Atomic read|Atomic write|Previous atomic read|Previous atomic write) at (0x[0-9a-f]+) by (goroutine \d+|main goroutine):')
CRE = re.compile(r'^Goroutine (\d+) \((\w+)\) created at:')


def parse_reports(text):
    """-> list of reports; report = {'accesses': [ {'kind','goroutine','frames':[(func,file,line)]} x2 ],
    'created': {gid: frames}}"""
    reports = []
    for block in text.split('WARNING: DATA RACE')[1:]:
        block = block.split('==================')[0]
        lines = block.splitlines()
        rep = {'accesses': [], 'created': {}}
        cur = None
        i = 0
        while i < len(lines):
            l = lines[i]
            m = HDR.match(l.strip())
            c = CRE.match(l.strip())
            if m:
                cur = {'kind': m.group(1), 'goroutine': m.group(3), 'frames': []}
                rep['accesses'].append(cur)
            elif c:
                cur = {'frames': []}
                rep['created'][c.group(1)] = cur
            elif l.startswith('  ') and not l.startswith('      ') and cur is not None and l.strip():
                fn = l.strip()
                loc = lines[i + 1].strip() if i + 1 < len(lines) else ''
                mm = re.match(r'^(\S+?):(\d+)', loc)
                if mm:
                    cur['frames'].append((re.sub(r'\(\)$', '', fn), mm.group(1), int(mm.group(2))))
                    i += 1
            i += 1
        if len(rep['accesses']) >= 2:
            reports.append(rep)
    return reports


def load_dir(d, prefix='race'):
    txt = ''
    for f in sorted(glob.glob(os.path.join(d, prefix + '.*'))):
        txt += open(f, errors='replace').read()
    return txt
