"""Shared driver of the checks that run on the full-stack harness."""
import os, json, collections
import vlib, fullstack, machines, fsgen, fsoracle, ta_corr
from vlib import *


def prepare_machines(chk):
    d = os.path.join(chk.work, 'm')
    os.makedirs(d, exist_ok=True)
    zoo = machines.zoo()
    paths = {}
    for m in zoo:
        p = os.path.join(d, m['name'] + '.json')
        machines.dump(m, p)
        paths[m['name']] = p
    return zoo, paths


def build(chk, race=False):
    b, log = fullstack.build_binary(race=race)
    if not b:
        chk.corr_broken('harness-build', 'go test -c failed:\n' + log[-3000:])
    return b


def run_histories(chk, binary, scripts, jobs=16, timeout=300):
    traces, errors = fullstack.run_scripts(binary, scripts, os.path.join(chk.work, 'run'), jobs=jobs, timeout=timeout)
    for e in errors:
        chk.corr_broken('harness-run', 'harness process failed:\n' + e[-2000:])
    for recs in traces.values():
        recs.sort(key=lambda r: r['seq'])
        for r in recs:     # Go encodes nil slices as null
            r['cache'] = r.get('cache') or []
            if r.get('bln'):
                r['bln']['balloons'] = r['bln'].get('balloons') or []
            if r.get('ta'):
                r['ta']['grants'] = r['ta'].get('grants') or []
    return traces


def corpus_scripts(chk, zoo, paths, copies=3):
    """histories that exposed a seeded change or a genuine defect (corpus/<check>/*.json, written by bin/mkcorpus):
    replayed first in every run, each a few times because placement ties are broken by Go map order"""
    d = os.path.join(VERIF, 'corpus', chk.prop)
    out = []
    for fn in sorted(os.listdir(d)) if os.path.isdir(d) else []:
        sc = json.load(open(os.path.join(d, fn)))
        mname = sc['machine_name']
        m = next((z for z in zoo if z['name'] == mname), None)
        if m is None:
            continue        # a machine only one check adds to its zoo
        for i in range(sc.get('copies', copies)):     # an entry that depends on a map order more than most asks for more
            s = dict(sc)
            s.update(name='k%s-%d' % (fn[:-5].replace('-', ''), i), machine=paths[mname], _machine=m)
            out.append(s)
    return out


def maybe_replay(chk, replay, scripts, zoo, paths, copies=12):
    """--replay FILE: instead of the generated histories run the recorded one, `copies` times
    (the implementation breaks placement ties by Go map order, so one run is not enough)"""
    if not replay:
        return corpus_scripts(chk, zoo, paths) + scripts
    d = json.load(open(replay))
    sc = d.get('replay') or {}
    if 'events' not in sc:
        log('replay file %s holds no event history (kind: %s)' % (replay, ', '.join(sc.keys()) if isinstance(sc, dict) else type(sc).__name__))
        return []
    mname = sc.get('machine_name') or os.path.basename(sc['machine'])[:-len('.json')]
    m = next(z for z in zoo if z['name'] == mname)
    out = []
    for i in range(copies):
        s = dict(sc)
        s.update(name='rp%02d' % i, machine=paths[mname], machine_name=mname, _machine=m)
        out.append(s)
    return out


def replay_of(script, upto):
    """replay object: the script cut after event `upto`"""
    s = dict(script)
    s['events'] = script['events'][:upto + 1]
    s['machine_name'] = os.path.basename(script['machine'])[:-len('.json')]
    return s


def nontrivial_history(recs):
    """>= 2 containers live at once, >= 1 exclusive allocation, >= 1 release, >= 1 request that
    changed another container's resources"""
    live2 = excl = rel = other = False
    for r in recs:
        if sum(1 for c in (r.get('cache') or []) if c['state'] in ('created', 'running')) >= 2:
            live2 = True
        ta = r.get('ta')
        if ta and any(g['exclusive'] for g in (ta['grants'] or [])):
            excl = True
        b = r.get('bln')
        if b and any(x['cpus'] and x['members'] for x in (b.get('balloons') or [])):
            excl = True
        if r['op'] == 'StopContainer':
            rel = True
        if r['reply'].get('updates'):
            other = True
    return live2 and excl and rel and other


def configs_along(script, recs):
    """the policy configuration in force after each record of a trace"""
    cfg, out, changed = script['config'], [], False
    for rec in recs:
        ev = script['events'][rec['seq']] if rec['seq'] >= 0 else {}
        if ev.get('op') == 'Reconfigure' and rec['reply']['class'] == 'ok' and ev['config'] != '__CURRENT__':
            # any accepted configuration other than the one in force counts (also one meant to be
            # rejected that the policy accepts, K8)
            changed = changed or ev['config'] != cfg
            cfg = ev['config']
        if ev.get('op') == 'Restart' and ev.get('config'):
            cfg = ev['config']
        out.append((cfg, changed))
    return out


def ta_correspondence(chk, traces, shards=16, scripts=None, guards=False):
    """Evaluate TA_Model.check_segments on every trace inside Coq. Returns stats."""
    names = sorted(traces)
    cfgs = None
    if scripts:
        byname = {s['name']: s for s in scripts}
        cfgs = {n: [c for c, _ in configs_along(byname[n], traces[n])] for n in names if n in byname}
    per = max(1, (len(names) + shards - 1) // shards)
    files, groups = [], []
    stats = collections.Counter()
    for k in range(0, len(names), per):
        grp = names[k:k + per]
        p = os.path.join(chk.work, 'cases_ta_%02d.v' % (k // per))
        st = ta_corr.case_file(p, [(n, traces[n]) for n in grp], cfgs, guards)
        for s in st.values():
            stats.update(s)
        files.append(p)
        groups.append(grp)
    # the eligibility decision table on every (inputs, output) pair seen
    pcases, seen = [], set()
    for n in names:
        cs, sn = ta_corr.prefs_cases(traces[n])
        for c, k in zip(cs, sn):
            pass
        for c in cs:
            if c not in seen:
                seen.add(c)
                pcases.append(c)
    pfile = os.path.join(chk.work, 'cases_prefs.v')
    with open(pfile, 'w') as f:
        f.write(ta_corr.HDR)
        f.write('Definition cs : list (prefin * creq) := [%s].\n' % ';\n'.join(pcases))
        f.write('Definition M := Eval vm_compute in prefs_mismatches 0 cs.\nPrint M.\n')
    stats['prefs_cases'] = len(pcases)
    guard_fail = {}
    results = coq_eval_many(files + [pfile], timeout=600)
    rc, out = results.pop()
    body = parse_coq_print(out, 'M')
    if rc != 0 or body is None:
        chk.corr_broken('TA_Model.cpu_prefs', 'coqc failed:\n' + out[-1500:])
    elif body.strip() != '[]':
        idxs = [int(x) for x in re.findall(r'\d+', body)]
        chk.corr_broken('TA_Model.cpu_prefs', 'eligibility table differs from cpuAllocationPreferences on cases %s, e.g. %s' % (idxs[:5], pcases[idxs[0]] if idxs else ''))
    bad = []
    for grp, p, (rc, out) in zip(groups, files, results):
        body = parse_coq_print(out, 'M')
        if rc != 0 or body is None:
            chk.corr_broken('TA_Model/' + os.path.basename(p), 'coqc failed:\n' + out[-1500:])
            continue
        items = split_top(body.strip()[1:-1])
        if len(items) != len(grp):
            chk.corr_broken('TA_Model/' + os.path.basename(p), 'cannot parse result list: ' + body[:500])
            continue
        for n, it in zip(grp, items):
            if it.strip() != 'None':
                bad.append((n, ' '.join(it.split())))
        if guards:
            gbody = parse_coq_print(out, 'GG')
            gitems = split_top(gbody.strip()[1:-1]) if gbody else []
            for n, it in zip(grp, gitems):
                pairs = re.findall(r'\(\s*(\d+)\s*,\s*(\d+)\s*\)', it)      # Coq wraps long lines anywhere
                guard_fail[n] = [(int(a), int(b)) for a, b in pairs]
    # The order of allocations inside one Synchronize / configuration update is reconstructed from the instrumented
    # call trace. Where that reconstruction makes a capacity test of the model fail, the history is replayed once more
    # in the other orders (variants 3, 2, 1 of ta_corr.trace_terms): a sequence the implementation completed in SOME
    # order is reproduced by one of them; it is reported only if every variant is refused.
    retry = [n for n, it in bad if 'ErrNoCapacity' in it or 'ErrGuard 13' in it]
    stats['order_retries'] = len(retry)
    for variant in (3, 2, 1):
        # second opinions on the order of reinstatement / allocation inside one request (see ta_corr.trace_terms)
        if not retry:
            break
        p2 = os.path.join(chk.work, 'cases_ta_retry%d.v' % variant)
        ta_corr.case_file(p2, [(n, traces[n]) for n in retry], cfgs, False, permissive=variant)
        (rc2, out2), = coq_eval_many([p2], timeout=600)
        body2 = parse_coq_print(out2, 'M')
        if rc2 == 0 and body2 is not None:
            items2 = split_top(body2.strip()[1:-1])
            ok2 = {n for n, it in zip(retry, items2) if it.strip() == 'None'}
            stats['order_retries_ok'] = stats.get('order_retries_ok', 0) + len(ok2)
            bad = [(n, it) for n, it in bad if n not in ok2]
            retry = [n for n in retry if n not in ok2]
    for n, it in bad:
        sc = (byname.get(n) if scripts else None)
        chk.corr_broken('TA_Model:' + n, 'model and implementation differ on history %s: %s (segment, MStep/MPool/MGrant event-group index ...)' % (n, it),
                        replay={k: v for k, v in replay_of(sc, len(sc['events']) - 1).items() if not k.startswith('_')} if sc else None)
    stats['traces'] = len(names)
    stats['mismatching_traces'] = len(bad)
    if guards:
        stats['traces_with_guard_failure'] = sum(1 for v in guard_fail.values() if v)
        return stats, bad, guard_fail
    return stats, bad


def pins_correspondence(chk, traces, scripts, shards=8):
    """TA_Pins: the model's runtime-side pins against the cpusets in the cache, for granted containers and for running
    containers that lost their grant (stale pins, K3). Returns stats."""
    names = sorted(traces)
    byname = {s['name']: s for s in scripts}
    cfgs = {n: [c for c, _ in configs_along(byname[n], traces[n])] for n in names if n in byname}
    names = [n for n in names if n in cfgs]
    per = max(1, (len(names) + shards - 1) // shards)
    files, groups = [], []
    stats = collections.Counter()
    for k in range(0, len(names), per):
        grp = names[k:k + per]
        p = os.path.join(chk.work, 'cases_pins_%02d.v' % (k // per))
        st = ta_corr.pins_case_file(p, [(n, traces[n]) for n in grp], cfgs)
        for s in st.values():
            stats.update(s)
        files.append(p)
        groups.append(grp)
    for grp, p, (rc, out) in zip(groups, files, coq_eval_many(files, timeout=600)):
        body = parse_coq_print(out, 'M')
        if rc != 0 or body is None:
            chk.corr_broken('TA_Pins/' + os.path.basename(p), 'coqc failed:\n' + out[-1500:])
            continue
        its = list(zip(grp, split_top(body.strip()[1:-1])))
        failing = [n for n, it in its if it.strip() != 'None']
        for variant in (3, 2, 1):
            # same second opinions as for TA_Model: the other reinstatement / allocation orders
            if not failing:
                break
            p2 = p[:-2] + '_retry%d.v' % variant
            ta_corr.pins_case_file(p2, [(n, traces[n]) for n in failing], cfgs, permissive=variant)
            (rc2, out2), = coq_eval_many([p2], timeout=600)
            body2 = parse_coq_print(out2, 'M')
            if rc2 == 0 and body2 is not None:
                ok2 = {n for n, it in zip(failing, split_top(body2.strip()[1:-1])) if it.strip() == 'None'}
                stats['order_retries_ok'] += len(ok2)
                its = [(n, it) for n, it in its if n not in ok2]
                failing = [n for n in failing if n not in ok2]
        for n, it in its:
            if it.strip() != 'None':
                sc = byname.get(n)
                chk.corr_broken('TA_Pins:' + n, 'history %s: the cpuset a container is left with differs from the model\'s pin at (segment, event group) %s' % (n, ' '.join(it.split())),
                                replay={k: v for k, v in replay_of(sc, len(sc['events']) - 1).items() if not k.startswith('_')} if sc else None)
    return stats


def nested_trees_check(chk, traces):
    """the hypothesis of C01_refused_update_restores_allocation holds for every pool tree the policy built"""
    p = os.path.join(chk.work, 'cases_nested.v')
    n = ta_corr.nested_case_file(p, sorted(traces.items()))
    (rc, out), = coq_eval_many([p], timeout=600)
    body = parse_coq_print(out, 'M')
    if rc != 0 or body is None:
        chk.corr_broken('tree_nestedb', 'coqc failed:\n' + out[-1500:])
    elif 'false' in body:
        chk.corr_broken('tree_nestedb', 'a pool tree built by the policy is not nested (sharable/isolated sets of a pool outside those of a pool above it): %s' % ' '.join(body.split())[:400])
    return n


def split_top(s):
    """split a Coq list body on top-level ';'"""
    out, depth, cur = [], 0, ''
    for ch in s:
        if ch in '([{':
            depth += 1
        elif ch in ')]}':
            depth -= 1
        if ch == ';' and depth == 0:
            out.append(cur)
            cur = ''
        else:
            cur += ch
    if cur.strip():
        out.append(cur)
    return out


def bln_correspondence(chk, traces, scripts, shards=16):
    import bln_corr
    names = sorted(traces)
    byname = {s['name']: s for s in scripts}
    iso_of = lambda n: [c['id'] for c in byname[n]['_machine']['cpus'] if c['isolated']]
    per = max(1, (len(names) + shards - 1) // shards)
    files, groups = [], []
    stats = collections.Counter()
    for k in range(0, len(names), per):
        grp = names[k:k + per]
        p = os.path.join(chk.work, 'cases_bln_%02d.v' % (k // per))
        st = bln_corr.case_file(p, [(n, traces[n]) for n in grp], iso_of)
        for s in st.values():
            stats.update(s)
        files.append(p)
        groups.append(grp)
    results = coq_eval_many(files, timeout=600)
    bad = []
    for grp, p, (rc, out) in zip(groups, files, results):
        body = parse_coq_print(out, 'M')
        if rc != 0 or body is None:
            chk.corr_broken('Bln_Model/' + os.path.basename(p), 'coqc failed:\n' + out[-1500:])
            continue
        items = split_top(body.strip()[1:-1])
        if len(items) != len(grp):
            chk.corr_broken('Bln_Model/' + os.path.basename(p), 'cannot parse result list: ' + body[:500])
            continue
        for n, it in zip(grp, items):
            if it.strip() != 'None':
                bad.append((n, ' '.join(it.split())))
    for n, it in bad:
        chk.corr_broken('Bln_Model:' + n, 'model and implementation differ on history %s: %s' % (n, it))
    stats['traces'] = len(names)
    stats['mismatching_traces'] = len(bad)
    return stats, bad


def bln_oracle_pass(chk, scripts, traces, props, pristine=False):
    nfind = collections.Counter()
    for sc in scripts:
        recs = traces.get(sc['name'])
        if not recs:
            continue
        ret = fsoracle.Retired()
        for rec, (cfg, changed) in zip(recs, configs_along(sc, recs)):
            fs = fsoracle.bln_state_findings(rec, cfg, sc['_machine'])
            fs += ret.step(sc['events'][rec['seq']] if rec['seq'] >= 0 else {}, rec)
            if pristine and rec.get('tag') == 'quiescent':
                fs += fsoracle.bln_pristine_findings(recs[0], rec, not changed)
            for f in fs:
                if f['prop'] in props:
                    nfind[(f['prop'], f['sig'])] += 1
                    chk.violation(f['sig'], '%s [%s] history %s event %d: %s' % (f['prop'], f['clause'], sc['name'], f['seq'], f['what']),
                                  {k: v for k, v in replay_of(sc, f['seq']).items() if not k.startswith('_')})
    return nfind
