"""Shared driver of the checks that run on the full-stack harness."""
import os, json, collections
import vlib, fullstack, machines, fsgen, fsoracle, ta_corr
from vlib import *


def prepare_machines(chk):
    d = os.path.join(chk.work, 'm')
    os.makedirs(d, exist_ok=True)
    zoo = machines.zoo()
    paths = {}
    for m in zoo:
        p = os.path.join(d, m['name'] + '.json')
        machines.dump(m, p)
        paths[m['name']] = p
    return zoo, paths


def build(chk, race=False):
    b, log = fullstack.build_binary(race=race)
    if not b:
        chk.corr_broken('harness-build', 'go test -c failed:\n' + log[-3000:])
    return b


def run_histories(chk, binary, scripts, jobs=16, timeout=300):
    traces, errors = fullstack.run_scripts(binary, scripts, os.path.join(chk.work, 'run'), jobs=jobs, timeout=timeout)
    for e in errors:
        chk.corr_broken('harness-run', 'harness process failed:\n' + e[-2000:])
    for recs in traces.values():
        recs.sort(key=lambda r: r['seq'])
    return traces


def replay_of(script, upto):
    """replay object: the script cut after event `upto`"""
    s = dict(script)
    s['events'] = script['events'][:upto + 1]
    return s


def nontrivial_history(recs):
    """>= 2 containers live at once, >= 1 exclusive allocation, >= 1 release, >= 1 request that
    changed another container's resources"""
    live2 = excl = rel = other = False
    for r in recs:
        if sum(1 for c in r['cache'] if c['state'] in ('created', 'running')) >= 2:
            live2 = True
        ta = r.get('ta')
        if ta and any(g['exclusive'] for g in (ta['grants'] or [])):
            excl = True
        b = r.get('bln')
        if b and any(x['cpus'] and x['members'] for x in b['balloons']):
            excl = True
        if r['op'] == 'StopContainer':
            rel = True
        if r['reply'].get('updates'):
            other = True
    return live2 and excl and rel and other


def ta_correspondence(chk, traces, shards=16):
    """Evaluate TA_Model.check_segments on every trace inside Coq. Returns stats."""
    names = sorted(traces)
    per = max(1, (len(names) + shards - 1) // shards)
    files, groups = [], []
    stats = collections.Counter()
    for k in range(0, len(names), per):
        grp = names[k:k + per]
        p = os.path.join(chk.work, 'cases_ta_%02d.v' % (k // per))
        st = ta_corr.case_file(p, [(n, traces[n]) for n in grp])
        for s in st.values():
            stats.update(s)
        files.append(p)
        groups.append(grp)
    results = coq_eval_many(files, timeout=600)
    bad = []
    for grp, p, (rc, out) in zip(groups, files, results):
        body = parse_coq_print(out, 'M')
        if rc != 0 or body is None:
            chk.corr_broken('TA_Model/' + os.path.basename(p), 'coqc failed:\n' + out[-1500:])
            continue
        items = split_top(body.strip()[1:-1])
        if len(items) != len(grp):
            chk.corr_broken('TA_Model/' + os.path.basename(p), 'cannot parse result list: ' + body[:500])
            continue
        for n, it in zip(grp, items):
            if it.strip() != 'None':
                bad.append((n, ' '.join(it.split())))
    for n, it in bad:
        chk.corr_broken('TA_Model:' + n, 'model and implementation differ on history %s: %s (segment, MStep/MPool/MGrant event-group index ...)' % (n, it))
    stats['traces'] = len(names)
    stats['mismatching_traces'] = len(bad)
    return stats, bad


def split_top(s):
    """split a Coq list body on top-level ';'"""
    out, depth, cur = [], 0, ''
    for ch in s:
        if ch in '([{':
            depth += 1
        elif ch in ')]}':
            depth -= 1
        if ch == ';' and depth == 0:
            out.append(cur)
            cur = ''
        else:
            cur += ch
    if cur.strip():
        out.append(cur)
    return out
