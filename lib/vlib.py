"""Shared machinery of the /verif checks.

A check (checks/cNN.py) does, on every run:
  1. regenerate the Gen_*.v files from /repo's working tree (translators) and `make` the
     Coq targets of the property  -> proof obligations (theorems re-checked by the kernel);
  2. run the Go harness (injected into /repo's packages with `go test -overlay`, build tag
     `verif`, nothing written into /repo) -> traces of the real implementation;
  3. print the traces as Coq terms and evaluate the model on them with vm_compute inside
     coqc -> correspondence;
  4. evaluate the property's clauses directly on the implementation's outputs (oracle) ->
     concrete failing inputs, written as replay files;
  5. write evidence/<ID>.json.
"""
import json, os, subprocess, sys, time, hashlib, shutil, re, random
from concurrent.futures import ThreadPoolExecutor

VERIF = '/verif'
REPO = os.environ.get('VERIF_REPO', '/repo')
BUILD = os.path.join(VERIF, 'build')
COQ = os.path.join(VERIF, 'coq')
GEN = os.path.join(COQ, 'theories', 'Gen')
# -mod=readonly: a harness that needs a change of /repo's go.mod fails to build instead of editing it
# (checks never write into the tree they check)
GOENV = dict(GOFLAGS='-mod=readonly', GOPROXY='off', GOSUMDB='off', GOTOOLCHAIN='local',
             CGO_ENABLED='0', GOCACHE=os.environ.get('GOCACHE', '/root/.cache/go-build'))

KERNEL_TB = [
    "Coq 8.16.1 kernel incl. vm_compute (no native_compute), coqc/make full .vo build",
    "no Axiom/Parameter/Admitted in the development (grep in setup_cmd); Print Assumptions output recorded in 'axioms'",
]


def log(*a):
    print(*a, file=sys.stderr, flush=True)


def sh(cmd, timeout=1200, cwd=None, env=None, check=False):
    e = dict(os.environ)
    e.update(GOENV)
    if env:
        e.update(env)
    t0 = time.time()
    try:
        p = subprocess.run(cmd, shell=isinstance(cmd, str), cwd=cwd, env=e, timeout=timeout,
                           stdout=subprocess.PIPE, stderr=subprocess.STDOUT, text=True, errors='replace')
        rc, out = p.returncode, p.stdout
    except subprocess.TimeoutExpired as ex:
        rc, out = 124, (ex.stdout or '') if isinstance(ex.stdout, str) else (ex.stdout or b'').decode(errors='replace')
        out += '\n[timeout after %ss]' % timeout
    if check and rc != 0:
        raise RuntimeError('command failed (%s): %s\n%s' % (rc, cmd, out[-4000:]))
    return rc, out, time.time() - t0


# ---------------------------------------------------------------- tools / translators

def build_tools():
    os.makedirs(BUILD, exist_ok=True)
    rc, out, _ = sh('go build -o %s/ ./...' % BUILD, cwd=os.path.join(VERIF, 'tools'), timeout=600, env={'GOFLAGS': '-mod=mod'})
    if rc != 0:
        raise RuntimeError('building translators failed:\n' + out)


def tool(name):
    p = os.path.join(BUILD, name)
    src = os.path.join(VERIF, 'tools', name)
    newest = max([os.path.getmtime(os.path.join(src, f)) for f in os.listdir(src)] or [0]) if os.path.isdir(src) else 0
    if not os.path.exists(p) or os.path.getmtime(p) < newest:
        build_tools()
    return p


# one generated file per group, so that a changed constant only re-checks the theorems that use it
CONST_SPECS = {
    'Gen_Consts.v': [
        'pkg/kubernetes/resources.go:K_:MinShares,MaxShares,SharesPerCPU,MilliCPUToCPU,QuotaPeriod,MinQuotaPeriod,'
        'GuaranteedOOMScoreAdj,BestEffortOOMScoreAdj,MinBurstableOOMScoreAdj,MaxBurstableOOMScoreAdj',
    ],
    'Gen_Affinity.v': [
        'pkg/resmgr/cache/affinity.go:AFF_:UserWeightCutoff,DefaultWeight',
    ],
}


def regenerate():
    """Run every translator against /repo's working tree. Returns list of (name, ok, msg)."""
    os.makedirs(GEN, exist_ok=True)
    res = []
    for fn, specs in CONST_SPECS.items():
        rc, out, _ = sh([tool('consts2coq'), '-root', REPO, '-out', os.path.join(GEN, fn)] + specs)
        res.append(('consts2coq:' + fn, rc == 0, out.strip()))
    for extra in EXTRA_TRANSLATORS:
        res.append(extra())
    return res


EXTRA_TRANSLATORS = []


# ---------------------------------------------------------------- Coq

def coq_make(targets, timeout=3000):
    """make the given .vo targets (paths relative to coq/). Returns (ok, log)."""
    rc, out, dt = sh([os.path.join(VERIF, 'bin', 'coqbuild')] + list(targets), timeout=timeout)
    return rc == 0, out


def coqc_file(path, timeout=900):
    rc, out, dt = sh('ulimit -s unlimited; exec timeout %d coqc -Q %s/theories NV -w -notation-overridden,-deprecated-hint-without-locality,-deprecated-instance-without-locality,-ambiguous-paths %s'
                     % (timeout, COQ, path), cwd=os.path.dirname(path), timeout=timeout + 30)
    return rc, out


def mem_available_gb():
    try:
        for line in open('/proc/meminfo'):
            if line.startswith('MemAvailable:'):
                return int(line.split()[1]) / (1 << 20)
    except Exception:
        pass
    return 16.0


def coq_eval_many(files, jobs=16, timeout=900):
    """evaluate case files with coqc in parallel. A vm_compute over a large case file can take several GB: the number of
    parallel jobs follows the memory that is available now, and a coqc that was killed (out of memory) is run again on
    its own before its result is believed."""
    big = max([os.path.getsize(f) for f in files] or [0])
    per_job = 1.0 if big < 150_000 else 4.5      # GB per coqc, observed (4 GB for a 240 KB libmem case file)
    jobs = max(1, min(jobs, int(mem_available_gb() * 0.7 / per_job)))
    with ThreadPoolExecutor(max_workers=jobs) as ex:
        res = list(ex.map(lambda f: coqc_file(f, timeout), files))
    for i, (rc, out) in enumerate(res):
        if rc in (137, -9, 134) or 'Out of memory' in out or 'Killed' in out[-200:] or 'Stack overflow' in out:
            res[i] = coqc_file(files[i], timeout)
    return res


def theorems_in(props_file):
    """Names of the Theorem statements in a *_Props.v file."""
    src = open(os.path.join(COQ, 'theories', props_file)).read()
    return re.findall(r'^\s*Theorem\s+([A-Za-z0-9_\']+)', src, re.M)


def print_assumptions(module, theorems, workdir):
    """coqc a scratch file that prints the assumptions of every theorem. Returns
    (ok, {theorem: [axiom names] }, raw)."""
    os.makedirs(workdir, exist_ok=True)
    p = os.path.join(workdir, 'assump_%s.v' % module)
    with open(p, 'w') as f:
        f.write('From NV Require Import %s.\n' % module)
        for t in theorems:
            f.write('Goal True. idtac "@@THM %s". exact I. Qed.\nPrint Assumptions %s.\n' % (t, t))
    rc, out = coqc_file(p)
    res, cur = {}, None
    for line in out.splitlines():
        if line.startswith('@@THM '):
            cur = line.split()[1]
            res[cur] = []
        elif cur is not None and line and not line[0].isspace():
            m = re.match(r'^([A-Za-z_][A-Za-z0-9_\.\']*)\s*(:|$)', line)
            if m and m.group(1) not in ('Axioms', 'Closed'):
                res[cur].append(m.group(1))
    return rc == 0 and len(res) == len(theorems), res, out


def zlit(n):
    return '(%d)' % n if n < 0 else '%d' % n


def zlist(xs):
    return '[' + ';'.join(zlit(int(x)) for x in xs) + ']'


def coq_bool(b):
    return 'true' if b else 'false'


def coq_str(s):
    return '"' + s.replace('"', '""') + '"'


def parse_coq_print(out, name):
    """Extract the body printed by `Print name.` (name = body : type)."""
    m = re.search(r'^%s\s*=\s*(.*?)\n\s*:\s' % re.escape(name), out, re.S | re.M)
    if not m:
        return None
    # Coq's pretty-printer breaks long lines at any blank and right after an opening parenthesis or bracket:
    # undo the breaks so that parsers see "(0, 10)" and not "(\n 0, 10)"
    body = re.sub(r'([(\[])\n\s*', r'\1', m.group(1))
    body = re.sub(r'\n\s*', ' ', body)
    return body.strip()


# ---------------------------------------------------------------- Go harness

def go_test(pkg, overlays, run, env=None, timeout=1200, race=False, tags='verif', extra=None, count=1):
    """Run `go test` in /repo for package `pkg` with extra files injected by overlay.
    overlays: {path relative to /repo: absolute real path}."""
    os.makedirs(BUILD, exist_ok=True)
    ov = {'Replace': {os.path.join(REPO, k): v for k, v in overlays.items()}}
    name = hashlib.sha1(json.dumps(ov, sort_keys=True).encode()).hexdigest()[:12]
    ovp = os.path.join(BUILD, 'overlay_%s.json' % name)
    with open(ovp, 'w') as f:
        json.dump(ov, f)
    cmd = ['go', 'test', '-vet=off', '-tags', tags, '-overlay', ovp, '-count=%d' % count, '-timeout', '%ds' % timeout,
           '-run', run]
    if race:
        cmd.append('-race')
        e2 = dict(env or {})
        e2['CGO_ENABLED'] = '1'
        env = e2
    if extra:
        cmd += extra
    cmd.append(pkg)
    return sh(cmd, cwd=REPO, env=env, timeout=timeout + 60)


# ---------------------------------------------------------------- known findings, reporting

# evidence and replays of runs against a scratch tree (VERIF_REPO set, mutation testing) do not overwrite the committed ones
OUTROOT = VERIF if REPO == '/repo' else os.path.join(BUILD, 'seedout')
for _d in ('evidence', 'replays'):
    os.makedirs(os.path.join(OUTROOT, _d), exist_ok=True)


def known_findings():
    p = os.path.join(VERIF, 'known-findings.json')
    if not os.path.exists(p):
        return []
    return json.load(open(p)).get('known', [])


class Check:
    def __init__(self, prop, tier, seed):
        self.prop, self.tier, self.seed = prop, tier, seed
        self.t0 = time.time()
        self.violations = []      # (signature, what, replay object)
        self.broken_replay = None
        self.known_hits = {}
        self.obligations = []     # (name, ok)
        self.axioms = {}
        self.cov = {}
        self.assumptions = []
        self.samples = []
        self.broken = []          # proof/correspondence breakages: (kind, name, detail)
        self.rng = random.Random(seed)
        self.work = os.path.join(BUILD, prop.lower())
        shutil.rmtree(self.work, ignore_errors=True)
        os.makedirs(self.work, exist_ok=True)
        os.makedirs(os.path.join(VERIF, 'replays'), exist_ok=True)
        os.makedirs(os.path.join(VERIF, 'evidence'), exist_ok=True)

    # -- proof side
    def prove(self, props_module, extra_targets=()):
        """Regenerate Gen files, build the property's theorem file, record obligations."""
        for name, ok, msg in regenerate():
            self.obligations.append(('translator:' + name, ok))
            if not ok:
                self.broken.append(('translator', name, msg))
        targets = ['theories/%s.vo' % props_module] + list(extra_targets)
        ok, out = coq_make(targets)
        thms = theorems_in(props_module + '.v')
        if not ok:
            m = re.search(r'File "([^"]+)", line (\d+)[^\n]*\n(.*)', out, re.S)
            detail = (m.group(0)[:1500] if m else out[-1500:])
            self.broken.append(('proof', props_module, detail))
            for t in thms:
                self.obligations.append((t, False))
            return False
        ok2, ax, raw = print_assumptions(props_module, thms, self.work)
        for t in thms:
            self.obligations.append((t, ok2 and t in ax))
            self.axioms[t] = ax.get(t, ['?'])
        if not ok2:
            self.broken.append(('proof', props_module, 'Print Assumptions failed:\n' + raw[-1500:]))
        return ok and ok2

    # -- findings
    def violation(self, signature, what, replay):
        for k in known_findings():
            if k['property'] == self.prop and k['signature'] == signature:
                if signature not in self.known_hits and os.environ.get('VERIF_DUMP_KNOWN'):   # for studying a finding: keep its replay
                    json.dump({'what': what, 'replay': replay}, open(os.path.join(os.environ['VERIF_DUMP_KNOWN'], '%s-%s.json' % (self.prop, re.sub(r'[^A-Za-z0-9]+', '_', signature))), 'w'), indent=1, default=str)
                self.known_hits.setdefault(signature, (k, what))
                return
        self.violations.append((signature, what, replay))

    def corr_broken(self, name, detail, replay=None):
        """a correspondence that no longer checks; [replay]: the input/history on which model and implementation differ"""
        self.broken.append(('correspondence', name, detail))
        if replay is not None and self.broken_replay is None:
            self.broken_replay = replay

    # -- finish
    def finish(self, level='proof', rule='', evaluations=0, distinct=0, traces=0, extra_cov=None, checker_cmd=''):
        wall = time.time() - self.t0
        nviol = 0
        for sig, (k, what) in sorted(self.known_hits.items()):
            print('KNOWN-FINDING: property=%s %s [%s] %s' % (self.prop, k.get('id', ''), sig, k.get('what', what)))
        seen = set()
        for i, (sig, what, replay) in enumerate(self.violations):
            if sig in seen:
                continue
            seen.add(sig)
            rp = os.path.join(OUTROOT, 'replays', '%s-%s-%d.json' % (self.prop, self.tier, len(seen)))
            with open(rp, 'w') as f:
                json.dump({'property': self.prop, 'signature': sig, 'what': what, 'seed': self.seed, 'replay': replay}, f, indent=1, default=str)
            print('VIOLATION property=%s replay=%s' % (self.prop, rp))
            log('  ' + what)
            nviol += 1
        if not self.violations and self.broken:
            # proof obligation / correspondence broken and the search found no failing input
            rp = os.path.join(OUTROOT, 'replays', '%s-%s-broken.json' % (self.prop, self.tier))
            with open(rp, 'w') as f:
                obj = {'property': self.prop, 'no_failing_input_found': True, 'seed': self.seed,
                       'broken': [{'kind': k, 'name': n, 'detail': d} for k, n, d in self.broken]}
                if self.broken_replay is not None:
                    # no property clause fails on it, but model and implementation part ways on this input
                    obj['replay'] = self.broken_replay
                json.dump(obj, f, indent=1, default=str)
            for k, n, d in self.broken:
                log('BROKEN %s %s:\n%s' % (k, n, d[:3000]))
            print('VIOLATION property=%s replay=%s no-failing-input-found' % (self.prop, rp))
            nviol += 1
        ob = len(self.obligations)
        dis = sum(1 for _, ok in self.obligations if ok)
        axs = sorted({a for l in self.axioms.values() for a in l})
        cov = {
            'obligations': max(ob, 1), 'discharged': dis,
            'obligation_names': [n for n, _ in self.obligations],
            'checker_cmd': checker_cmd or 'bin/coqbuild (coq_makefile + make, coqc 8.16.1) ; coqc build/%s/assump_*.v (Print Assumptions)' % self.prop.lower(),
            'trusted_base': KERNEL_TB + ['axioms reported by Print Assumptions: ' + (', '.join(axs) if axs else 'none (closed under the global context)')] + self.assumptions,
            'axioms': self.axioms,
            'evaluations': evaluations, 'distinct_nontrivial': distinct, 'rule': rule,
            'traces_validated_against_impl': traces,
            'samples': self.samples[:8] or ['(none)'],
            'known_findings_hit': sorted(self.known_hits),
            'broken': [{'kind': k, 'name': n} for k, n, d in self.broken],
        }
        cov.update(self.cov)
        if extra_cov:
            cov.update(extra_cov)
        ev = {'property_id': self.prop, 'tier': self.tier, 'seed': self.seed, 'level': level,
              'coverage': cov, 'assumptions': self.assumptions, 'wall_s': round(wall, 2), 'violations': nviol}
        with open(os.path.join(OUTROOT, 'evidence', '%s.json' % self.prop), 'w') as f:
            json.dump(ev, f, indent=1, default=str)
        log('%s %s: obligations %d/%d, evaluations %d, violations %d, known %d, %.1fs' %
            (self.prop, self.tier, dis, ob, evaluations, nviol, len(self.known_hits), wall))
        return 1 if nviol else 0


# ---- translators registered by individual checks (kept here so that bin/setup regenerates them too)
def _libmem_gen():
    import libmem_common
    return libmem_common._libmem_gen()


def _flush_gen():
    rc, out, _ = sh([tool('flush2coq'), '-root', REPO, '-out', os.path.join(GEN, 'Gen_Flush.v')])
    if rc != 0 and os.path.exists(os.path.join(GEN, 'Gen_Flush.v')):
        os.remove(os.path.join(GEN, 'Gen_Flush.v'))
    return ('flush2coq', rc == 0, out.strip())


EXTRA_TRANSLATORS.append(_flush_gen)


def _register_optional():
    import importlib.util
    if importlib.util.find_spec('libmem_common') is not None and _libmem_gen not in EXTRA_TRANSLATORS:
        EXTRA_TRANSLATORS.append(_libmem_gen)
    if importlib.util.find_spec('c10_gen') is not None:
        import c10_gen
        c10_gen.register()
    if importlib.util.find_spec('c15_gen') is not None:
        import c15_gen
        c15_gen.register()


try:
    _register_optional()
except Exception:
    pass
