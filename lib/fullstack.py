"""Driver of the full-stack harness (harness/fullstack): builds the in-package test binary of
pkg/resmgr once (go test -c -overlay), runs script files in parallel, returns traces."""
import os, json, subprocess, hashlib
from concurrent.futures import ThreadPoolExecutor
import vlib
from vlib import VERIF, BUILD, sh

HS = os.path.join(VERIF, 'harness')


def pkgcopy(src, pkg, name):
    """copy a shared harness file with its package clause rewritten"""
    os.makedirs(os.path.join(BUILD, 'gen'), exist_ok=True)
    dst = os.path.join(BUILD, 'gen', name)
    s = open(src).read().replace('package PKGNAME', 'package ' + pkg)
    if not os.path.exists(dst) or open(dst).read() != s:
        open(dst, 'w').write(s)
    return dst


MUTATORS = r'^func \(c \*container\) (Set\w+|UpdateState|InsertMount|markPending|ClearPending|GetPendingAdjustment|GetPendingUpdate)\((.*?)\)( .*)?\{$'


def instrument_container():
    """Regenerate the traced copy of pkg/resmgr/cache/container.go from the CURRENT source:
    a verifTrace(...) call is inserted as the first statement of every mutator method.
    Returns (path, number of instrumented methods)."""
    import re
    src = open(os.path.join(vlib.REPO, 'pkg/resmgr/cache/container.go')).read().split('\n')
    out, n = [], 0
    for line in src:
        out.append(line)
        m = re.match(MUTATORS, line)
        if m:
            params = [p.strip().split(' ')[0] for p in m.group(2).split(',') if p.strip()]
            args = ''.join(', ' + p for p in params if p not in ('_',) and not p.startswith('...'))
            out.append('\tverifTrace("%s", c%s)' % (m.group(1), args))
            n += 1
    os.makedirs(os.path.join(BUILD, 'gen'), exist_ok=True)
    dst = os.path.join(BUILD, 'gen', 'container_traced.go')
    txt = '\n'.join(out)
    if not os.path.exists(dst) or open(dst).read() != txt:
        open(dst, 'w').write(txt)
    return dst, n


def overlays():
    traced, n = instrument_container()
    if n < 10:
        raise RuntimeError('instrument_container: only %d mutators recognised in container.go' % n)
    return {
        'pkg/resmgr/cache/container.go': traced,
        'pkg/resmgr/cache/zz_verif_trace.go': os.path.join(HS, 'fullstack', 'cache_trace.go'),
        'pkg/resmgr/zz_verif_fs_test.go': os.path.join(HS, 'fullstack', 'fs_test.go'),
        'pkg/resmgr/zz_verif_sysfsgen_test.go': pkgcopy(os.path.join(HS, 'common', 'sysfsgen.go'), 'resmgr', 'sysfsgen_resmgr_test.go'),
        'cmd/plugins/topology-aware/policy/zz_verif_snapshot.go': os.path.join(HS, 'fullstack', 'ta_snapshot.go'),
        'cmd/plugins/balloons/policy/zz_verif_snapshot.go': os.path.join(HS, 'fullstack', 'bln_snapshot.go'),
        'pkg/resmgr/control/cpu/zz_verif_snapshot.go': os.path.join(HS, 'fullstack', 'cpuclass_snapshot.go'),
    }


def build_binary(race=False, extra_overlays=None, name='resmgr'):
    """go test -c for pkg/resmgr with the harness overlay. Returns (path|None, log)."""
    ov = {'Replace': {os.path.join(vlib.REPO, k): v for k, v in {**overlays(), **(extra_overlays or {})}.items()}}
    ovp = os.path.join(BUILD, 'overlay_fullstack_%s.json' % name)
    json.dump(ov, open(ovp, 'w'))
    out = os.path.join(BUILD, '%s%s.test' % (name, '-race' if race else ''))
    cmd = ['go', 'test', '-c', '-vet=off', '-tags', 'verif', '-overlay', ovp, '-o', out]
    env = {}
    if race:
        cmd.append('-race')
        env['CGO_ENABLED'] = '1'
    cmd.append('./pkg/resmgr/')
    if os.path.exists(out):
        os.remove(out)
    rc, log, dt = sh(cmd, cwd=vlib.REPO, env=env, timeout=900)
    return (out if rc == 0 and os.path.exists(out) else None), log


def run_scripts(binary, scripts, workdir, jobs=16, timeout=300, test='^TestVerifFullStack$', env_extra=None):
    """scripts: list of dicts. Returns (traces: {script name: [event records]}, errors)."""
    os.makedirs(workdir, exist_ok=True)
    jobs = max(1, min(jobs, len(scripts)))
    shards = [scripts[i::jobs] for i in range(jobs)]
    def one(k):
        inp = os.path.join(workdir, 'scripts_%02d.jsonl' % k)
        outp = os.path.join(workdir, 'trace_%02d.jsonl' % k)
        with open(inp, 'w') as f:
            for s in shards[k]:
                f.write(json.dumps(s) + '\n')
        env = {'VERIF_SCRIPTS': inp, 'VERIF_OUT_FILE': outp, 'LOGGER_DEBUG': '', 'NODE_NAME': 'verif-node'}
        if env_extra:
            env.update(env_extra)
        rc, log, dt = sh([binary, '-test.run', test, '-test.timeout', '%ds' % timeout], cwd=workdir, env=env, timeout=timeout + 30)
        recs = []
        if os.path.exists(outp):
            for line in open(outp):
                try:
                    recs.append(json.loads(line))
                except Exception:
                    pass
        return rc, log, recs
    with ThreadPoolExecutor(max_workers=jobs) as ex:
        res = list(ex.map(one, range(jobs)))
    traces, errors = {}, []
    for rc, log, recs in res:
        for r in recs:
            traces.setdefault(r['script'], []).append(r)
        if rc != 0:
            errors.append(log[-3000:])
    return traces, errors
