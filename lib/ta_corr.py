"""Print full-stack topology-aware traces as Coq terms for TA_Model.check_segments."""


def zlit(n):
    return '(%d)%%Z' % n

TYPES = {'normal': 'CpuNormal', 'reserved': 'CpuReserved', 'preserve': 'CpuPreserve'}


def nset(l):
    return '(lset [%s])' % ';'.join(str(x) for x in l)


def nlist(l):
    return '[%s]' % ';'.join(str(x) for x in l)


def tree_term(pools):
    idx = {p['name']: i for i, p in enumerate(pools)}
    items = []
    for p in pools:
        par = 'Some %d' % idx[p['parent']] if p['parent'] else 'None'
        items.append('{| p_parent := %s; p_iso := %s; p_res := %s; p_shar := %s |}' % (par, nset(p['iso']), nset(p['res']), nset(p['shar'])))
    return '[%s]' % ';\n   '.join(items), idx


def shares_of(milli):
    return 2 if milli == 0 else max(2, min(262144, milli * 1024 // 1000))


def told_items(rec, cfg, cidx):
    """granted live containers whose cache cpuset/shares the model must predict"""
    from fsoracle import parse_set
    out = []
    if not cfg.get('pinCPU', False):
        return out
    grants = {g['id']: g for g in (rec['ta']['grants'] or [])}
    for c in rec['cache']:
        g = grants.get(c['id'])
        pr = c.get('prefs')
        if not g or not pr or c['state'] not in ('created', 'running') or g['cputype'] == 'preserve' or pr.get('hide_ht') or c.get('preserve_cpu'):
            continue
        out.append('{| ot_cid := %d; ot_cpus := %s; ot_shares := %s |}' % (cidx(c['id']), nlist(sorted(parse_set(c['cpus']))), zlit(c['shares'])))
    return out


def pin_items(rec, cfg, cidx, lost):
    """(container index, cpuset in the cache, stale?) for the containers whose runtime-side pin the model predicts:
    granted ones (as told_items) and the ones that lost their grant in this segment but are still running"""
    from fsoracle import parse_set
    out = []
    if not cfg.get('pinCPU', False):
        return out
    grants = {g['id']: g for g in (rec['ta']['grants'] or [])}
    for c in rec['cache']:
        g = grants.get(c['id'])
        pr = c.get('prefs')
        if not pr or c['state'] not in ('created', 'running') or pr.get('hide_ht') or c.get('preserve_cpu'):
            continue
        if g and g['cputype'] != 'preserve':
            out.append((cidx(c['id']), sorted(parse_set(c['cpus'])), False))
        elif not g and c['id'] in lost:
            out.append((cidx(c['id']), sorted(parse_set(c['cpus'])), True))
    return out


def obs_term(ta, idx, cidx, told=()):
    ps = []
    for p in ta['pools']:
        ps.append('{| o_free_iso := %s; o_free_shar := %s; o_gr_shared := %s; o_gr_reserved := %s; o_alloc_shared := %s; o_alloc_reserved := %s |}' % (
            nlist(p['free_iso']), nlist(p['free_shar']), zlit(p['granted_shared']), zlit(p['granted_reserved']), zlit(p['alloc_shared']), zlit(p['alloc_reserved'])))
    gs = []
    for g in (ta['grants'] or []):
        gs.append('{| og_cid := %d; og_pool := %d; og_excl := %s; og_type := %s; og_portion := %s |}' % (
            cidx(g['id']), idx[g['pool']], nlist(g['exclusive']), TYPES[g['cputype']], zlit(g['portion'])))
    return '{| ob_pools := [%s]; ob_grants := [%s]; ob_told := [%s] |}' % ('; '.join(ps), '; '.join(gs), '; '.join(told))


def grant_term(g, idx):
    return '{| g_pool := %d; g_excl := %s; g_type := %s; g_portion := %s |}' % (idx[g['pool']], nset(g['exclusive']), TYPES[g['cputype']], zlit(g['portion']))


def same_grant(a, b):
    return a['pool'] == b['pool'] and a['exclusive'] == b['exclusive'] and a['cputype'] == b['cputype'] and a['portion'] == b['portion']


def trace_terms(recs, cfgs=None, permissive=False, pins_out=None):
    """recs: records of one script (Setup first). Returns (coq term of the segments, stats)."""
    # permissive: False = the orders reconstructed from the call trace; 1 = allocations of one request sorted (no exclusive
    # CPUs first), 2 = reinstated grants with exclusive CPUs first, 3 (or True) = both.  The implementation's order is a Go
    # map order the trace shows only in part; the state after a group does not depend on it, only the tests on the way do.
    pv = 3 if permissive is True else int(permissive or 0)
    perm_alloc, perm_seg = bool(pv & 1), bool(pv & 2)
    cids = {}
    def cidx(c):
        return cids.setdefault(c, len(cids))
    segs = []
    cur = None
    prev = None
    tainted = False
    lost = set()      # TA_Pins: live containers that lost their grant in this segment
    stats = dict(allocs=0, excl_allocs=0, releases=0, reserves=0, segments=0, skipped=0)
    def pools_sig(ta):
        return [(p['name'], p['parent'], p['iso'], p['res'], p['shar']) for p in ta['pools']]
    for ri, rec in enumerate(recs):
        ta = rec.get('ta')
        if not ta:
            stats['skipped'] += 1
            continue
        new_seg = cur is None or rec['op'] in ('Restart', 'Setup') or pools_sig(ta) != cur['sig'] \
            or (rec['op'] == 'Reconfigure')
        cache = {c['id']: c for c in rec['cache']}
        grants = {g['id']: g for g in (ta['grants'] or [])}
        # allocation order inside one request = order in which applyGrant first touched each container
        first = {}
        for names in (('SetCPUShares',), ('SetCpusetMems',), ('SetCpusetCpus',)):
            for k, call in enumerate(rec.get('calls') or []):
                if call[0] in names and call[1] not in first:
                    first[call[1]] = k
        order = lambda i: (first.get(i, 1 << 30), i)
        if new_seg:
            # a configuration update may make several passes over the grants (attempt, fallback, revert);
            # the state dumped after the request is the result of the LAST pass, whose reinstatement order
            # (Go map order) is the order of the last applyGrant of each container
            last = {}
            for k, call in enumerate(rec.get('calls') or []):
                if call[0] == 'SetCPUShares':
                    last[call[1]] = k
            # a grant that no pass applied was carried over from the saved allocations (failed update whose
            # revert failed too): it precedes the ones this request reinstated
            # The reinstated state does not depend on the order (C13_ta_state_determined_by_grants), only the
            # capacity checks on the way do: grants without exclusive CPUs go first, which is the most permissive
            # order (a successful pass of the implementation in any map order is reproduced by it).
            # ... and among the slicing grants deeper pools first: slicing at an ancestor eats a descendant's CPUs
            # without asking it (K2), never the other way round
            par = {p['name']: p['parent'] for p in ta['pools']}
            def depth(n, k=0):
                return k if not par.get(n) else depth(par[n], k + 1)
            order = lambda i: (1 if grants[i]['exclusive'] else 0, -depth(grants[i]['pool']), last.get(i, -1), i)
            if perm_seg:
                # second opinion: since Reserve tests what the pools need (shortWithout), a grant that takes the last
                # sharable CPUs of a pool passes only BEFORE the zero-request containers of that pool are reinstated;
                # the capacity tests come to the same in both orders (the final state satisfies the capacity invariant)
                order = lambda i: (0 if grants[i]['exclusive'] else 1, -depth(grants[i]['pool']), last.get(i, -1), i)
            tterm, idx = tree_term(ta['pools'])
            cur = dict(tree=tterm, idx=idx, sig=pools_sig(ta), groups=[], pgroups=[])
            lost = set()
            segs.append(cur)
            stats['segments'] += 1
            ops = ['OReserve %d %s' % (cidx(i), grant_term(grants[i], idx)) for i in sorted(grants, key=order)]
            stats['reserves'] += len(ops)
            pops = ['PStep (%s)' % o for o in ops]
        else:
            idx = cur['idx']
            pg = {g['id']: g for g in (prev['ta']['grants'] or [])}
            ops = []
            # containers whose grant was (re)applied in this request were released and allocated again
            touched = {call[1] for call in (rec.get('calls') or []) if call[0] in ('SetCPUShares', 'SetCpusetCpus', 'SetCpusetMems')} if rec['op'] in ('Synchronize', 'Reconfigure', 'Restart') else set()   # (with pinCPU off applyGrant only writes the memory pinning)
            rel = sorted(i for i in pg if i not in grants or not same_grant(pg[i], grants[i]) or i in touched)
            new = sorted((i for i in grants if i not in pg or not same_grant(pg[i], grants[i]) or i in touched), key=order)
            if perm_alloc:
                # second opinion when the order reconstructed from the call trace makes a capacity test fail:
                # the state after the group does not depend on the order, only the tests on the way do
                par = {p['name']: p['parent'] for p in ta['pools']}
                def depth(n, k=0):
                    return k if not par.get(n) else depth(par[n], k + 1)
                new.sort(key=lambda i: (1 if grants[i]['exclusive'] else 0, -depth(grants[i]['pool'])))
            pops = []
            live_now = {c['id'] for c in rec['cache'] if c['state'] in ('created', 'running')}
            for i in rel:
                ops.append('ORelease %d' % cidx(i))
                stats['releases'] += 1
                cc0 = next((c for c in rec['cache'] if c['id'] == i), None)
                trackable = cc0 is not None and cc0.get('prefs') and not cc0['prefs'].get('hide_ht') and not cc0.get('preserve_cpu') and pg[i]['cputype'] != 'preserve'
                if i not in grants and i in live_now and trackable and (cfgs[ri].get('pinCPU', False) if cfgs else False) and not tainted:
                    # still running, no grant any more, told nothing: the pin goes stale (K3)
                    from fsoracle import parse_set
                    cc = next(c for c in rec['cache'] if c['id'] == i)
                    pops.append('PLostGrantAt %d %s' % (cidx(i), nset(sorted(parse_set(cc['cpus'])))))
                    lost.add(i)
                else:
                    pops.append('PStep (ORelease %d)' % cidx(i))
            nrel = len(ops)
            for i in new:
                g = grants[i]
                pr = (cache.get(i) or {}).get('prefs')
                if not pr:
                    # container not live any more in the cache view: cannot recover its request; reinstate verbatim
                    ops.append('OReserve %d %s' % (cidx(i), grant_term(g, idx)))
                    stats['reserves'] += 1
                    continue
                ops.append('OAlloc %d {| r_full := %s; r_fraction := %s; r_isolate := %s; r_type := %s |} %d %s' % (
                    cidx(i), zlit(pr['full']), zlit(pr['fraction']), 'true' if pr['isolate'] else 'false', TYPES[pr['cputype']], idx[g['pool']], nset(g['exclusive'])))
                stats['allocs'] += 1
                if g['exclusive']:
                    stats['excl_allocs'] += 1
        # a rejected configuration update is reverted by re-applying the previous configuration; when that fails
        # too the cached cpusets are left half-rewritten (known finding K9, judged by the C13 and C01 oracles):
        # the told-cpuset comparison is suspended until the next complete re-application
        if rec['op'] == 'Reconfigure' and rec['reply']['class'] != 'ok':
            tainted = True
        elif new_seg:
            tainted = False
        if not new_seg:
            # lost grants first (their guard refers to the pins at the start of the request), then the other releases,
            # then the allocations; a final no-op step re-tells every granted container
            pops = [o for o in pops if o.startswith('PLostGrantAt')] + [o for o in pops if not o.startswith('PLostGrantAt')]
            pops += ['PStep (%s)' % o for o in ops[nrel:]]
            pops.append('PStep (OAllocFail 0)')
        lost = {i for i in lost if i not in grants and any(c['id'] == i and c['state'] in ('created', 'running') for c in rec['cache'])}
        pin_obs = pin_items(rec, cfgs[ri], cidx, lost) if cfgs and not tainted else []
        stats['pins_checked'] = stats.get('pins_checked', 0) + len(pin_obs)
        stats['stale_pins_checked'] = stats.get('stale_pins_checked', 0) + sum(1 for x in pin_obs if x[2])
        cur['pgroups'].append('([%s], [%s])' % ('; '.join(pops), '; '.join('(%d, %s)' % (a, nlist(b)) for a, b, _ in pin_obs)))
        told = told_items(rec, cfgs[ri], cidx) if cfgs and not tainted else []
        stats['told_checked'] = stats.get('told_checked', 0) + len(told)
        cur['groups'].append('([%s], %s)' % ('; '.join(ops), obs_term(ta, idx, cidx, told)))
        prev = rec
    term = '[%s]' % ';\n'.join('(%s,\n  [%s])' % (s['tree'], ';\n   '.join(s['groups'])) for s in segs)
    if pins_out is not None:
        pins_out.append('[%s]' % ';\n'.join('(%s,\n  [%s])' % (s['tree'], ';\n   '.join(s['pgroups'])) for s in segs))
    return term, stats


HDR = 'From Coq Require Import ZArith List. Import ListNotations.\nFrom stdpp Require Import gmap.\nFrom NV Require Import TA_Model.\nOpen Scope nat_scope.\n'


QOS = {'Guaranteed': 'Guaranteed', 'Burstable': 'Burstable', 'BestEffort': 'BestEffort'}
KIND = {0: 'PrefImplicit', 1: 'PrefConfig', 2: 'PrefAnnotated'}


def prefs_cases(recs):
    """(inputs, output) of cpuAllocationPreferences for every live container in every snapshot (deduplicated)"""
    seen, out = set(), []
    b = lambda x: 'true' if x else 'false'
    for rec in recs:
        for c in rec['cache']:
            pr = c.get('prefs')
            if not pr or pr.get('in_qos') not in QOS:
                continue
            key = (pr['in_qos'], pr['in_milli'], pr['in_preserve'], pr['in_prefer_reserved'], pr['in_explicit_reservation'], pr['in_ns_reserved'],
                   pr['in_isolated'], pr['in_isolated_kind'], pr['in_shared'], pr['in_shared_kind'], pr['full'], pr['fraction'], pr['isolate'], pr['cputype'])
            if key in seen:
                continue
            seen.add(key)
            out.append('({| pi_qos := %s; pi_milli := %s; pi_preserve := %s; pi_prefer_reserved := %s; pi_explicit_reservation := %s; pi_ns_reserved := %s; '
                       'pi_isolated := %s; pi_isolated_kind := %s; pi_shared := %s; pi_shared_kind := %s |}, '
                       '{| r_full := %s; r_fraction := %s; r_isolate := %s; r_type := %s |})' % (
                           QOS[pr['in_qos']], zlit(pr['in_milli']), b(pr['in_preserve']), b(pr['in_prefer_reserved']), b(pr['in_explicit_reservation']), b(pr['in_ns_reserved']),
                           b(pr['in_isolated']), KIND[pr['in_isolated_kind']], b(pr['in_shared']), KIND[pr['in_shared_kind']],
                           zlit(pr['full']), zlit(pr['fraction']), b(pr['isolate']), TYPES[pr['cputype']]))
    return out, seen


def case_file(path, traces, cfgs=None, guards=False, permissive=False):
    """traces: list of (name, recs). Writes a .v file printing one result line per trace."""
    allstats = {}
    with open(path, 'w') as f:
        f.write(HDR)
        for k, (name, recs) in enumerate(traces):
            term, st = trace_terms(recs, cfgs.get(name) if cfgs else None, permissive)
            allstats[name] = st
            f.write('Definition T%d : list (tree * list (list op * obs)) := %s.\n' % (k, term))
            f.write('Definition R%d := Eval vm_compute in check_segments 0 T%d.\n' % (k, k))
            if guards:
                f.write('Definition G%d := Eval vm_compute in guard_segments 0 T%d.\n' % (k, k))
        f.write('Definition M := Eval vm_compute in [%s].\nPrint M.\n' % '; '.join('R%d' % k for k in range(len(traces))))
        if guards:
            f.write('Definition GG := Eval vm_compute in [%s].\nPrint GG.\n' % '; '.join('G%d' % k for k in range(len(traces))))
    return allstats


PHDR = 'From Coq Require Import ZArith List. Import ListNotations.\nFrom stdpp Require Import gmap.\nFrom NV Require Import TA_Model TA_Pins.\nOpen Scope nat_scope.\n'


def pins_case_file(path, traces, cfgs, permissive=False):
    """TA_Pins.pcheck_segments on every trace: the runtime-side pins of granted containers and of running containers that
    lost their grant, against the cpusets in the implementation's cache"""
    allstats = {}
    with open(path, 'w') as f:
        f.write(PHDR)
        for k, (name, recs) in enumerate(traces):
            out = []
            _, st = trace_terms(recs, cfgs.get(name), permissive, out)
            allstats[name] = {'pins_checked': st.get('pins_checked', 0), 'stale_pins_checked': st.get('stale_pins_checked', 0)}
            f.write('Definition P%d : list (tree * list (list pop * list (nat * list nat))) := %s.\n' % (k, out[0]))
            f.write('Definition Q%d := Eval vm_compute in pcheck_segments 0 P%d.\n' % (k, k))
        f.write('Definition M := Eval vm_compute in [%s].\nPrint M.\n' % '; '.join('Q%d' % k for k in range(len(traces))))
    return allstats


def nested_case_file(path, traces):
    """TA_Restore.tree_nestedb (hypothesis of C01_refused_update_restores_allocation) on every distinct pool tree observed"""
    trees = []
    for _, recs in traces:
        for rec in recs:
            ta = rec.get('ta')
            if ta and ta.get('pools'):
                term, _ = tree_term(ta['pools'])
                if term not in trees:
                    trees.append(term)
    with open(path, 'w') as f:
        f.write('From Coq Require Import ZArith List. Import ListNotations.\nFrom stdpp Require Import gmap.\nFrom NV Require Import TA_Model TA_Restore.\nOpen Scope nat_scope.\n')
        for k, term in enumerate(trees):
            f.write('Definition T%d : tree := %s.\n' % (k, term))
        f.write('Definition M := Eval vm_compute in [%s].\nPrint M.\n' % '; '.join('tree_nestedb T%d' % k for k in range(len(trees))))
    return len(trees)
