"""Machine descriptions: the ground truth rendered as synthetic sysfs trees by
harness/common/sysfsgen.go and printed as Coq terms by the checks."""
import random, json


def build(name, packages=1, dies=1, nodes_per_die=1, cores_per_node=4, threads=2, l2_cores=1, cluster_cores=None,
          offline=(), isolated=(), ecore_nodes=(), memless=(), extra=(), mem_mb=None, interleaved_ids=False,
          movable_only=(), epp=None, freq=None):
    """extra: list of (kind, close_to_node, size_mb) CPU-less nodes (pmem/hbm).
    interleaved_ids: hyperthread siblings numbered i and i+ncores (like real Intel boxes)."""
    ncores = packages * dies * nodes_per_die * cores_per_node
    cpus, nodes = [], []
    cid = 0
    core_global = 0
    ncpu = ncores * threads
    for p in range(packages):
        for d in range(dies):
            for n in range(nodes_per_die):
                node_id = (p * dies + d) * nodes_per_die + n
                node_cpus = []
                for c in range(cores_per_node):
                    ths = []
                    for t in range(threads):
                        i = (core_global + t * ncores) if interleaved_ids else (core_global * threads + t)
                        ths.append(i)
                    for i in ths:
                        cpus.append(dict(id=i, online=True, isolated=False, pkg=p, die=d,
                                         cluster=(c // cluster_cores if cluster_cores else c), core=c + n * cores_per_node + d * nodes_per_die * cores_per_node,
                                         threads=list(ths), node=node_id, kind='E' if node_id in ecore_nodes else 'P',
                                         basefreq=0, minfreq=0, maxfreq=0, epp='', caches=[], _cg=core_global))
                        node_cpus.append(i)
                    core_global += 1
                nodes.append(dict(id=node_id, cpus=sorted(node_cpus), distance=[], memtotal=0, memfree=0, normal=True, has_memory=True))
    cpus.sort(key=lambda c: c['id'])
    bycg = {}
    for c in cpus:
        bycg.setdefault(c['_cg'], []).append(c['id'])
    # caches: L1d/L1i per core, L2 per l2_cores cores, L3 per die
    for c in cpus:
        cg = c['_cg']
        l2grp = cg // l2_cores
        l2cpus = sorted(i for g in range(l2grp * l2_cores, (l2grp + 1) * l2_cores) for i in bycg.get(g, []) )
        l2cpus = [i for i in l2cpus if next(x for x in cpus if x['id'] == i)['node'] // 1 == c['node'] or True]
        die_cpus = sorted(x['id'] for x in cpus if x['pkg'] == c['pkg'] and x['die'] == c['die'])
        c['caches'] = [dict(level=1, type='Data', id=cg, cpus=sorted(c['threads']), size='32K'),
                       dict(level=1, type='Instruction', id=cg, cpus=sorted(c['threads']), size='32K'),
                       dict(level=2, type='Unified', id=l2grp, cpus=l2cpus, size='1024K'),
                       dict(level=3, type='Unified', id=c['pkg'] * dies + c['die'], cpus=die_cpus, size='16384K')]
    for c in cpus:
        del c['_cg']
        if c['id'] in offline:
            c['online'] = False
        if c['id'] in isolated:
            c['isolated'] = True
        if epp and c['id'] in epp:
            c['epp'] = epp[c['id']]
        if freq and c['id'] in freq:
            c['basefreq'], c['minfreq'], c['maxfreq'] = freq[c['id']]
    # offline CPUs disappear from siblings' thread lists and shared caches, as in the kernel
    off = {c['id'] for c in cpus if not c['online']}
    for c in cpus:
        c['threads'] = [t for t in c['threads'] if t not in off] if c['online'] else []
        for ca in c['caches']:
            ca['cpus'] = [t for t in ca['cpus'] if t not in off]
    for n in nodes:
        n['cpus'] = [c for c in n['cpus'] if c not in off] + []  # node cpulist holds online CPUs only
    nn = len(nodes)
    for k, (kind, close, size) in enumerate(extra):
        nodes.append(dict(id=nn + k, cpus=[], distance=[], memtotal=size * 1024, memfree=size * 1024 * 3 // 4,
                          normal=True, has_memory=True, _kind=kind, _close=close))
    def loc(n):
        if '_close' in n:
            return loc(nodes[n['_close']])
        i = n['id']
        return (i // (dies * nodes_per_die), (i // nodes_per_die) % dies, i % nodes_per_die)
    for a in nodes:
        row = []
        for b in nodes:
            if a['id'] == b['id']:
                row.append(10)
                continue
            la, lb = loc(a), loc(b)
            if la == lb:
                d = 17          # a special node and its closest DRAM node
            elif la[:2] == lb[:2]:
                d = 12
            elif la[0] == lb[0]:
                d = 16
            else:
                d = 21
            if ('_close' in a) != ('_close' in b) and la != lb:
                d += 7
            if '_close' in a and '_close' in b:
                d += 9
            row.append(d)
        a['distance'] = row
    for n in nodes:
        if '_kind' not in n:
            mb = (mem_mb[n['id']] if isinstance(mem_mb, dict) and n['id'] in mem_mb else (mem_mb if isinstance(mem_mb, int) else 4096))
            n['memtotal'] = mb * 1024
            n['memfree'] = mb * 1024 * 3 // 4
        if n['id'] in memless:
            n['memtotal'] = n['memfree'] = 0
            n['has_memory'] = False
            n['normal'] = False
        if n['id'] in movable_only:
            n['normal'] = False
    kinds = {n['id']: n.pop('_kind', 'dram') for n in nodes}
    for n in nodes:
        n.pop('_close', None)
    m = dict(name=name, cpus=cpus, nodes=nodes, hybrid=bool(ecore_nodes))
    m['_kinds'] = kinds
    return m


def dump(m, path):
    mm = {k: v for k, v in m.items() if not k.startswith('_')}
    with open(path, 'w') as f:
        json.dump(mm, f)


# a small zoo used by several checks
def zoo():
    return [
        build('1s-4c-2t', 1, 1, 1, 4, 2),
        build('2s-2n-2c-2t', 2, 1, 2, 2, 2),                       # 2 sockets x 2 NUMA x 2 cores x 2 threads = 16 cpus
        build('2s-2d-1n-2c-1t', 2, 2, 1, 2, 1),
        build('1s-snc2-4c-2t-il', 1, 1, 2, 4, 2, interleaved_ids=True),
        build('2s-pmem', 2, 1, 1, 4, 2, extra=[('pmem', 0, 16384), ('pmem', 1, 16384)]),
        build('2s-2n-iso', 2, 1, 2, 2, 2, isolated=(14, 15)),
        build('2s-2n-off', 2, 1, 2, 2, 2, offline=(3, 7)),
        build('hybrid', 1, 1, 2, 4, 2, ecore_nodes=(1,), cluster_cores=2, l2_cores=2),
        build('2s-2n-iso4', 2, 1, 2, 2, 2, isolated=(6, 7, 12, 13, 14, 15)),     # isolated CPUs in three NUMA nodes, a whole node isolated
        build('1s-2n-iso', 1, 1, 2, 2, 2, isolated=(2, 3, 6)),
    ]
