"""C15: the lock/access skeleton translator (tools/locks2coq -> Gen/Gen_Locks.v + build/c15_locks.json).

Registered in vlib.EXTRA_TRANSLATORS by register() (idempotent), so that both `bin/check C15` and
bin/setup (through vlib._register_optional) regenerate Gen_Locks.v from the current tree."""
import os
import vlib

LOCKS_JSON = os.path.join(vlib.BUILD, 'c15_locks.json')


def _locks2coq():
    os.makedirs(vlib.GEN, exist_ok=True)
    rc, out, _ = vlib.sh([vlib.tool('locks2coq'), '-root', vlib.REPO, '-out', os.path.join(vlib.GEN, 'Gen_Locks.v'),
                          '-json', LOCKS_JSON])
    if rc != 0:
        # a refusal must not leave positions of an older tree behind: the check evaluates the
        # obligations only when this file exists (Gen_Locks.v itself is kept so that the build of
        # unrelated targets does not break; it is not evaluated without the side file)
        try:
            os.remove(LOCKS_JSON)
        except OSError:
            pass
    return ('locks2coq', rc == 0, out.strip())


def register():
    if not any(getattr(f, '__name__', '') == '_locks2coq' for f in vlib.EXTRA_TRANSLATORS):
        vlib.EXTRA_TRANSLATORS.append(_locks2coq)
