"""Oracles over full-stack traces: the clauses of the properties evaluated directly on the
implementation's observables (never through the model).  Each finding is a dict
{prop, clause, sig, what, seq}.  Signatures are computed from the failing observation."""
import re


def parse_set(s):
    if s is None or s == '':
        return set()
    out = set()
    for part in s.split(','):
        if '-' in part:
            a, b = part.split('-')
            out.update(range(int(a), int(b) + 1))
        else:
            out.add(int(part))
    return out


def shares_of(milli):
    if milli == 0:
        return 2
    return max(2, min(262144, milli * 1024 // 1000))


LIVE = ('created', 'running')


def F(prop, clause, sig, what, seq):
    return dict(prop=prop, clause=clause, sig=sig, what=what, seq=seq)


# ---------------------------------------------------------------- topology-aware

def ta_state_findings(rec, cfg, machine, prev_grants=None):
    """Invariants C01 / C03 / C04 on one post-event snapshot."""
    out = []
    ta = rec.get('ta')
    if not ta:
        return out
    seq = rec['seq']
    pools = {p['name']: p for p in ta['pools']}
    grants = {g['id']: g for g in (ta['grants'] or [])}
    cache = {c['id']: c for c in rec['cache']}
    allowed = set(ta['allowed'])
    reserved = set(ta['reserved'])
    pin_cpu = cfg.get('pinCPU', False)
    pin_mem = cfg.get('pinMemory', False)
    children = {}
    for p in ta['pools']:
        children.setdefault(p['parent'], []).append(p['name'])

    def subtree(n):
        r = [n]
        for c in children.get(n, []):
            r += subtree(c)
        return r

    def ancestors(n):
        r = []
        while pools[n]['parent']:
            n = pools[n]['parent']
            r.append(n)
        return r

    # --- C01 exclusivity
    gl = list(grants.values())
    ta = dict(ta, grants=gl)
    for i, g in enumerate(gl):
        E = set(g['exclusive'])
        if not E:
            continue
        for h in gl[i + 1:]:
            if E & set(h['exclusive']):
                out.append(F('C01', 'exclusive-pairwise-disjoint', 'exclusive-overlap',
                             'containers %s and %s both hold exclusive CPUs %s' % (g['id'], h['id'], sorted(E & set(h['exclusive']))), seq))
        for p in ta['pools']:
            if E & set(p['free_shar']) or E & set(p['free_iso']):
                out.append(F('C01', 'exclusive-not-in-shared-set', 'exclusive-in-pool-free-set',
                             'exclusive CPUs %s of %s still in the free shared/isolated set of pool %s' % (sorted(E & (set(p['free_shar']) | set(p['free_iso']))), g['id'], p['name']), seq))
        for c in cache.values():
            if c['id'] == g['id'] or c['state'] not in LIVE or not pin_cpu:
                continue   # with CPU pinning switched off nothing is told; cached cpusets are whatever was there before
            ov = E & parse_set(c['cpus'])
            if ov:
                sig = 'overlapping-container-has-no-grant' if c['id'] not in grants else 'exclusive-in-other-told-cpuset'
                if c['id'] in grants:
                    # K2: the overlapping container sits in a strict descendant of the slicing grant's pool whose shared
                    # CPUs the grant took: it has nowhere to go; a revert of a rejected update re-pins it to them
                    hp = grants[c['id']]['pool']
                    if hp != g['pool'] and g['pool'] in ancestors(hp) and not (set(pools[hp]['shar']) - E - set().union(*[set(x['exclusive']) for x in gl])):
                        sig = 'descendant-of-slicing-grant'
                out.append(dict(F('C01', 'exclusive-not-in-others-cpuset', sig,
                                  'exclusive CPUs %s of %s are in the allowed cpuset %s of live container %s' % (sorted(ov), g['id'], c['cpus'], c['id']), seq), ctr=c['id']))
    for c in cache.values():
        if c['state'] not in LIVE:
            continue
        cp = parse_set(c['cpus'])
        g = grants.get(c['id'])
        if g is None:
            continue   # not managed (no grant): cpuset is whatever the runtime gave / stale
        if g['cputype'] == 'preserve':
            continue
        if pin_cpu and not cp <= allowed:
            out.append(F('C01', 'pinned-within-available', 'cpus-outside-available',
                         'container %s pinned to %s outside available %s' % (c['id'], c['cpus'], sorted(allowed)), seq))
        if pin_cpu and cp & reserved:
            if g['cputype'] != 'reserved':
                out.append(F('C01', 'reserved-only-reserved-class', 'reserved-cpu-to-normal',
                             'non-reserved container %s pinned to reserved CPUs %s' % (c['id'], sorted(cp & reserved)), seq))
            elif not cp <= reserved:
                out.append(F('C01', 'no-mixing-reserved', 'reserved-mixed',
                             'reserved container %s pinned to mix %s' % (c['id'], c['cpus']), seq))
    # --- C09: a container that is not created/running holds nothing
    for g in gl:
        c = cache.get(g['id'])
        if c is None:
            out.append(F('C09', 'no-dangling-grant', 'grant-for-unknown-container', 'grant for container %s which is not in the cache' % g['id'], seq))
        elif c['state'] not in LIVE:
            out.append(F('C09', 'stopped-never-holds', 'stopped-container-holds-grant', '%s container %s holds a grant (%s, exclusive %s, %dm)' % (c['state'], g['id'], g['pool'], g['exclusive'], g['portion']), seq))
    for cid in (ta['libmem'].get('users') or {}):
        if cid not in grants:
            out.append(F('C09', 'no-dangling-memory', 'memory-without-grant', 'memory allocation for %s which holds no grant' % cid, seq))
    # --- C03 capacity
    for p in ta['pools']:
        sub = subtree(p['name'])
        gs = sum(pools[n]['granted_shared'] for n in sub)
        gr = sum(pools[n]['granted_reserved'] for n in sub)
        if gs > 1000 * len(p['free_shar']):
            # which exclusive grant emptied it?  (K2, repaired on both paths: never a known finding any more)
            anc = set(ancestors(p['name']))
            sliced_above = [g['id'] for g in gl if g['exclusive'] and g['pool'] in anc and set(g['exclusive']) & set(p['shar'])]
            sig = 'shared-capacity-oversubscribed'
            out.append(F('C03', 'shared-capacity', sig,
                         'pool %s: %dm shared CPU granted in subtree, %d CPUs left in shared set %s (exclusive slices above: %s)' % (p['name'], gs, len(p['free_shar']), p['free_shar'], sliced_above), seq))
        if len(p['free_res']) and gr > 1000 * len(p['free_res']):
            out.append(F('C03', 'reserved-capacity', 'reserved-capacity-oversubscribed',
                         'pool %s: %dm reserved CPU granted in subtree, %d reserved CPUs' % (p['name'], gr, len(p['free_res'])), seq))
    for z in rec.get('zones', []):
        av = z['res'].get('cpu', ['0', '0', '0'])[2]
        if av.startswith('-'):
            pn = z['name']
            anc = set(ancestors(pn)) if pn in pools else set()
            sliced_above = [g['id'] for g in gl if g['exclusive'] and g['pool'] in anc and pn in pools and set(g['exclusive']) & set(pools[pn]['shar'])]
            # a negative Available may also be inherited from an oversubscribed ancestor/descendant chain
            sig = 'negative-available'
            out.append(F('C03', 'available-nonnegative', sig, 'zone %s reports cpu Available %s' % (pn, av), seq))
    # free sets stay inside the sets they are drawn from: a kernel-isolated CPU never turns up among the sharable ones
    isolated_all = set().union(*[set(p['iso']) for p in ta['pools']] or [set()])
    for p in ta['pools']:
        if set(p['free_shar']) - set(p['shar']) or set(p['free_shar']) & isolated_all:
            for prop, clause in (('C01', 'exclusive-not-in-shared-set'), ('C03', 'shared-capacity'), ('C09', 'pristine-capacity')):
                out.append(F(prop, clause, 'free-shared-set-outside-sharable',
                             'pool %s: free shared set %s holds CPUs that are not sharable CPUs of the pool (%s), or are kernel-isolated' % (p['name'], p['free_shar'], p['shar']), seq))
        if set(p['free_iso']) - set(p['iso']):
            out.append(F('C01', 'exclusive-not-in-shared-set', 'free-isolated-set-outside-isolated',
                         'pool %s: free isolated set %s is not within its isolated CPUs %s' % (p['name'], p['free_iso'], p['iso']), seq))
    # ledger: granted == sum of portions of grants at that pool
    for p in ta['pools']:
        s_sh = sum(g['portion'] for g in gl if g['pool'] == p['name'] and g['cputype'] == 'normal')
        s_rs = sum(g['portion'] for g in gl if g['pool'] == p['name'] and g['cputype'] == 'reserved')
        if s_sh != p['granted_shared'] or s_rs != p['granted_reserved']:
            out.append(F('C03', 'ledger-exact', 'ledger-mismatch',
                         'pool %s: ledger shared/reserved %d/%d but grants sum to %d/%d' % (p['name'], p['granted_shared'], p['granted_reserved'], s_sh, s_rs), seq))
    # non-empty cpuset, eligibility, shares
    for g in gl:
        c = cache.get(g['id'])
        if not c or c['state'] not in LIVE:
            continue
        if g['cputype'] == 'preserve':
            continue
        if pin_cpu and c['cpus'] == '':
            anc = set(ancestors(g['pool']))
            pool = pools[g['pool']]
            sliced_above = [h['id'] for h in gl if h['exclusive'] and h['pool'] in anc and set(h['exclusive']) & set(pool['shar'])]
            # grants of the same pool holding every sharable CPU of it exclusively: AllocateCPU never slices the last
            # shared CPU off a pool (strict capacity test), Reserve (reinstatement after a configuration update that
            # shrank the shared set) does
            own = set().union(*[set(h['exclusive']) for h in gl if h['pool'] == g['pool']] or [set()])
            sig = 'descendant-of-slicing-grant' if sliced_above else ('no-sharable-cpus-in-pool' if not pool['shar'] else
                  ('all-shared-cpus-of-pool-reinstated-exclusive' if set(pool['shar']) <= own else 'empty-cpuset'))
            out.append(dict(F('C03', 'nonempty-cpuset', sig, 'container %s (pool %s) has an empty allowed cpuset' % (c['id'], g['pool']), seq), ctr=c['id']))
        pr = c.get('prefs')
        # eligibility is decided when a grant is made: look at grants made by this request (a grant
        # reinstated verbatim by a reconfiguration/restart predates the configuration now in force)
        fresh = rec['op'] not in ('Reconfigure', 'Restart', 'Setup') and (prev_grants is None or prev_grants.get(g['id']) != g)
        if pr and fresh:
            want_full = pr['full'] if pr['cputype'] == 'normal' else 0
            if len(g['exclusive']) != want_full:
                out.append(F('C03', 'eligibility', 'exclusive-count-mismatch',
                             'container %s: rules give %d exclusive CPUs (type %s, fraction %d), grant has %s' % (c['id'], want_full, pr['cputype'], pr['fraction'], g['exclusive']), seq))
            if g['isolated'] and set(g['isolated']) != set(g['exclusive']):
                out.append(F('C03', 'isolated-all-or-none', 'partially-isolated',
                             'container %s: exclusive %s only partly isolated %s' % (c['id'], g['exclusive'], g['isolated']), seq))
        if pin_cpu:
            milli = g['portion'] if g['portion'] else 1000 * len(g['exclusive'])
            if c['shares'] != shares_of(milli):
                out.append(F('C03', 'shares-encoding', 'cpu-shares-mismatch',
                             'container %s: cpu.shares %d but granted %dm (expected %d)' % (c['id'], c['shares'], milli, shares_of(milli)), seq))
    # --- C04 memory pinning follows the allocator
    out += mem_findings(rec, ta['libmem'], {g['id']: (g.get('mem_preserve')) for g in gl}, pin_mem, machine, seq,
                        managed=set(grants))
    return out


def mem_findings(rec, lm, preserve, pin_mem, machine, seq, managed, pin_by_ctr=None):
    out = []
    cache = {c['id']: c for c in rec['cache']}
    has_mem = {n['id'] for n in machine['nodes'] if n['has_memory'] and n['memtotal'] > 0}
    allnodes = {n['id'] for n in machine['nodes']}
    for cid in managed:
        c = cache.get(cid)
        if not c or c['state'] not in LIVE:
            continue
        pin = pin_mem if pin_by_ctr is None else pin_by_ctr.get(cid, pin_mem)
        if not pin or preserve.get(cid) or c.get('preserve_mem'):
            continue
        told = parse_set(c['mems'])
        assigned = lm['users'].get(cid)
        if assigned is not None:
            if told != set(assigned):
                out.append(F('C04', 'mems-follow-allocator', 'mems-differ-from-assigned-zone',
                             'container %s told mems %s but allocator assigns %s' % (cid, c['mems'], assigned), seq))
            if not told:
                out.append(F('C04', 'mems-nonempty', 'empty-mems', 'container %s has empty cpuset.mems' % cid, seq))
        if told and not told <= allnodes:
            out.append(F('C04', 'mems-exist', 'nonexistent-node', 'container %s told nonexistent nodes %s' % (cid, sorted(told - allnodes)), seq))
        elif told and not told <= has_mem:
            out.append(F('C04', 'mems-have-memory', 'memoryless-node-in-mems', 'container %s told memory-less nodes %s' % (cid, sorted(told - has_mem)), seq))
    if rec['reply']['class'] == 'ok':
        inuse = [tuple(z['nodes']) for z in lm.get('zones') or []]
        for z in (lm.get('zones') or []):
            if z['usage'] > z['capacity']:
                out.append(F('C04', 'zone-fit', 'in-use-zone-oversubscribed',
                             'zone %s holds %d > capacity %d' % (z['nodes'], z['usage'], z['capacity']), seq))
        for z in (lm.get('unions') or []):
            if z['usage'] > z['capacity']:
                out.append(F('C04', 'zone-fit', 'oversubscribed-set-not-an-in-use-zone',
                             'node set %s (union of in-use zones) holds %d > capacity %d' % (z['nodes'], z['usage'], z['capacity']), seq))
    return out


def ta_pristine_findings(first, rec, same_config=True):
    """C09: quiescent state equals the state right after configuration."""
    out = []
    ta, ta0 = rec.get('ta'), first.get('ta')
    if not ta or not ta0:
        return out
    seq = rec['seq']
    if ta.get('grants'):
        out.append(F('C09', 'no-dangling-grant', 'grant-after-drain', 'grants left after all containers were removed: %s' % [g['id'] for g in ta['grants']], seq))
    if ta['libmem'].get('users'):
        out.append(F('C09', 'no-memory-allocations', 'libmem-request-after-drain', 'memory allocations left: %s' % ta['libmem']['users'], seq))
    for p in ta['pools']:
        for k, t in (('free_iso', 'iso'), ('free_res', 'res'), ('free_shar', 'shar')):
            if p[k] != p[t]:
                out.append(F('C09', 'pristine-capacity', 'pool-not-pristine', 'pool %s: %s is %s but the total %s set is %s' % (p['name'], k, p[k], t, p[t]), seq))
        if p['granted_shared'] or p['granted_reserved']:
            out.append(F('C09', 'pristine-capacity', 'ledger-not-zero', 'pool %s: granted shared/reserved %d/%d after drain' % (p['name'], p['granted_shared'], p['granted_reserved']), seq))
    if same_config:
        z0 = {z['name']: z for z in first['zones']}
        for z in rec['zones']:
            y = z0.get(z['name'])
            if y and (z['res'] != y['res'] or z['attrs'] != y['attrs']):
                out.append(F('C09', 'pristine-zones', 'zones-not-pristine', 'zone %s differs from its initial report: %s vs %s' % (z['name'], z, y), seq))
    return out


def shares_to_milli(shares):
    """pkg/kubernetes SharesToMilliCPU: MinShares (2) means no request"""
    return 0 if shares == 2 else int(shares * 1000 / 1024 + 0.5)


class Requests:
    """the CPU request the runtime last gave for each container (cgroup shares of the CreateContainer /
    UpdateContainer that was accepted): the request the policy works from must be its reconstruction"""
    def __init__(self):
        self.shares = {}

    def step(self, ev, rec):
        out = []
        cache = {c['id']: c for c in rec['cache']}
        if rec['reply']['class'] == 'ok' and rec['op'] in ('CreateContainer', 'UpdateContainer'):
            cid = (ev.get('ctr') or {}).get('id')
            res = (ev.get('res') if rec['op'] == 'UpdateContainer' else (ev.get('ctr') or {}).get('res')) or {}
            c = cache.get(cid)
            if res.get('shares') is not None and c and c['state'] in LIVE and not ev.get('nilres') and not res.get('nocpu'):
                self.shares[cid] = res['shares']
            elif rec['op'] == 'CreateContainer':
                self.shares.pop(cid, None)
        if rec['reply']['class'] != 'ok' and rec['op'] == 'UpdateContainer':
            # a refused update: the container has lost its grant (known finding K3) and what the plugin
            # believes about its request is no longer judged here
            self.shares.pop((ev.get('ctr') or {}).get('id'), None)
        if rec['op'] in ('Synchronize', 'Restart'):
            self.shares = {}          # the listing carries the runtime's current resources: start over
        for cid, sh in self.shares.items():
            c = cache.get(cid)
            pr = c and c.get('prefs')
            if not pr or c['state'] not in LIVE or pr.get('in_qos') == 'BestEffort':
                continue
            want = shares_to_milli(sh)
            if abs(pr['in_milli'] - want) > 1:
                out.append(F('C03', 'grant-matches-request', 'request-differs-from-runtime-resources',
                             'container %s: the runtime last gave cpu.shares %d (%dm), the policy works from a request of %dm' % (cid, sh, want, pr['in_milli']), rec['seq']))
        return out


class Retired:
    """instances the runtime has replaced: a CreateContainer for the same pod and container name with a new id
    means the old instance is dead (its StopContainer is merely late). From then on it must hold nothing."""
    def __init__(self):
        self.admitted, self.retired = set(), set()

    def step(self, ev, rec):
        if rec['op'] == 'CreateContainer' and rec['reply']['class'] == 'ok':
            self.admitted.add(ev['ctr']['id'])
        if rec['op'] == 'CreateContainer' and ev.get('replaces') in self.admitted:
            self.retired.add(ev['replaces'])
        out = []
        holders = set()
        if rec.get('ta'):
            holders = {g['id'] for g in (rec['ta'].get('grants') or [])}
        if rec.get('bln'):
            holders = {c for x in (rec['bln'].get('balloons') or []) for l in x['members'].values() for c in l}
        for c in sorted(holders & self.retired):
            out.append(F('C09', 'stopped-never-holds', 'replaced-instance-holds-resources',
                         'container %s was replaced by a new instance of the same pod/name, but holds an allocation after %s' % (c, rec['op']), rec['seq']))
        return out


# ---------------------------------------------------------------- runtime view (C05) and opt-outs (C12)

FIELDS = ('cpus', 'mems', 'shares', 'quota', 'period', 'memlimit', 'swap')


class RuntimeView:
    """What the container runtime has been told so far, accumulated from replies."""

    def __init__(self):
        self.view = {}        # id -> {field: value}
        self.stopped = set()
        self.removed = set()
        self.initial = {}     # id -> resources the runtime created the container with

    def apply(self, u):
        v = self.view.setdefault(u['id'], {})
        for f in FIELDS:
            if u.get(f) is not None:
                v[f] = u[f]


def c05_findings(rv, ev, rec, prev_cache):
    """rv: RuntimeView (mutated).  ev: the script event.  rec: the harness record."""
    out = []
    seq = rec['seq']
    rep = rec['reply']
    op = rec['op']
    if rep['class'] == 'panic':
        return out
    # bookkeeping of runtime-side lifecycle (the runtime's own truth)
    if op == 'StopContainer' and ev.get('ctr'):
        rv.stopped.add(ev['ctr']['id'])
    if op == 'RemoveContainer' and ev.get('ctr'):
        rv.removed.add(ev['ctr']['id'])
    if op == 'Synchronize':
        listed = {c['id']: c for c in ev.get('ctrs', [])}
        for cid, c in listed.items():
            if c.get('state') in ('stopped', 'exited'):
                rv.stopped.add(cid)
            else:
                rv.stopped.discard(cid)
        for cid in list(rv.view):
            if cid not in listed:
                rv.removed.add(cid)
    updates = list(rep.get('updates') or []) + list(rep.get('pushed') or [])
    if op == 'CreateContainer' and rep['class'] == 'ok':
        cid = ev['ctr']['id']
        res = ev['ctr'].get('res') or {}
        rv.view[cid] = {}
        rv.stopped.discard(cid)
        rv.removed.discard(cid)
        adj = rep.get('adjust')
        if adj is None:
            out.append(F('C05', 'adjustment-present', 'no-adjustment', 'CreateContainer ok without adjustment for %s' % cid, seq))
        else:
            if adj['id'] != cid:
                out.append(F('C05', 'adjust-only-created', 'adjustment-for-other', 'adjustment addresses %s, created %s' % (adj['id'], cid), seq))
            rv.apply(dict(adj, id=cid))
        for u in updates:
            if u['id'] == cid:
                out.append(F('C05', 'adjust-only-created', 'update-for-container-being-created', 'update addresses the container being created %s' % cid, seq))
    seen = set()
    for u in rep.get('updates') or []:
        if u['id'] in seen:
            out.append(F('C05', 'one-update-per-container', 'duplicate-update', 'two updates for %s in one reply' % u['id'], seq))
        seen.add(u['id'])
    seen = set()
    for u in rep.get('pushed') or []:
        if u['id'] in seen:
            out.append(F('C05', 'one-update-per-container', 'duplicate-update', 'two pushed updates for %s' % u['id'], seq))
        seen.add(u['id'])
    for u in updates:
        if u['id'] in rv.removed or u['id'] in rv.stopped:
            what = 'removed' if u['id'] in rv.removed else 'stopped'
            out.append(F('C05', 'no-update-to-stopped', 'update-to-%s-container' % what,
                         '%s: update addressed to %s container %s: %s' % (op, what, u['id'], {k: v for k, v in u.items() if v is not None}), seq))
        rv.apply(u)
    # runtime view == cache view for every live container: every field the plugin ever told
    # must equal the cache, and a cached value that changed in this request must have been told
    prev = {c['id']: c for c in (prev_cache or [])}
    for c in (rec['cache'] if op != 'Restart' else []):   # a restart is not a request: the flush comes with Synchronize
        cid = c['id']
        if c['state'] not in LIVE or cid in rv.stopped or cid in rv.removed:
            continue
        v = rv.view.get(cid)
        if v is None:
            continue       # never created through us (synchronized-in): nothing told yet
        pc = prev.get(cid)
        for f in (FIELDS if not c['pending'] else ()):
            cv = c[f]
            told = v.get(f)
            if told is not None:
                same = (told == cv) if f in ('cpus', 'mems') else (told == cv or (cv == 0 and told is None))
                if not same and f == 'mems' and cv == '':
                    out.append(F('C05', 'view-eq-cache', 'cache-mems-emptied',
                                 '%s: container %s cache mems became empty (memory pinning switched off), the runtime still has %r' % (op, cid, told), seq))
                elif not same and f == 'cpus' and cv == '':
                    # an empty cpuset cannot be expressed in an NRI update (empty = unchanged): consequence of K2
                    out.append(F('C05', 'view-eq-cache', 'cache-cpuset-emptied',
                                 '%s: container %s cache cpuset became empty, the runtime still has %r' % (op, cid, told), seq))
                elif not same:
                    out.append(F('C05', 'view-eq-cache', 'runtime-view-differs:' + f,
                                 '%s: container %s cache %s=%r but the plugin last told the runtime %r' % (op, cid, f, cv, told), seq))
            elif pc is not None and pc[f] != cv and cv not in ('', 0):
                out.append(F('C05', 'view-eq-cache', 'cache-change-never-told:' + f,
                             '%s: container %s cache %s changed %r -> %r but was never told to the runtime' % (op, cid, f, pc[f], cv), seq))
        if c['pending']:
            # an UpdateContainer naming a container that is not created/running (or unknown) is ignored by the
            # handler before anything is flushed: it counts with the non-flushing requests
            tgt = (ev.get('ctr') or {}).get('id')
            ignored = op == 'UpdateContainer' and not any(x['id'] == tgt and x['state'] in LIVE for x in rec['cache'])
            if op == 'Reconfigure' and rep['class'] != 'ok' and not rec.get('revert_failed'):
                # a rejected update whose revert went through: the revert pushes every pending change
                out.append(F('C05', 'nothing-pending', 'pending-after-reverted-reconfigure', 'Reconfigure rejected and reverted, but container %s still has pending changes' % cid, seq))
                continue
            sig = 'pending-after-reply' if rep['class'] == 'ok' and not ignored and op not in ('RunPodSandbox', 'StopPodSandbox', 'RemovePodSandbox', 'StartContainer', 'RemoveContainer', 'Restart') else 'pending-after-failed-or-nonflushing-request'
            out.append(F('C05', 'nothing-pending', sig, '%s (%s): container %s still has pending changes after the reply' % (op, rep['class'], cid), seq))
    return out


def fmt_set(ids):
    """canonical cpuset-style string of a set of ints (as the repo's cpuset.String())"""
    ids = sorted(ids)
    out, i = [], 0
    while i < len(ids):
        j = i
        while j + 1 < len(ids) and ids[j + 1] == ids[j] + 1:
            j += 1
        out.append(str(ids[i]) if i == j else '%d-%d' % (ids[i], ids[j]))
        i = j + 1
    return ','.join(out)


def c12_findings(ev, rec, optout_cpu, optout_mem, told_mems):
    """No adjustment/update tells an opted-out container a cpuset / a different mems."""
    out = []
    rep = rec['reply']
    seq = rec['seq']
    if rec['op'] == 'CreateContainer' and ((ev.get('ctr') or {}).get('res') or {}).get('mems'):
        # what the runtime created the container with is what "unchanged" refers to
        told_mems.setdefault(ev['ctr']['id'], fmt_set(parse_set(ev['ctr']['res']['mems'])))
    if rec['op'] == 'Synchronize':
        # containers the plugin first hears of in a listing: the listing carries what the runtime has
        for lc in ev.get('ctrs') or []:
            r0 = lc.get('res') or {}
            if r0.get('mems'):
                told_mems.setdefault(lc['id'], fmt_set(parse_set(r0['mems'])))
            if r0.get('cpus'):
                told_mems.setdefault(('cpus', lc['id']), fmt_set(parse_set(r0['cpus'])))
    if rec['op'] == 'CreateContainer' and ((ev.get('ctr') or {}).get('res') or {}).get('cpus'):
        told_mems.setdefault(('cpus', ev['ctr']['id']), fmt_set(parse_set(ev['ctr']['res']['cpus'])))
    items = []
    if rep.get('adjust'):
        items.append(('adjustment', rep['adjust']))
    items += [('update', u) for u in (rep.get('updates') or [])] + [('pushed update', u) for u in (rep.get('pushed') or [])]
    for kind, u in items:
        cid = u['id']
        if cid in optout_cpu and u.get('cpus') is not None and told_mems.get(('cpus', cid)) != u['cpus']:
            # (re-telling the cpuset the runtime already has -- the handler does that for an UpdateContainer with
            # identical resources -- touches nothing)
            out.append(F('C12', 'cpu-preserved-never-told-cpus', 'cpuset-told-to-cpu-opt-out:' + optout_cpu[cid],
                         '%s (%s) tells CPU-opted-out container %s cpus=%s' % (rec['op'], kind, cid, u['cpus']), seq))
        if cid in optout_mem and u.get('mems') is not None:
            prev = told_mems.get(cid)
            if prev is None or prev != u['mems']:
                out.append(F('C12', 'mem-preserved-mems-unchanged', 'mems-told-to-memory-opt-out:' + optout_mem[cid],
                             '%s (%s) tells memory-opted-out container %s mems=%s (had %s)' % (rec['op'], kind, cid, u['mems'], prev), seq))
        if u.get('mems') is not None:
            told_mems[cid] = u['mems']
        if u.get('cpus') is not None:
            told_mems[('cpus', cid)] = u['cpus']
    return out


# ---------------------------------------------------------------- balloons (C02, C04, C09)

def bln_state_findings(rec, cfg, machine):
    out = []
    b = rec.get('bln')
    if not b:
        return out
    seq = rec['seq']
    cache = {c['id']: c for c in rec['cache']}
    allowed = set(b['allowed'])
    free = set(b['free'])
    isolated = {c['id'] for c in machine['cpus'] if c['isolated']}
    blns = b['balloons']
    thread_sib = {c['id']: sorted(c['threads']) for c in machine['cpus']}
    # --- partition
    union = set()
    for i, x in enumerate(blns):
        cx = set(x['cpus'])
        if not cx <= allowed:
            out.append(F('C02', 'balloon-within-available', 'balloon-cpus-outside-available', 'balloon %s has CPUs %s outside available' % (x['name'], sorted(cx - allowed)), seq))
        for y in blns[i + 1:]:
            if cx & set(y['cpus']):
                out.append(F('C02', 'balloons-disjoint', 'balloons-overlap', 'balloons %s and %s share CPUs %s' % (x['name'], y['name'], sorted(cx & set(y['cpus']))), seq))
        union |= cx
    if free != allowed - union:
        out.append(F('C02', 'free-is-complement', 'free-not-complement', 'free CPUs %s != available minus balloons %s' % (sorted(free), sorted(allowed - union)), seq))
    # --- membership
    where = {}
    for x in blns:
        for pod, ctrs in x['members'].items():
            for cid in ctrs:
                where.setdefault(cid, []).append(x['name'])
    for cid, names in where.items():
        if len(names) > 1:
            out.append(F('C02', 'member-of-exactly-one', 'container-in-two-balloons', 'container %s is a member of %s' % (cid, names), seq))
        c = cache.get(cid)
        if c is None:
            out.append(F('C09', 'no-dangling-membership', 'member-not-in-cache', 'balloon %s lists container %s which no longer exists' % (names, cid), seq))
        elif c['state'] not in LIVE:
            out.append(F('C09', 'stopped-never-holds', 'stopped-container-is-member', 'balloon %s lists %s container %s' % (names, c['state'], cid), seq))
    # --- pinning, shared idle, limits, sizes
    levels = b.get('levels') or {}
    bydef = {}
    for x in blns:
        bydef.setdefault(x['def'], []).append(x)
        cx, sh = set(x['cpus']), set(x['shared_idle'])
        if sh & union:
            out.append(F('C02', 'shared-idle-sound', 'shared-idle-in-a-balloon', 'balloon %s shares CPUs %s that belong to a balloon' % (x['name'], sorted(sh & union)), seq))
        if sh & isolated:
            out.append(F('C02', 'shared-idle-sound', 'shared-idle-isolated', 'balloon %s shares isolated CPUs %s' % (x['name'], sorted(sh & isolated)), seq))
        if not sh <= allowed:
            out.append(F('C02', 'shared-idle-sound', 'shared-idle-outside-available', 'balloon %s shares CPUs %s outside available' % (x['name'], sorted(sh - allowed)), seq))
        lvl = x['share_idle_in']
        if lvl and lvl in levels:
            scope = set()
            for grp in levels[lvl]:
                if set(grp) & cx:
                    scope |= set(grp)
            want = (scope & free) - isolated
            if not want <= sh:
                out.append(F('C02', 'shared-idle-complete', 'idle-cpu-not-shared', 'balloon %s (scope %s): idle CPUs %s of its scope are not in its shared set %s' % (x['name'], lvl, sorted(want - sh), sorted(sh)), seq))
        elif not lvl and sh:
            out.append(F('C02', 'shared-idle-sound', 'shared-idle-without-scope', 'balloon %s has shared CPUs %s but no sharing scope' % (x['name'], sorted(sh)), seq))
        nmem = sum(len(v) for v in x['members'].values())
        if x['max_cpus'] and len(cx) > x['max_cpus']:
            out.append(F('C02', 'min-max-cpus', 'above-max-cpus', 'balloon %s has %d CPUs > maxCPUs %d' % (x['name'], len(cx), x['max_cpus']), seq))
        if len(cx) < x['min_cpus']:
            out.append(F('C02', 'min-max-cpus', 'below-min-cpus', 'balloon %s has %d CPUs < minCPUs %d' % (x['name'], len(cx), x['min_cpus']), seq))
        if nmem and x['def'] != 'reserved' and len(cx) < 1:
            out.append(F('C02', 'nonempty-balloon-has-cpu', 'nonempty-balloon-without-cpu', 'balloon %s has %d containers and no CPU' % (x['name'], nmem), seq))
        if nmem and 1000 * len(cx) < x['req_milli']:
            sig = 'requests-exceed-max-cpus' if x['max_cpus'] and x['req_milli'] > 1000 * x['max_cpus'] else 'size-below-requests'
            out.append(F('C02', 'size-covers-requests', sig, 'balloon %s has %d CPUs for %dm requested' % (x['name'], len(cx), x['req_milli']), seq))
        # pinning of members
        for pod, ctrs in x['members'].items():
            for cid in ctrs:
                c = cache.get(cid)
                if not c or c['state'] not in LIVE or not b['pin_cpu'] or c.get('preserve_cpu'):
                    continue
                pin = cx | sh
                told = parse_set(c['cpus'])
                hide = x['hide_ht'] or c.get('hide_ht')
                if told != pin:
                    # one thread per core?
                    one = {min(t for t in thread_sib[cpu] if t in pin) for cpu in pin}
                    if told == one:
                        continue
                    out.append(F('C02', 'pinned-exact', 'cpuset-differs-from-balloon', 'container %s pinned to %s, balloon %s has %s + shared %s' % (cid, c['cpus'], x['name'], sorted(cx), sorted(sh)), seq))
    for d, l in bydef.items():
        mx, mn = l[0]['max_balloons'], l[0]['min_balloons']
        if mx and len(l) > mx:
            out.append(F('C02', 'min-max-balloons', 'above-max-balloons', 'type %s has %d instances > maxBalloons %d' % (d, len(l), mx), seq))
        if len(l) < mn:
            out.append(F('C02', 'min-max-balloons', 'below-min-balloons', 'type %s has %d instances < minBalloons %d' % (d, len(l), mn), seq))
    # managed live containers are members of exactly one balloon
    for c in rec['cache']:
        if c['state'] in LIVE and c['id'] not in where and c['cpus'] != '' and False:
            pass
    # --- cpu classes
    cls = rec.get('cpuclasses') or {}
    cls_of = {}
    for k, cpus in cls.items():
        for cpu in cpus:
            cls_of[cpu] = k
    for x in blns:
        for cpu in x['cpus']:
            if cls_of.get(cpu, '') != x['cpu_class']:
                out.append(F('C02', 'class-of-every-cpu', 'balloon-cpu-wrong-class', 'CPU %d of balloon %s has class %r, type says %r' % (cpu, x['name'], cls_of.get(cpu, ''), x['cpu_class']), seq))
    for cpu in sorted(free):
        if cls_of.get(cpu, '') != b['idle_class']:
            out.append(F('C02', 'class-of-every-cpu', 'idle-cpu-wrong-class', 'idle CPU %d has class %r, idle class is %r' % (cpu, cls_of.get(cpu, ''), b['idle_class']), seq))
    # --- memory (C04)
    managed = set(where)
    pin_by = {}
    for x in blns:
        pm = b['pin_memory'] if x['pin_memory'] is None else x['pin_memory']
        for pod, ctrs in x['members'].items():
            for cid in ctrs:
                pin_by[cid] = pm
    out += mem_findings(rec, b['libmem'], {}, b['pin_memory'], machine, seq, managed, pin_by)
    return out


def bln_pristine_findings(first, rec, same_config=True):
    out = []
    b, b0 = rec.get('bln'), first.get('bln')
    if not b or not b0:
        return out
    seq = rec['seq']
    if b['libmem'].get('users'):
        out.append(F('C09', 'no-memory-allocations', 'libmem-request-after-drain', 'memory allocations left: %s' % b['libmem']['users'], seq))
    for x in b['balloons']:
        if x['members']:
            out.append(F('C09', 'no-dangling-membership', 'member-after-drain', 'balloon %s still has members %s' % (x['name'], x['members']), seq))
    if same_config:
        # only the pre-created balloons at their minimum sizes (up to instance renumbering and CPU identity)
        sig = lambda bb: sorted((x['def'], len(x['cpus'])) for x in bb['balloons'])
        if sig(b) != sig(b0):
            out.append(F('C09', 'only-precreated-balloons', 'balloons-not-pristine', 'balloons after drain %s, after configuration %s' % (sig(b), sig(b0)), seq))
        if len(b['free']) != len(b0['free']):
            out.append(F('C09', 'all-other-cpus-idle', 'idle-count-differs', '%d idle CPUs after drain, %d after configuration' % (len(b['free']), len(b0['free'])), seq))
    return out
