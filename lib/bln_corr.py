"""Print full-stack balloons traces as Coq terms for Bln_Model.bcheck_segments."""
from fsoracle import parse_set

HDR = 'From Coq Require Import ZArith List. Import ListNotations.\nFrom stdpp Require Import gmap.\nFrom NV Require Import Bln_Model.\nOpen Scope nat_scope.\n'


def nset(l):
    return '(lset [%s])' % ';'.join(str(x) for x in l)


def nlist(l):
    return '[%s]' % ';'.join(str(x) for x in l)


def trace_terms(recs, isolated):
    bids, cids = {}, {}
    bid = lambda n: bids.setdefault(n, len(bids))
    cid = lambda n: cids.setdefault(n, len(cids))
    segs, cur, prev = [], None, None
    stats = dict(inflates=0, deflates=0, news=0, deletes=0, assigns=0, dismisses=0, shares=0, segments=0, pinned_checked=0, completeness_checked=0)
    comp = []   # completeness cases: (segment index, group index, balloon id, groups)
    for rec in recs:
        b = rec.get('bln')
        if not b:
            continue
        new_seg = cur is None or rec['op'] in ('Restart', 'Setup', 'Reconfigure') or b['allowed'] != cur['allowed']
        blns = {x['name']: x for x in b['balloons']}
        members = lambda x: sorted(c for l in x['members'].values() for c in l)
        if new_seg:
            cur = dict(allowed=b['allowed'], groups=[])
            segs.append(cur)
            stats['segments'] += 1
            pre = {}
        else:
            pre = {x['name']: x for x in prev['bln']['balloons']}
        ops = []
        # dismiss containers that left, delete/deflate first (free grows), then create/inflate
        for n, x in pre.items():
            gone = [c for c in members(x) if n not in blns or c not in members(blns[n])]
            for c in gone:
                ops.append('BDismiss %d' % cid(c)); stats['dismisses'] += 1
        for n, x in pre.items():
            if n in blns:
                rem = sorted(set(x['cpus']) - set(blns[n]['cpus']))
                if rem:
                    ops.append('BDeflate %d %s' % (bid(n), nset(rem))); stats['deflates'] += 1
        for n, x in pre.items():
            if n not in blns:
                if x['cpus']:
                    ops.append('BDeflate %d %s' % (bid(n), nset(x['cpus']))); stats['deflates'] += 1
                ops.append('BDelete %d' % bid(n)); stats['deletes'] += 1
        for n, x in blns.items():
            if n not in pre:
                ops.append('BNew %d' % bid(n)); stats['news'] += 1
        for n, x in blns.items():
            add = sorted(set(x['cpus']) - set(pre[n]['cpus'] if n in pre else []))
            if add:
                ops.append('BInflate %d %s' % (bid(n), nset(add))); stats['inflates'] += 1
        for n, x in blns.items():
            old = set(pre[n]['shared_idle']) if n in pre else set()
            allnew = set()
            for y in blns.values():
                allnew |= set(y['cpus'])
            old -= allnew      # BInflate already removed newly allocated CPUs from every shared set
            rem, add = sorted(old - set(x['shared_idle'])), sorted(set(x['shared_idle']) - old)
            if rem:
                ops.append('BUnshare %d %s' % (bid(n), nset(rem)))
            if add:
                ops.append('BShare %d %s' % (bid(n), nset(add))); stats['shares'] += 1
        for n, x in blns.items():
            for c in members(x):
                if n not in pre or c not in members(pre[n]):
                    ops.append('BAssign %d %d' % (cid(c), bid(n))); stats['assigns'] += 1
        cache = {c['id']: c for c in rec['cache']}
        pinned = []
        for n, x in blns.items():
            if x['hide_ht'] or not b['pin_cpu']:
                continue
            for c in members(x):
                cc = cache.get(c)
                if not cc or cc['state'] not in ('created', 'running') or cc.get('preserve_cpu') or cc.get('hide_ht_ann'):
                    continue
                pinned.append('(%d, %d, %s)' % (cid(c), bid(n), nlist(sorted(parse_set(cc['cpus'])))))
        stats['pinned_checked'] += len(pinned)
        obs = '{| ob_free := %s; ob_blns := [%s]; ob_pinned := [%s] |}' % (
            nlist(b['free']),
            '; '.join('{| ob_id := %d; ob_cpus := %s; ob_shared := %s; ob_members := %s |}' % (bid(n), nlist(x['cpus']), nlist(x['shared_idle']), nlist([cid(c) for c in members(x)])) for n, x in blns.items()),
            '; '.join(pinned))
        cur['groups'].append('([%s], %s)' % ('; '.join(ops), obs))
        prev = rec
    iso = sorted(isolated)
    term = '[%s]' % ';\n'.join('(%s, %s,\n  [%s])' % (nlist(s['allowed']), nlist(iso), ';\n   '.join(s['groups'])) for s in segs)
    return term, stats


def case_file(path, traces, isolated_of):
    allstats = {}
    with open(path, 'w') as f:
        f.write(HDR)
        for k, (name, recs) in enumerate(traces):
            term, st = trace_terms(recs, isolated_of(name))
            allstats[name] = st
            f.write('Definition T%d : list (list nat * list nat * list (list bop * bobs)) := %s.\n' % (k, term))
            f.write('Definition R%d := Eval vm_compute in bcheck_segments 0 T%d.\n' % (k, k))
        f.write('Definition M := Eval vm_compute in [%s].\nPrint M.\n' % '; '.join('R%d' % k for k in range(len(traces))))
    return allstats
