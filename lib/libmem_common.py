"""Shared machinery of the C06 / C07 checks (libmem, pkg/resmgr/lib/memory).

One pipeline, two clause sets:
  * node sets + operation histories  ->  Go harness (public API only, harness/libmem) -> observations
  * oracle: every clause of C06 / C07 evaluated on the API's answers (this file), replay objects
  * correspondence: histories + observations printed as Coq terms, Libmem_Model evaluated by the
    kernel step by step, first differing observable reported
"""
import json, os, re, itertools
import vlib
from vlib import *

HARNESS = {'pkg/resmgr/lib/memory/zz_verif_libmem_test.go': '/verif/harness/libmem/libmem_test.go'}
PKG = './pkg/resmgr/lib/memory/'
CONSTS = [
    'pkg/resmgr/lib/memory/request.go:LM_:NoPriority,BestEffort,Burstable,Guaranteed,Preserved,Reservation',
    'pkg/resmgr/lib/memory/types.go:LM_:TypeDRAM,TypePMEM,TypeHBM,TypeMaskDRAM,TypeMaskPMEM,TypeMaskHBM,TypeMaskAll',
    'pkg/resmgr/lib/memory/nodes.go:LM_:MaxNodeID',
]

# signatures of the known findings (see the report / known-findings.json)
SIG_K1 = 'oversubscribed node set is not itself an in-use zone'
SIG_F2 = 'later result depends on zone entries left behind by GetOffer/Realloc'


def _libmem_gen():
    """translators of the libmem model: constants (consts2coq) and tables/switches (libmem2coq)"""
    rc1, out1, _ = sh([tool('consts2coq'), '-root', vlib.REPO, '-out', os.path.join(GEN, 'Gen_LibmemConsts.v')] + CONSTS)
    rc2, out2, _ = sh([tool('libmem2coq'), '-root', vlib.REPO, '-out', os.path.join(GEN, 'Gen_LibmemTabs.v')])
    return ('libmem2coq', rc1 == 0 and rc2 == 0, (out1 + out2).strip())


def register_translators():
    if not any(getattr(f, '__name__', '') == '_libmem_gen' for f in vlib.EXTRA_TRANSLATORS):
        vlib.EXTRA_TRANSLATORS.append(_libmem_gen)


def gen_consts():
    src = open(os.path.join(GEN, 'Gen_LibmemConsts.v')).read()
    c = {m.group(1): int(m.group(2)) for m in re.finditer(r'Definition LM_(\w+) : Z := \((-?\d+)\)%Z', src)}
    tabs = open(os.path.join(GEN, 'Gen_LibmemTabs.v')).read()
    for m in re.finditer(r'Definition (LM_fix_\w+) : bool := (true|false)', tabs):
        c[m.group(1)] = m.group(2) == 'true'
    return c


# ---------------------------------------------------------------- node sets

def _sym(n, rng, vals):
    d = [[10] * n for _ in range(n)]
    for i in range(n):
        for j in range(i + 1, n):
            d[i][j] = d[j][i] = rng.choice(vals)
    return d


def random_nodes(rng):
    n = rng.choice([3, 3, 4, 4, 5, 6])
    kind = rng.choice(['dram', 'dram', 'dram+pmem', 'dram+pmem', 'all3', 'mixed'])
    types = []
    for i in range(n):
        if kind == 'dram':
            t = 0
        elif kind == 'dram+pmem':
            t = 0 if i < (n + 1) // 2 else 1
        elif kind == 'all3':
            t = [0, 0, 1, 2, 1, 2][i] if n > 3 else [0, 1, 2][i]
        else:
            t = rng.choice([0, 0, 1, 2])
        types.append(t)
    capv = rng.choice([[10], [4, 8], [8, 16, 32], [10, 20], [5, 7, 12], [16]])
    nodes = []
    vals = rng.choice([[21], [11, 21], [11, 17, 21, 28], [12, 14, 20, 31, 40]])
    d = _sym(n, rng, vals)
    if rng.random() < 0.35:                       # asymmetric matrix
        for i in range(n):
            for j in range(n):
                if i != j and rng.random() < 0.4:
                    d[i][j] = rng.choice(vals)
    for i in range(n):
        t = types[i]
        cap = rng.choice(capv)
        if rng.random() < 0.06:
            cap = 0                                 # memory-less node
        normal = True
        if t != 0 and rng.random() < 0.55:
            normal = False                          # movable-only PMEM/HBM
        if t == 0 and rng.random() < 0.08:
            normal = False                          # movable-only DRAM
        cpus = [2 * i, 2 * i + 1] if (t == 0 and rng.random() < 0.9) or rng.random() < 0.15 else []
        nodes.append({'type': t, 'cap': cap, 'normal': normal, 'cpus': cpus, 'dist': d[i]})
    return nodes


def _layout(types, caps, movable, dist):
    return [{'type': t, 'cap': c, 'normal': not m, 'cpus': [2 * i, 2 * i + 1] if t == 0 else [], 'dist': d}
            for i, (t, c, m, d) in enumerate(zip(types, caps, movable, dist))]


D8 = [[10, 21, 11, 21, 17, 28, 28, 28], [21, 10, 21, 11, 28, 28, 17, 28], [11, 21, 10, 21, 28, 17, 28, 28],
      [21, 11, 21, 10, 28, 28, 28, 17], [17, 28, 28, 28, 10, 28, 28, 28], [28, 28, 17, 28, 28, 10, 28, 28],
      [28, 17, 28, 28, 28, 28, 10, 28], [28, 28, 28, 17, 28, 28, 28, 10]]
D12 = [[10, 11, 21, 21, 17, 27, 28, 28, 14, 15, 23, 23], [11, 10, 21, 21, 27, 17, 28, 28, 15, 14, 23, 23],
       [21, 21, 10, 11, 28, 28, 17, 27, 23, 23, 14, 15], [21, 21, 11, 10, 28, 28, 27, 17, 23, 23, 15, 14],
       [17, 27, 28, 28, 10, 28, 28, 28, 16, 26, 26, 26], [27, 17, 28, 28, 28, 10, 28, 28, 29, 11, 29, 29],
       [28, 28, 17, 27, 28, 28, 10, 28, 29, 29, 11, 29], [28, 28, 27, 17, 28, 28, 28, 10, 29, 29, 29, 11],
       [14, 15, 23, 23, 16, 29, 29, 29, 10, 12, 12, 12], [15, 14, 23, 23, 26, 11, 29, 29, 12, 10, 12, 12],
       [23, 23, 14, 15, 26, 29, 11, 29, 12, 12, 10, 12], [23, 23, 15, 14, 26, 29, 29, 11, 12, 12, 12, 10]]

# the repository's own sample layouts (allocator_test.go)
REPO_LAYOUTS = {
    'repo-4dram+4pmem': _layout([0] * 4 + [1] * 4, [4] * 8, [False] * 8, D8),                 # TestAllocate / TestRealloc
    'repo-4dram+4pmem-movable': _layout([0] * 4 + [1] * 4, [4] * 8, [False] * 4 + [True] * 4, D8),  # TestEnsureNormalMemory
    'repo-4dram+4pmem+4hbm': _layout([0] * 4 + [1] * 4 + [2] * 4, [4] * 12, [False] * 12, D12),       # TestExpand
    'repo-2dram': _layout([0, 0], [4, 4], [False, False], [[10, 21], [21, 10]]),                 # TestOffer
}

# two 3-node layouts of the bounded-exhaustive enumeration
EXH_LAYOUTS = {
    'exh-3dram': _layout([0, 0, 0], [10, 10, 10], [False] * 3, [[10, 21, 31], [21, 10, 21], [31, 21, 10]]),
    'exh-2dram+pmem': _layout([0, 0, 1], [8, 8, 16], [False, False, True], [[10, 21, 17], [21, 10, 28], [17, 28, 10]]),
}


def k1_scenario():
    nodes = _layout([0, 0, 0], [10, 10, 10], [False] * 3, [[10, 21, 31], [21, 10, 21], [31, 21, 10]])
    ops = [{'op': 'alloc', 'id': 1, 'size': 20, 'aff': 3, 'prio': 32767},
           {'op': 'alloc', 'id': 2, 'size': 20, 'aff': 6, 'prio': 32767}]
    return {'name': 'K1-witness', 'nodes': nodes, 'ops': ops}


def fixed_scenarios():
    """the hand-written histories of the defects F1/F2/K1 (kept so that they are exercised in every run)"""
    n1 = _layout([0], [10], [False], [[10]])
    n5 = _layout([0] * 5, [10] * 5, [False] * 5, [[10 if i == j else 20 + (i - j) ** 2 for j in range(5)] for i in range(5)])
    n3 = k1_scenario()['nodes']
    R = 32767
    return [
        k1_scenario(),
        {'name': 'F1-offer-allocate-commit', 'nodes': n1, 'ops': [
            {'op': 'offer', 'id': 1, 'size': 6, 'aff': 1, 'prio': 1024}, {'op': 'alloc', 'id': 2, 'size': 6, 'aff': 1, 'prio': 1024},
            {'op': 'commit', 'id': 1, 'offer': 0}]},
        {'name': 'F2-offer-leaves-zone', 'nodes': n3, 'twin': 'offers', 'ops': [
            {'op': 'alloc', 'id': 1, 'size': 20, 'aff': 3, 'prio': R}, {'op': 'offer', 'id': 9, 'size': 1, 'aff': 7, 'prio': 1024},
            {'op': 'alloc', 'id': 2, 'size': 20, 'aff': 6, 'prio': R}]},
        {'name': 'reservations-collide', 'nodes': n3, 'ops': [
            {'op': 'alloc', 'id': 1, 'size': 3, 'aff': 1, 'prio': R}, {'op': 'alloc', 'id': 2, 'size': 8, 'aff': 1, 'prio': R},
            {'op': 'alloc', 'id': 3, 'size': 2, 'aff': 1, 'prio': 32766}, {'op': 'alloc', 'id': 4, 'size': 8, 'aff': 1, 'prio': R}]},
        {'name': 'F2-realloc-leaves-zone', 'nodes': n5, 'twin': 'all', 'ops': [
            {'op': 'alloc', 'id': 1, 'size': 20, 'aff': 3, 'prio': R}, {'op': 'alloc', 'id': 9, 'size': 1, 'aff': 7, 'prio': 1024},
            {'op': 'realloc', 'id': 9, 'nodes': 8, 'types': 0}, {'op': 'alloc', 'id': 1, 'size': 1, 'aff': 1, 'prio': 1024},
            {'op': 'alloc', 'id': 2, 'size': 20, 'aff': 6, 'prio': R}]},
    ]


# ---------------------------------------------------------------- running the harness

def run_harness(chk, scenarios, tag, timeout=600):
    inp, outp = 'libmem_in_%s.json' % tag, 'libmem_out_%s.jsonl' % tag
    with open(os.path.join(chk.work, inp), 'w') as f:
        json.dump(scenarios, f)
    rc, out, dt = go_test(PKG, HARNESS, '^TestVerifLibmem$', timeout=timeout,
                          env={'VERIF_OUT': chk.work, 'VERIF_LIBMEM_IN': inp, 'VERIF_LIBMEM_OUT': outp})
    p = os.path.join(chk.work, outp)
    if rc != 0 or not os.path.exists(p):
        return None, out
    res = [json.loads(l) for l in open(p)]
    internal = [l for l in out.splitlines() if 'internal error' in l]
    # a history whose operation did not return ends the harness run: the rest was not executed
    for k in range(len(res), len(scenarios)):
        res.append({'name': scenarios[k].get('name', '?'), 'error': 'not-run', 'ops': [], 'steps': []})
    return res, internal


# ---------------------------------------------------------------- oracle

KIND = {'alloc': 'allocate', 'realloc': 'realloc', 'release': 'release', 'commit': 'commit'}


def zone_type_of(nodes, mask):
    t = 0
    for i, n in enumerate(nodes):
        if mask >> i & 1:
            t |= 1 << n['type']
    return t


class Oracle:
    """Evaluates the clauses of C06 and C07 on the observations of one history.
    Findings: list of (property, signature, text, step index)."""

    def __init__(self, sc, res, consts):
        self.sc, self.res, self.c = sc, res, consts
        self.found = []
        self.stats = dict(ops=0, ok=0, allocs=0, alloc_moves=0, alloc_nomem=0, moves=0, stale_commits=0, failed=0,
                          offers=0, commits_ok=0, reallocs_ok=0, reallocs_noop=0, releases_ok=0, twin_steps=0, twin_diverged=0)

    def add(self, prop, sig, text, i):
        self.found.append((prop, sig, '%s: step %d: %s' % (self.res['name'], i, text), i))

    @staticmethod
    def assigned(st):
        return {a[0]: a[1] for a in st['assigned']}

    @staticmethod
    def probes(st):
        return {p[0]: (p[1], p[2], p[3]) for p in st['probes']}

    def same_state(self, pre, post, nvalid):
        """None or a description of the first observable that differs between two observations"""
        if pre is None:
            pre = {'assigned': [], 'listing': [], 'valid': [], 'probes': None}
        if [a[:2] for a in pre['assigned']] != [a[:2] for a in post['assigned']]:
            return 'assignments %s -> %s' % ([a[:2] for a in pre['assigned']], [a[:2] for a in post['assigned']])
        if pre['listing'] != post['listing']:
            return 'request listing %s -> %s' % (pre['listing'], post['listing'])
        if pre['valid'][:nvalid] != post['valid'][:nvalid]:
            return 'offer validity %s -> %s' % (pre['valid'][:nvalid], post['valid'][:nvalid])
        if pre['probes'] is not None:
            a, b = self.probes(pre), self.probes(post)
            for m in a:
                if m in b and a[m] != b[m]:
                    return 'usage/capacity/free of node set %d: %s -> %s' % (m, a[m], b[m])
        else:
            for p in post['probes']:
                if p[1] != 0:
                    return 'usage of node set %d is %d in an empty allocator' % (p[0], p[1])
        return None

    def run(self):
        res, nodes = self.res, self.sc['nodes']
        ops, steps = res['ops'], res['steps']
        RES = self.c['Reservation']
        hasmem, normal = res['hasmem'], res['normal']
        info = {}          # live id -> dict(size, prio, strict, asked)
        offers = {}        # offer op index -> dict(op, changes=[kinds])
        tainted = None     # signature of a stale commit that went through earlier (F1)
        pre = None
        self.dirty = []    # per step: zone entries may have been left behind before this op
        dirty = False
        for i, (op, st) in enumerate(zip(ops, steps)):
            self.dirty.append(dirty)
            kind = op['op']
            self.stats['ops'] += 1
            if st.get('skipped'):
                if st['skipped'] == 'valid-offer-for-live-id':
                    ch = sorted(set(offers[op.get('offer', 0)]['changes']))
                    self.add('C06', 'offer-still-valid-after:' + '+'.join(ch),
                             'offer %d for id %d is still valid although %s succeeded since (commit not executed)' % (op.get('offer', 0), op['id'], ch), i)
                continue
            prea = self.assigned(pre) if pre else {}
            posta = self.assigned(st)
            nvalid = len(pre['valid']) if pre else 0
            stale_sig = None
            if st['ok']:
                self.stats['ok'] += 1
            else:
                self.stats['failed'] += 1
            # ------------------------------------------------ C06
            if not st['ok'] or kind == 'offer':
                d = self.same_state(pre, st, nvalid)
                if d:
                    sig = 'offer-changed-state' if kind == 'offer' and st['ok'] else 'failed-op-changed-state'
                    self.add('C06', sig, '%s %s changed %s' % ('failed' if not st['ok'] else 'successful', kind, d), i)
            if kind == 'offer':
                self.stats['allocs'] += 1
                if st['ok']:
                    self.stats['offers'] += 1
                    offers[i] = {'op': op, 'changes': [], 'types': None}
                    if st['upd']:
                        self.stats['alloc_moves'] += 1
                elif st['errkind'] == 'nomem':
                    self.stats['alloc_nomem'] += 1
            if kind == 'alloc':
                self.stats['allocs'] += 1
                if st['ok'] and st['upd']:
                    self.stats['alloc_moves'] += 1
                if not st['ok'] and st['errkind'] == 'nomem':
                    self.stats['alloc_nomem'] += 1
            if kind == 'commit':
                o = offers.get(op.get('offer', 0))
                ch = sorted(set(o['changes'])) if o else []
                if st['ok'] and ch:
                    stale_sig = 'stale-offer-committed-after:' + '+'.join(ch)
                    self.stats['stale_commits'] += 1
                    self.add('C06', stale_sig, 'offer %d committed although %s succeeded since it was taken' % (op.get('offer', 0), ch), i)
                    tainted = tainted or stale_sig
                if not st['ok'] and o is not None and not ch:
                    self.add('C06', 'fresh-offer-refused', 'offer %d refused although nothing changed since it was taken' % op.get('offer', 0), i)
                if st['ok']:
                    self.stats['commits_ok'] += 1
            if st['ok'] and kind in KIND:
                # every offer taken before a successful state-changing op must now be invalid
                for ix, v in st['valid']:
                    if v and ix < i:
                        k2 = KIND[kind]
                        self.add('C06', 'offer-still-valid-after:' + k2, 'offer %d still valid after successful %s' % (ix, k2), i)
                        break
                for o in offers.values():
                    o['changes'].append(KIND[kind])
            if kind == 'release' and st['ok']:
                self.stats['releases_ok'] += 1
                rid = op['id']
                exp = dict(prea)
                z = exp.pop(rid, None)
                if posta != exp:
                    self.add('C06', 'release-changed-others', 'release of %d: assignments %s -> %s' % (rid, prea, posta), i)
                if [r for r in pre['listing'] if r['id'] != rid] != st['listing']:
                    self.add('C06', 'release-changed-others', 'release of %d: listing %s -> %s' % (rid, pre['listing'], st['listing']), i)
                a, b = self.probes(pre), self.probes(st)
                size = info.get(rid, {}).get('size', 0)
                for m in a:
                    if m in b and z is not None:
                        exp_u = a[m][0] - (size if z & ~(m & hasmem) == 0 else 0)
                        if b[m][0] != exp_u or b[m][1] != a[m][1]:
                            self.add('C06', 'release-changed-others', 'release of %d (size %d, zone %d): usage of node set %d: %d -> %d' % (rid, size, z, m, a[m][0], b[m][0]), i)
                            break
                info.pop(rid, None)
            # ------------------------------------------------ C07
            if st['ok'] and kind in ('alloc', 'realloc', 'commit'):
                rid = op['id']
                f1 = stale_sig or tainted

                def viol(sig, text):
                    self.add('C07', f1 if f1 else sig, text + (' [after a stale commit went through]' if f1 else ''), i)
                # fit: every node set with allocations confined to it
                inuse = set(posta.values())
                for m, u, cap, free in st['probes']:
                    if free < 0:
                        if m in inuse or (m & hasmem) in inuse:
                            viol('in-use zone oversubscribed', 'in-use zone %d holds %d of %d' % (m, u, cap))
                        else:
                            viol(SIG_K1, 'node set %d (not an in-use zone) holds %d of %d' % (m, u, cap))
                        break
                # bookkeeping of request attributes
                if kind == 'alloc' or kind == 'commit':
                    src = op if kind == 'alloc' else offers[op.get('offer', 0)]['op']
                    lst = [r for r in st['listing'] if r['id'] == rid]
                    info[rid] = {'size': src.get('size', 0), 'prio': src.get('prio', 0), 'strict': src.get('strict', False),
                                 'asked': lst[0]['types'] if lst else 0}
                if kind == 'realloc' and rid in info:
                    t = op.get('types', 0)
                    if prea.get(rid) != posta.get(rid):
                        info[rid]['asked'] |= t if t else zone_type_of(nodes, op.get('nodes', 0))
                        self.stats['reallocs_ok'] += 1
                    else:
                        self.stats['reallocs_noop'] += 1
                # returned zone, normal memory
                if st['zone'] != posta.get(rid):
                    viol('returned-zone-differs', '%s returned zone %d, AssignedZone(%d) = %s' % (kind, st['zone'], rid, posta.get(rid)))
                changed = {x: z for x, z in posta.items() if prea.get(x) != z}
                for x, z in changed.items():
                    if z & normal == 0:
                        viol('zone-without-normal-memory', 'id %d assigned zone %d without a normal-memory node (normal = %d)' % (x, z, normal))
                # strict types
                for x, z, zt in st['assigned']:
                    q = info.get(x)
                    if q and q['strict'] and zt & ~q['asked']:
                        viol('strict-request-got-other-types', 'strict id %d (types %d) assigned zone %d of types %d' % (x, q['asked'], z, zt))
                # monotone moves, reservations, realloc
                for x, z in prea.items():
                    if x in posta and z & ~posta[x]:
                        viol('moved-to-non-superset', 'id %d moved from %d to %d' % (x, z, posta[x]))
                    if x in posta and posta[x] != z and info.get(x, {}).get('prio') == RES and not (kind == 'realloc' and x == rid):
                        viol('reservation-moved', 'reservation %d moved from %d to %d' % (x, z, posta[x]))
                    if x not in posta:
                        viol('allocation-vanished', 'id %d lost its assignment' % x)
                if kind == 'realloc' and prea.get(rid, 0) & ~st['zone']:
                    viol('realloc-removed-nodes', 'realloc of %d: %d -> %d' % (rid, prea.get(rid), st['zone']))
                # exact updates
                exp = sorted([x, z] for x, z in posta.items() if x != rid and x in prea and prea[x] != z)
                if exp != st['upd']:
                    viol('updates-inexact', '%s of %d reported updates %s, assignments changed: %s' % (kind, rid, st['upd'], exp))
                self.stats['moves'] += len(exp)
                extra = [x for x in posta if x not in prea and x != rid]
                if extra:
                    viol('unexpected-new-assignment', 'ids %s appeared' % extra)
            # zone entries left behind (F2): GetOffer and Realloc do not clean up, everything else does
            if kind in ('alloc',) or (st['ok'] and kind in ('commit', 'release')):
                dirty = False
            if kind in ('offer', 'realloc'):
                dirty = not (self.c.get('LM_fix_F2_getoffer') if kind == 'offer' else self.c.get('LM_fix_F2_realloc')) or dirty
            pre = st
        self.twin(tainted)
        return self.found

    def twin(self, tainted):
        res = self.res
        if 'twin_steps' not in res or res.get('twin_steps') is None:
            return
        steps = res['steps']
        tsteps = [s for s in res['twin_steps']]
        tdirty, td = {}, False
        for ts in tsteps:
            tdirty[ts['i']] = td
            k = ts['op']['op']
            if k == 'alloc' or (ts['ok'] and k in ('release', 'commit')):
                td = False
            if k in ('realloc', 'offer'):
                td = not (self.c.get('LM_fix_F2_realloc') if k == 'realloc' else self.c.get('LM_fix_F2_getoffer')) or td
        for ts in tsteps:
            i = ts['i']
            if res['twin_cut'] >= 0 and i >= res['twin_cut']:
                break
            st = steps[i]
            self.stats['twin_steps'] += 1
            d = None
            if st['ok'] != ts['ok']:
                d = 'outcome %s vs %s' % ('ok' if st['ok'] else 'error', 'ok' if ts['ok'] else 'error')
            elif st['ok'] and (st['zone'] != ts['zone'] or st['upd'] != ts['upd']):
                d = 'result (%d, %s) vs (%d, %s)' % (st['zone'], st['upd'], ts['zone'], ts['upd'])
            elif [a[:2] for a in st['assigned']] != [a[:2] for a in ts['assigned']]:
                d = 'assignments %s vs %s' % ([a[:2] for a in st['assigned']], [a[:2] for a in ts['assigned']])
            elif st['listing'] != ts['listing']:
                d = 'listing %s vs %s' % (st['listing'], ts['listing'])
            elif st['probes'] != ts['probes']:
                d = 'usage/capacity of some node set'
            if d:
                self.stats['twin_diverged'] += 1
                conv = st['op']['op'] == 'commit'
                what = ('commit of a fresh offer vs direct Allocate' if conv else 'operation %s' % st['op']['op'])
                if self.dirty[i] or tdirty.get(i) or (conv and self.dirty[st['op'].get('offer', 0)]):
                    sig = SIG_F2
                else:
                    sig = 'commit-differs-from-allocate' if conv else 'erased-noop-operations-change-later-result'
                self.add('C06', sig, 'with failed operations and uncommitted offers erased (fresh offer+commit replaced by Allocate): %s: %s' % (what, d), i)
                break


# ---------------------------------------------------------------- Coq case printing

def zl(xs):
    return '[' + ';'.join(zlit(int(x)) for x in xs) + ']'


def coq_nodes(nodes):
    return '[' + ';\n   '.join('znode %d %s %s %s' % (n['type'], zlit(n['cap']), coq_bool(n['normal']), zl(n['dist'])) for n in nodes) + ']'


def coq_req(op, age):
    return '(zreq %d %s %d %d %s %s %d)' % (op['id'], zlit(op.get('size', 0)), op.get('aff', 0), op.get('types', 0),
                                          coq_bool(op.get('strict', False)), zlit(op.get('prio', 0)), age)


def coq_op(op, i, ages):
    k = op['op']
    if k == 'alloc':
        return 'zalloc ' + coq_req(op, ages.get(i, i))
    if k == 'offer':
        return 'zoffer ' + coq_req(op, ages.get(i, i))
    if k == 'commit':
        return 'zcommit %d' % op.get('offer', 0)
    if k == 'realloc':
        return 'zrealloc %d %d %d' % (op['id'], op.get('nodes', 0), op.get('types', 0))
    if k == 'release':
        return 'zrelease %d' % op['id']
    raise ValueError(k)


def coq_obs(st, offer_pos=None):
    inuse = sorted({a[1] for a in st['assigned']})
    want = set(inuse) | {a | b for a in inuse for b in inuse}
    pr = [p for p in st['probes'] if p[0] in want]
    if st['probes']:
        pr.append(st['probes'][-1])
    valid = st['valid'] if offer_pos is None else []
    return 'zobs %s %s %d [%s] [%s] [%s] [%s] [%s]' % (
        coq_bool(bool(st.get('skipped'))), coq_bool(st['ok']), st['zone'],
        ';'.join('(%d,%d)' % (a, b) for a, b in st['upd']),
        ';'.join('(%d,%d)' % (a[0], a[1]) for a in st['assigned']),
        ';'.join('(%d,%d,%d)' % (r['id'], r['types'], r['zone']) for r in st['listing']),
        ';'.join('(%d,%s)' % (ix, coq_bool(v)) for ix, v in valid),
        ';'.join('(%d,%s,%s)' % (p[0], zlit(p[1]), zlit(p[2])) for p in pr))


def coq_case(name, nodes, ops, steps, ages=None):
    ages = ages or {}
    return '(* %s *)\n  (%s,\n   [%s],\n   [%s])' % (
        name, coq_nodes(nodes),
        ';\n    '.join(coq_op(op, i, ages) for i, op in enumerate(ops)),
        ';\n    '.join(coq_obs(st) for st in steps))


def twin_case(sc, res):
    """the twin run as a history of its own (request objects of converted offers are born earlier:
    their age is the position of the original offer)"""
    tops, tmap = res.get('twin_ops') or [], res.get('twin_map') or []
    ops, ages, pos_of, orig2new = [], {}, {}, {}
    for pos, op in enumerate(tops):
        if op['op'] == 'born':
            continue
        pos_of[pos] = len(ops)
        orig2new[tmap[pos]] = len(ops)
        o = dict(op)
        ages[len(ops)] = (op['born'] - 1) if (op['op'] == 'alloc' and op.get('born')) else pos
        if op['op'] == 'commit':
            if op.get('offer', 0) not in orig2new:
                return None
            o['offer'] = orig2new[op.get('offer', 0)]
        ops.append(o)
    steps = res.get('twin_steps') or []
    if len(steps) != len(ops):
        return None
    steps = [dict(s, valid=[[orig2new[ix], v] for ix, v in s['valid'] if ix in orig2new]) for s in steps]
    return coq_case(res['name'] + '/twin', sc['nodes'], ops, steps, ages)


HDR = ('From Coq Require Import ZArith NArith List Bool. Import ListNotations.\n'
       'From NV Require Import Libmem_Model.\nOpen Scope Z_scope.\n')


def write_case_files(chk, pairs, tag, per=12, twins=False):
    """pairs: [(scenario, result)]; twins: print the twin runs instead of the original ones.
    Returns [(label, path, [names])]"""
    cases = []
    for sc, res in pairs:
        if res.get('error'):
            continue
        if not twins:
            cases.append((res['name'], coq_case(res['name'], sc['nodes'], res['ops'], res['steps'])))
        elif res.get('twin_steps'):
            t = twin_case(sc, res)
            if t:
                cases.append((res['name'] + '/twin', t))
    files = []
    for k in range(0, len(cases), per):
        ch = cases[k:k + per]
        p = os.path.join(chk.work, 'cases_%s_%03d.v' % (tag, k // per))
        with open(p, 'w') as f:
            f.write(HDR)
            f.write('Definition cs : list case := [\n' + ';\n'.join(c for _, c in ch) + '].\n')
            f.write('Definition M := Eval vm_compute in mismatches cs.\nPrint M.\n')
        files.append(('%s[%d..%d]' % (tag, k, k + len(ch) - 1), p, [n for n, _ in ch]))
    return files


CODES = {1: 'ok/error outcome', 2: 'returned zone', 3: 'returned updates', 4: 'assignments', 5: 'request listing (types/zone/age order)',
         6: 'offer validity (version)', 7: 'zone usage', 8: 'zone capacity', 9: 'model out of fuel', 10: 'state outside the model (valid offer for a live id)'}


def eval_case_files(chk, files):
    """returns (number of histories compared, number cut because an order was not forced,
    number of operations in which the model entered overcommit resolution)"""
    results = coq_eval_many([p for _, p, _ in files])
    n, unforced, noc = 0, 0, 0
    for (label, p, names), (rc, out) in zip(files, results):
        body = parse_coq_print(out, 'M')
        if rc != 0 or body is None:
            chk.corr_broken(label, 'coqc failed on %s:\n%s' % (p, out[-1500:]))
            continue
        m = re.match(r'^\(\s*(\[.*\])\s*,\s*(\d+)(?:%nat)?\s*,\s*(\d+)(?:%nat)?\s*\)$', body.replace('\n', ' '), re.S)
        if not m:
            chk.corr_broken(label, 'cannot parse %r' % body[:300])
            continue
        n += len(names)
        unforced += int(m.group(2))
        noc += int(m.group(3))
        for t in re.finditer(r'\((\d+)(?:%nat)?,\s*(\d+)(?:%nat)?,\s*(\d+)(?:%N)?\)', m.group(1)):
            ci, oi, code = int(t.group(1)), int(t.group(2)), int(t.group(3))
            chk.corr_broken('%s op %d' % (names[ci], oi),
                            'model and implementation differ in history %s at operation %d: %s (%s)' % (names[ci], oi, CODES.get(code, code), p))
    return n, unforced, noc


# ---------------------------------------------------------------- bounded-exhaustive enumeration (thorough tier)

def exh_alphabet(layout):
    B, G, R, BE = 1024, 16384, 32767, 0
    if layout == 'exh-3dram':
        al = [
            {'op': 'alloc', 'id': 1, 'size': 6, 'aff': 1, 'prio': B}, {'op': 'alloc', 'id': 2, 'size': 6, 'aff': 1, 'prio': G},
            {'op': 'alloc', 'id': 3, 'size': 8, 'aff': 2, 'prio': BE}, {'op': 'alloc', 'id': 1, 'size': 12, 'aff': 3, 'prio': R},
            {'op': 'alloc', 'id': 2, 'size': 12, 'aff': 6, 'prio': R}, {'op': 'alloc', 'id': 3, 'size': 25, 'aff': 4, 'prio': B},
            {'op': 'alloc', 'id': 2, 'size': 5, 'aff': 1, 'prio': B, 'types': 1, 'strict': True},
            {'op': 'offer', 'id': 1, 'size': 6, 'aff': 1, 'prio': B}, {'op': 'offer', 'id': 2, 'size': 6, 'aff': 1, 'prio': G},
            {'op': 'offer', 'id': 3, 'size': 1, 'aff': 7, 'prio': B}, {'op': 'offer', 'id': 2, 'size': 12, 'aff': 6, 'prio': R},
        ]
    else:
        al = [
            {'op': 'alloc', 'id': 1, 'size': 5, 'aff': 1, 'prio': B}, {'op': 'alloc', 'id': 2, 'size': 5, 'aff': 1, 'prio': G},
            {'op': 'alloc', 'id': 3, 'size': 7, 'aff': 2, 'prio': BE}, {'op': 'alloc', 'id': 1, 'size': 10, 'aff': 3, 'prio': R},
            {'op': 'alloc', 'id': 2, 'size': 9, 'aff': 4, 'prio': B, 'types': 2}, {'op': 'alloc', 'id': 3, 'size': 20, 'aff': 1, 'prio': B, 'types': 3},
            {'op': 'alloc', 'id': 2, 'size': 6, 'aff': 1, 'prio': B, 'types': 2, 'strict': True},
            {'op': 'offer', 'id': 1, 'size': 5, 'aff': 1, 'prio': B}, {'op': 'offer', 'id': 2, 'size': 5, 'aff': 1, 'prio': G},
            {'op': 'offer', 'id': 3, 'size': 1, 'aff': 7, 'prio': B}, {'op': 'offer', 'id': 2, 'size': 12, 'aff': 2, 'prio': R, 'types': 3},
        ]
    al += [{'op': 'commit', 'offer': k} for k in (0, 1, 2)]
    al += [{'op': 'realloc', 'id': 1, 'nodes': 2, 'types': 0}, {'op': 'realloc', 'id': 2, 'nodes': 4, 'types': 0},
           {'op': 'realloc', 'id': 1, 'nodes': 0, 'types': 1}, {'op': 'realloc', 'id': 3, 'nodes': 1, 'types': 0}]
    al += [{'op': 'release', 'id': k} for k in (1, 2, 3)]
    return al


def exh_scenarios(layout, maxlen, small=None):
    """all op sequences of length 1..maxlen over the alphabet (commit k only where op k is an offer)"""
    al = exh_alphabet(layout)
    nodes = EXH_LAYOUTS[layout]
    out = []
    for ln in range(1, maxlen + 1):
        letters = al if (small is None or ln < maxlen) else [al[i] for i in small]
        for seq in itertools.product(range(len(letters)), repeat=ln):
            ops, ok = [], True
            for pos, a in enumerate(seq):
                op = dict(letters[a])
                if op['op'] == 'commit':
                    k = op.get('offer', 0)
                    if k >= pos or ops[k]['op'] != 'offer':
                        ok = False
                        break
                    op['id'] = ops[k]['id']
                ops.append(op)
            if ok:
                out.append({'name': '%s/%s' % (layout, '.'.join(map(str, seq))), 'nodes': nodes, 'ops': ops})
    return out


# ---------------------------------------------------------------- the check proper (C06 and C07 share everything but the clause set)

ASSUMPTIONS = [
    "model scope: one Request object per API call; capacities/sizes sum below 2^63 (arithmetic on Z); node ids < 63; priorities within 0..32767; "
    "built-in overcommit handler (custom ExpandZone is covered by the theorems as an arbitrary function ex, custom HandleOvercommit is not modelled)",
    "modelled not verified: Go map iteration order (every consumer sorts or is order-insensitive; where ZonesByUsersSubzonesFirst does not force an order the model flags the history and the comparison stops there -- count reported), slices.SortFunc returns the sorted permutation for strict total orders, time.Now() strictly increasing per created request (enforced by the harness)",
    "correspondence: Go harness harness/libmem (public API only, go test -overlay), trace->Coq printer lib/libmem_common.py, translators tools/consts2coq + tools/libmem2coq (priorities, type masks, allowedPrios/expandTypes ladders, shrink sort chain, F1/F2 switches by call-graph reachability)",
]


def explicit(sc, res):
    """replayable form of a scenario: node set + the operations as executed"""
    return {'name': res['name'], 'nodes': sc['nodes'], 'ops': res['ops'], 'twin': sc.get('twin', 'coin'),
            'twin_seed': (sc.get('gen') or {}).get('seed', 0) + sc.get('twin_seed', 0)}


def build_scenarios(tier, rng):
    scs = fixed_scenarios()
    nrand = 260 if tier == 'quick' else 5000
    for i in range(nrand):
        scs.append({'name': 'rnd%d' % i, 'nodes': random_nodes(rng),
                    'gen': {'seed': rng.randrange(1 << 31), 'n': rng.choice([12, 20, 30]), 'profile': ''}})
    for name, nodes in REPO_LAYOUTS.items():
        for j in range(6 if tier == 'quick' else 60):
            scs.append({'name': '%s-%d' % (name, j), 'nodes': nodes,
                        'gen': {'seed': rng.randrange(1 << 31), 'n': 25, 'profile': ''}})
    return scs


def run_check(prop, tier, seed, replay=None):
    register_translators()
    chk = Check(prop, tier, seed)
    chk.assumptions += ASSUMPTIONS
    chk.prove(prop + '_Props')
    consts = gen_consts()
    rng = chk.rng

    if replay:
        obj = json.load(open(replay))
        sc = obj.get('replay') or obj
        scs = [sc] if 'nodes' in sc else fixed_scenarios()
    else:
        scs = build_scenarios(tier, rng)
    res, extra = run_harness(chk, scs, 'main', timeout=300 if tier == 'quick' else 1200)
    if res is None:
        chk.corr_broken('harness', 'go test failed:\n' + extra[-3000:])
        return chk.finish(rule='harness failed')
    for line in extra[:3]:
        chk.violation('internal-state-inconsistent', 'validateState reported: ' + line.strip(), {'log': line})

    pairs = list(zip(scs, res))
    exh_pairs = []
    if tier == 'thorough' and not replay:
        # bounded-exhaustive: every op sequence up to length 3 over the full alphabets of the two
        # 3-node layouts, and up to length 4 over a 15-letter sub-alphabet
        small = [0, 1, 2, 3, 4, 7, 8, 9, 11, 12, 14, 15, 16, 18, 19]
        for layout in EXH_LAYOUTS:
            e = exh_scenarios(layout, 3) + [s for s in exh_scenarios(layout, 4, small) if s['name'].count('.') == 3]
            for k, s in enumerate(e):
                s['twin'] = 'coin'
                s['twin_seed'] = k
            r2, ex2 = run_harness(chk, e, 'exh_' + layout, timeout=1500)
            if r2 is None:
                chk.corr_broken('harness', 'go test (exhaustive %s) failed:\n%s' % (layout, ex2[-2000:]))
                continue
            exh_pairs += list(zip(e, r2))

    # ---------------- oracle
    tot, distinct, nontrivial = {}, set(), 0
    for sc, r in pairs + exh_pairs:
        if r.get('error') == 'not-run':
            continue
        if r.get('error'):
            sig = 'operation-did-not-terminate' if r['error'].startswith('timeout') else 'harness-error:' + r['error'].split(':')[0]
            chk.violation(sig, '%s: %s (last operation: %s)' % (r['name'], r['error'], (r['ops'] or [None])[-1]), explicit(sc, r))
            continue
        o = Oracle(sc, r, consts)
        for p, sig, text, i in o.run():
            if p == prop:
                rp = explicit(sc, r)
                rp['ops'] = rp['ops'][:i + 1]
                chk.violation(sig, text, rp)
        for k, v in o.stats.items():
            tot[k] = tot.get(k, 0) + v
        key = json.dumps([sc['nodes'], r['ops']], sort_keys=True)
        if key not in distinct:
            distinct.add(key)
            if o.stats['moves'] > 0 or o.stats['alloc_moves'] > 0:
                nontrivial += 1

    # ---------------- correspondence
    files = write_case_files(chk, pairs, 'main', per=10)
    nh, unforced, noc = eval_case_files(chk, files)
    tfiles = write_case_files(chk, pairs, 'twin', per=14, twins=True)
    nh2, unf2, _ = eval_case_files(chk, tfiles)
    nh3 = 0
    if exh_pairs:
        efiles = write_case_files(chk, exh_pairs, 'exh', per=400)
        nh3, unf3, _ = eval_case_files(chk, efiles)
        unforced += unf3
    alloc_like = tot.get('allocs', 0) + tot.get('reallocs_ok', 0)
    n_exh_ops = sum(len(r['ops']) for _, r in exh_pairs if not r.get('error'))
    n_main_allocs = sum(1 for _, r in pairs if not r.get('error') for op in r['ops'] if op['op'] in ('alloc', 'offer'))
    for sc, r in pairs[:40]:
        if not r.get('error') and any(st['upd'] for st in r['steps']):
            chk.samples.append({'name': r['name'], 'nodes': sc['nodes'], 'ops': r['ops'][:12],
                                'results': [[st['ok'], st['zone'], st['upd']] for st in r['steps'][:12]]})
            if len(chk.samples) >= 3:
                break
    return chk.finish(
        rule='random node sets (3-6 nodes; DRAM/PMEM/HBM mixes, memory-less, CPU-less and movable-only nodes, symmetric and asymmetric distance '
             'matrices) plus the repository\'s sample layouts (2, 8 and 12 nodes); seeded adaptive histories of GetOffer/Commit/Allocate/Realloc/Release '
             '(12-30 ops, offers committed arbitrarily late, sizes relative to the current free capacity) and the hand-written F1/F2/K1 histories; '
             'every history also run as an erased twin; thorough adds all op sequences up to length 3 (full alphabets) / 4 (12 letters) on two 3-node layouts. '
             'distinct_nontrivial = distinct (node set, history) pairs in which at least one other allocation was moved by overcommit resolution',
        evaluations=tot.get('ops', 0) + tot.get('twin_steps', 0), distinct=nontrivial, traces=nh + nh2 + nh3,
        extra_cov={'exhaustive': bool(exh_pairs), 'histories': len(pairs), 'histories_exhaustive': len(exh_pairs), 'ops_exhaustive': n_exh_ops,
                   'distinct_histories': len(distinct), 'oracle_stats': tot,
                   'alloc_like_ops_random': n_main_allocs, 'ops_entering_overcommit_resolution_random': noc,
                   'fraction_overcommit': round(noc / max(1, n_main_allocs), 3),
                   'histories_cut_order_not_forced': unforced + unf2,
                   'coq_case_files': len(files) + len(tfiles), 'source_switches': {k: v for k, v in consts.items() if k.startswith('LM_fix')}})


WARM = [(PKG, HARNESS)]
