"""Print the observed cache-call sequences of full-stack traces as Coq terms for Flush_Model.fcheck."""
HDR = 'From Coq Require Import List. Import ListNotations.\nFrom stdpp Require Import gmap.\nFrom NV Require Import Flush_Model.\nOpen Scope nat_scope.\n'


def nlist(l):
    return '[%s]' % ';'.join(str(x) for x in l)


def trace_term(recs):
    ids = {}
    cid = lambda c: ids.setdefault(c, len(ids))
    pend = set()
    items = []
    stats = dict(writes=0, flushes=0, drops=0, events=0)
    prev_cached = set()
    for rec in recs:
        if rec['op'] in ('Setup',):
            prev_cached = {c['id'] for c in rec['cache']}
            continue
        if rec['op'] == 'Restart':
            # a new process: pending marks are not persisted
            ks = ['CDrop %d' % cid(c) for c in sorted(pend)]
            pend = set()
        else:
            ks = []
        got = set()
        for call in rec.get('calls') or []:
            name, c = call[0], call[1]
            if name == 'markPending':
                if len(call) > 2 and call[2].strip() == '[]':
                    continue
                ks.append('CWrite %d' % cid(c)); pend.add(c); got.discard(c); stats['writes'] += 1
            elif name in ('GetPendingUpdate', 'GetPendingAdjustment'):
                got.add(c)
            elif name == 'ClearPending' and c in pend:
                if c in got:
                    ks.append('CFlush %d' % cid(c)); stats['flushes'] += 1
                else:
                    ks.append('CDrop %d' % cid(c)); stats['drops'] += 1
                pend.discard(c)
        cached = {c['id'] for c in rec['cache']}
        for c in sorted(pend - cached):      # removed from the cache: its marks are gone with it
            ks.append('CDrop %d' % cid(c)); pend.discard(c)
        live = [cid(c['id']) for c in rec['cache'] if c['state'] in ('created', 'running')]
        obs_p = [cid(c['id']) for c in rec['cache'] if c['pending']]
        rep = rec['reply']
        upd = [u['id'] for u in ([rep['adjust']] if rep.get('adjust') else []) + (rep.get('updates') or []) + (rep.get('pushed') or [])]
        items.append('(%s, [%s], {| fo_pending := %s; fo_updated := %s |})' % (nlist(live), '; '.join(ks), nlist(obs_p), nlist([cid(u) for u in upd])))
        stats['events'] += 1
        prev_cached = cached
    return '[%s]' % ';\n '.join(items), stats


def case_file(path, traces):
    allstats = {}
    with open(path, 'w') as f:
        f.write(HDR)
        for k, (name, recs) in enumerate(traces):
            term, st = trace_term(recs)
            allstats[name] = st
            f.write('Definition T%d : list (list nat * list call * fobs) := %s.\n' % (k, term))
            f.write('Definition R%d := Eval vm_compute in fcheck f0 0 T%d.\n' % (k, k))
        f.write('Definition M := Eval vm_compute in [%s].\nPrint M.\n' % '; '.join('R%d' % k for k in range(len(traces))))
    return allstats
