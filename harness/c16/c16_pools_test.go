//go:build verif

// C16 (b): run the real topology-aware policy Setup on generated machines (and recorded fixture
// trees) for a list of available/reserved settings and dump the complete pool tree.
package topologyaware

import (
	"bufio"
	"encoding/json"
	"fmt"
	"os"
	"path/filepath"
	"strings"
	"testing"

	cfgapi "github.com/containers/nri-plugins/pkg/apis/config/v1alpha1/resmgr/policy/topologyaware"
	"github.com/containers/nri-plugins/pkg/cpuallocator"
	policyapi "github.com/containers/nri-plugins/pkg/resmgr/policy"
	system "github.com/containers/nri-plugins/pkg/sysfs"
	"github.com/containers/nri-plugins/pkg/utils/cpuset"
)

type vCfg struct {
	Avail    *string `json:"avail"`    // nil = absent
	Reserved *string `json:"reserved"` // nil = absent
}

type vPoolCase struct {
	Name    string `json:"name"`
	Machine string `json:"machine"` // machine JSON (generated) or ""
	Fixture string `json:"fixture"` // sys dir of a recorded tree or ""
	Cfgs    []vCfg `json:"cfgs"`
}

type vPool struct {
	Name     string   `json:"name"`
	Kind     string   `json:"kind"`
	Parent   string   `json:"parent"`
	Depth    int      `json:"depth"`
	Enum     int      `json:"enum"`
	PhysID   int      `json:"physid"`  // socket / die / NUMA node id, -1 for virtual
	PhysPkg  int      `json:"physpkg"` // package of a die pool, else -1
	HwCpus   []int    `json:"hwcpus"`  // the hardware CPU set the pool was built from (recomputed from sys)
	Isolated []int    `json:"isolated"`
	Reserved []int    `json:"reserved"`
	Sharable []int    `json:"sharable"`
	FreeIso  []int    `json:"free_isolated"`
	FreeRes  []int    `json:"free_reserved"`
	FreeShr  []int    `json:"free_sharable"`
	Dram     []int    `json:"dram"`
	Pmem     []int    `json:"pmem"`
	Hbm      []int    `json:"hbm"`
	Children []string `json:"children"`
}

type vZone struct {
	Name   string            `json:"name"`
	Type   string            `json:"type"`
	Parent string            `json:"parent"`
	Attrs  map[string]string `json:"attrs"`
}

type vSetup struct {
	Cfg        vCfg    `json:"cfg"`
	Outcome    string  `json:"outcome"` // ok | reject | panic
	Stage      string  `json:"stage"`   // constraints | topology | other (for reject)
	Msg        string  `json:"msg,omitempty"`
	Allowed    []int   `json:"allowed"`
	PReserved  []int   `json:"preserved"`
	PIsolated  []int   `json:"pisolated"`
	ReserveCnt int     `json:"reservecnt"`
	Root       string  `json:"root"`
	NodesByName int    `json:"nodes_by_name"`
	Pools      []vPool `json:"pools"`
	Zones      []vZone `json:"zones"`
}

type vPoolRec struct {
	Name    string   `json:"name"`
	Err     bool     `json:"err"`
	Msg     string   `json:"msg,omitempty"`
	Sys     *VDSys   `json:"sys,omitempty"`
	Results []vSetup `json:"results"`
}

func vMkCfg(c vCfg) *cfgapi.Config {
	cfg := &cfgapi.Config{}
	if c.Avail != nil {
		cfg.AvailableResources = cfgapi.Constraints{cfgapi.CPU: cfgapi.Amount(*c.Avail)}
	}
	if c.Reserved != nil {
		cfg.ReservedResources = cfgapi.Constraints{cfgapi.CPU: cfgapi.Amount(*c.Reserved)}
	}
	return cfg
}

func vIdList(s interface{ Members() []int }) []int {
	return vInts(cpuset.New(s.Members()...).List())
}

func vDumpPool(p *policy, n Node) vPool {
	// p.pools holds the embedded *node (DepthFirst is a method of node): get the outer type back
	if b, ok := n.(*node); ok && b.self.node != nil {
		n = b.self.node
	}
	r := vPool{Name: n.Name(), Kind: string(n.Kind()), Depth: n.RootDistance(), Enum: n.NodeID(), PhysID: -1, PhysPkg: -1,
		Children: []string{}}
	if !n.IsRootNode() {
		r.Parent = n.Parent().Name()
	}
	switch t := n.(type) {
	case *virtualnode:
		r.HwCpus = vInts(p.sys.CPUSet().List())
	case *socketnode:
		r.PhysID = t.id
		r.HwCpus = vInts(p.sys.Package(t.id).CPUSet().List())
	case *dienode:
		r.PhysID, r.PhysPkg = t.id, t.syspkg.ID()
		r.HwCpus = vInts(t.syspkg.DieCPUSet(t.id).List())
	case *numanode:
		r.PhysID = t.id
		r.HwCpus = vInts(p.sys.Node(t.id).CPUSet().List())
	}
	s, f := n.GetSupply(), n.FreeSupply()
	r.Isolated, r.Reserved, r.Sharable = vInts(s.IsolatedCPUs().List()), vInts(s.ReservedCPUs().List()), vInts(s.SharableCPUs().List())
	r.FreeIso, r.FreeRes, r.FreeShr = vInts(f.IsolatedCPUs().List()), vInts(f.ReservedCPUs().List()), vInts(f.SharableCPUs().List())
	r.Dram, r.Pmem, r.Hbm = vIdList(n.GetMemset(memoryDRAM)), vIdList(n.GetMemset(memoryPMEM)), vIdList(n.GetMemset(memoryHBM))
	for _, c := range n.Children() {
		r.Children = append(r.Children, c.Name())
	}
	return r
}

func vRunSetup(sys system.System, c vCfg) (res vSetup) {
	res = vSetup{Cfg: c, Pools: []vPool{}, Zones: []vZone{}}
	defer func() {
		if e := recover(); e != nil {
			res.Outcome, res.Msg = "panic", fmt.Sprint(e)
		}
	}()
	opts := &policyapi.BackendOptions{Cache: &mockCache{}, System: sys, Config: vMkCfg(c)}
	p := New().(*policy)
	if err := p.Setup(opts); err != nil {
		res.Outcome, res.Msg = "reject", err.Error()
		q := &policy{cfg: vMkCfg(c), sys: sys, cache: &mockCache{}, cpuAllocator: cpuallocator.NewCPUAllocator(sys)}
		if e := q.checkConstraints(); e != nil {
			res.Stage = "constraints"
		} else if e := q.checkHWTopology(); e != nil {
			res.Stage = "topology"
		} else {
			res.Stage = "other"
		}
		return res
	}
	res.Outcome = "ok"
	res.Allowed, res.PReserved, res.PIsolated = vInts(p.allowed.List()), vInts(p.reserved.List()), vInts(p.isolated.List())
	res.ReserveCnt = p.reserveCnt
	res.Root = p.root.Name()
	res.NodesByName = len(p.nodes)
	for _, n := range p.pools {
		res.Pools = append(res.Pools, vDumpPool(p, n))
	}
	for _, z := range p.GetTopologyZones() {
		vz := vZone{Name: z.Name, Type: z.Type, Parent: z.Parent, Attrs: map[string]string{}}
		for _, a := range z.Attributes {
			vz.Attrs[a.Name] = a.Value
		}
		res.Zones = append(res.Zones, vz)
	}
	return res
}

func TestVerifC16Pools(t *testing.T) {
	out := os.Getenv("VERIF_OUT")
	if out == "" {
		t.Skip("VERIF_OUT not set")
	}
	in, err := os.ReadFile(filepath.Join(out, "pool_cases.jsonl"))
	if err != nil {
		t.Fatal(err)
	}
	f, err := os.Create(filepath.Join(out, "pools.jsonl"))
	if err != nil {
		t.Fatal(err)
	}
	defer f.Close()
	w := bufio.NewWriter(f)
	defer w.Flush()
	enc := json.NewEncoder(w)
	tmp, err := os.MkdirTemp("", "verif-c16-pools-")
	if err != nil {
		t.Fatal(err)
	}
	defer os.RemoveAll(tmp)
	log.EnableDebug(false)
	for i, line := range strings.Split(string(in), "\n") {
		if strings.TrimSpace(line) == "" {
			continue
		}
		var pc vPoolCase
		if err := json.Unmarshal([]byte(line), &pc); err != nil {
			t.Fatalf("case %d: %v", i, err)
		}
		rec := vPoolRec{Name: pc.Name, Results: []vSetup{}}
		sysdir := pc.Fixture
		root := ""
		if pc.Machine != "" {
			m, err := VLoadMachine(pc.Machine)
			if err != nil {
				t.Fatalf("%s: %v", pc.Machine, err)
			}
			root = filepath.Join(tmp, fmt.Sprintf("m%d", i))
			VRenderSysfs(m, root)
			sysdir = filepath.Join(root, "sys")
		}
		sys, err := system.DiscoverSystemAt(sysdir)
		if err != nil {
			rec.Err, rec.Msg = true, err.Error()
		} else {
			rec.Sys = VDumpSystem(sys)
			for _, c := range pc.Cfgs {
				rec.Results = append(rec.Results, vRunSetup(sys, c))
			}
		}
		enc.Encode(&rec)
		w.Flush()
		if root != "" {
			os.RemoveAll(root)
		}
	}
}
