//go:build verif

// C16: canonical dump of every sysfs.System accessor named in the property.  Shared by the
// discovery harness (package sysfs_test) and the pool harness (package topologyaware); the
// driver rewrites the package clause.
package PKGNAME

import (
	system "github.com/containers/nri-plugins/pkg/sysfs"
)

type VDCache struct {
	ID    int   `json:"id"`
	Level int   `json:"level"`
	Kind  int   `json:"kind"`
	Size  uint64 `json:"size"`
	Cpus  []int `json:"cpus"`
}

type VDCPU struct {
	ID        int       `json:"id"`
	Online    bool      `json:"online"`
	Isolated  bool      `json:"isolated"`
	Pkg       int       `json:"pkg"`
	Die       int       `json:"die"`
	Cluster   int       `json:"cluster"`
	Core      int       `json:"core"`
	Node      int       `json:"node"`
	Threads   []int     `json:"threads"`
	Caches    []VDCache `json:"caches"`    // via CacheCount/GetCacheByIndex
	GetCaches int       `json:"getcaches"` // len(GetCaches())
	CoreKind  int       `json:"corekind"`
}

type VDNode struct {
	ID       int    `json:"id"`
	Pkg      int    `json:"pkg"`
	Die      int    `json:"die"`
	Cpus     []int  `json:"cpus"`
	Distance []int  `json:"distance"`
	MemErr   bool   `json:"memerr"`
	MemTotal uint64 `json:"memtotal"`
	MemFree  uint64 `json:"memfree"`
	MemUsed  uint64 `json:"memused"`
	MemType  int    `json:"memtype"`
	Normal   bool   `json:"normal"`
}

type VDDie struct {
	ID    int   `json:"id"`
	Cpus  []int `json:"cpus"`
	Nodes []int `json:"nodes"`
}

type VDPkg struct {
	ID    int     `json:"id"`
	Cpus  []int   `json:"cpus"`
	Dies  []int   `json:"dieids"`
	Nodes []int   `json:"nodes"`
	Die   []VDDie `json:"dies"`
}

type VDSys struct {
	CPUIDs   []int    `json:"cpuids"`
	NodeIDs  []int    `json:"nodeids"`
	PkgIDs   []int    `json:"pkgids"`
	Possible []int    `json:"possible"`
	Present  []int    `json:"present"`
	Online   []int    `json:"online"`
	Offlined []int    `json:"offlined"`
	Isolated []int    `json:"isolated"`
	CPUSet   []int    `json:"cpuset"`
	Sockets  int      `json:"sockets"`
	NumaCnt  int      `json:"numacnt"`
	CPUs     []VDCPU  `json:"cpus"`
	Nodes    []VDNode `json:"nodes"`
	Pkgs     []VDPkg  `json:"pkgs"`
}

func vInts(l []int) []int {
	if l == nil {
		return []int{}
	}
	return l
}

func VDumpSystem(sys system.System) *VDSys {
	d := &VDSys{
		CPUIDs: vInts(sys.CPUIDs()), NodeIDs: vInts(sys.NodeIDs()), PkgIDs: vInts(sys.PackageIDs()),
		Possible: vInts(sys.PossibleCPUs().List()), Present: vInts(sys.PresentCPUs().List()),
		Online: vInts(sys.OnlineCPUs().List()), Offlined: vInts(sys.Offlined().List()),
		Isolated: vInts(sys.Isolated().List()), CPUSet: vInts(sys.CPUSet().List()),
		Sockets: sys.SocketCount(), NumaCnt: sys.NUMANodeCount(),
		CPUs: []VDCPU{}, Nodes: []VDNode{}, Pkgs: []VDPkg{},
	}
	for _, id := range sys.CPUIDs() {
		c := sys.CPU(id)
		r := VDCPU{ID: c.ID(), Online: c.Online(), Isolated: c.Isolated(), Pkg: c.PackageID(), Die: c.DieID(),
			Cluster: c.ClusterID(), Core: c.CoreID(), Node: c.NodeID(), Threads: vInts(c.ThreadCPUSet().List()),
			Caches: []VDCache{}, GetCaches: len(c.GetCaches()), CoreKind: int(c.CoreKind())}
		for i := 0; i < c.CacheCount(); i++ {
			ca := c.GetCacheByIndex(i)
			r.Caches = append(r.Caches, VDCache{ID: ca.ID(), Level: ca.Level(), Kind: int(ca.Type()), Size: ca.Size(),
				Cpus: vInts(ca.SharedCPUSet().List())})
		}
		d.CPUs = append(d.CPUs, r)
	}
	for _, id := range sys.NodeIDs() {
		n := sys.Node(id)
		r := VDNode{ID: n.ID(), Pkg: n.PackageID(), Die: n.DieID(), Cpus: vInts(n.CPUSet().List()),
			Distance: vInts(n.Distance()), MemType: int(n.GetMemoryType()), Normal: n.HasNormalMemory()}
		if mi, err := n.MemoryInfo(); err != nil || mi == nil {
			r.MemErr = true
		} else {
			r.MemTotal, r.MemFree, r.MemUsed = mi.MemTotal, mi.MemFree, mi.MemUsed
		}
		d.Nodes = append(d.Nodes, r)
	}
	for _, id := range sys.PackageIDs() {
		p := sys.Package(id)
		r := VDPkg{ID: p.ID(), Cpus: vInts(p.CPUSet().List()), Dies: vInts(p.DieIDs()), Nodes: vInts(p.NodeIDs()), Die: []VDDie{}}
		for _, die := range p.DieIDs() {
			r.Die = append(r.Die, VDDie{ID: die, Cpus: vInts(p.DieCPUSet(die).List()), Nodes: vInts(p.DieNodeIDs(die))})
		}
		d.Pkgs = append(d.Pkgs, r)
	}
	return d
}
