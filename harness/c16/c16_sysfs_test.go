//go:build verif

// C16 (a): run the real sysfs discovery on generated sysfs trees (rendered from the machine
// descriptions listed in $VERIF_OUT/machines.txt) and on the recorded fixture trees listed in
// $VERIF_OUT/fixtures.txt; dump every accessor named in the property plus the raw contents of
// the list-valued files (for the string-codec layer).
package sysfs_test

import (
	"bufio"
	"encoding/json"
	"fmt"
	"os"
	"path/filepath"
	"strings"
	"testing"

	system "github.com/containers/nri-plugins/pkg/sysfs"
)

type vRaw struct {
	Kind string `json:"kind"` // which file
	Key  int    `json:"key"`  // cpu / node id (or -1)
	Idx  int    `json:"idx"`  // cache index (or -1)
	Raw  string `json:"raw"`
}

type vSysRec struct {
	Name  string `json:"name"`
	Kind  string `json:"kind"` // "gen" | "fixture"
	Err   bool   `json:"err"`
	Panic bool   `json:"panic"`
	Msg   string `json:"msg,omitempty"`
	Sys   *VDSys `json:"sys,omitempty"`
	Raw   []vRaw `json:"raw,omitempty"`
}

func vReadRaw(path string) (string, bool) {
	b, err := os.ReadFile(path)
	if err != nil {
		return "", false
	}
	return strings.Trim(string(b), "\n"), true
}

func vCollectRaw(sysdir string, d *VDSys) []vRaw {
	var out []vRaw
	add := func(kind string, key, idx int, p string) {
		if s, ok := vReadRaw(p); ok {
			out = append(out, vRaw{kind, key, idx, s})
		}
	}
	cb := filepath.Join(sysdir, "devices/system/cpu")
	nb := filepath.Join(sysdir, "devices/system/node")
	for _, k := range []string{"possible", "present", "online", "isolated"} {
		add("cpu/"+k, -1, -1, filepath.Join(cb, k))
	}
	for _, k := range []string{"has_normal_memory", "has_memory", "online"} {
		add("node/"+k, -1, -1, filepath.Join(nb, k))
	}
	for _, c := range d.CPUs {
		cd := filepath.Join(cb, fmt.Sprintf("cpu%d", c.ID))
		add("core_cpus_list", c.ID, -1, filepath.Join(cd, "topology/core_cpus_list"))
		add("physical_package_id", c.ID, -1, filepath.Join(cd, "topology/physical_package_id"))
		add("die_id", c.ID, -1, filepath.Join(cd, "topology/die_id"))
		add("core_id", c.ID, -1, filepath.Join(cd, "topology/core_id"))
		for i := range c.Caches {
			add("shared_cpu_list", c.ID, i, filepath.Join(cd, fmt.Sprintf("cache/index%d/shared_cpu_list", i)))
			add("cache_size", c.ID, i, filepath.Join(cd, fmt.Sprintf("cache/index%d/size", i)))
		}
	}
	for _, n := range d.Nodes {
		nd := filepath.Join(nb, fmt.Sprintf("node%d", n.ID))
		add("cpulist", n.ID, -1, filepath.Join(nd, "cpulist"))
		add("distance", n.ID, -1, filepath.Join(nd, "distance"))
		if b, err := os.ReadFile(filepath.Join(nd, "meminfo")); err == nil {
			for _, line := range strings.Split(string(b), "\n") {
				if strings.Contains(line, "MemTotal:") {
					out = append(out, vRaw{"meminfo_total", n.ID, -1, line})
				}
				if strings.Contains(line, "MemFree:") {
					out = append(out, vRaw{"meminfo_free", n.ID, -1, line})
				}
			}
		}
	}
	return out
}

func vDiscover(name, kind, sysdir string, withRaw bool) (rec vSysRec) {
	rec = vSysRec{Name: name, Kind: kind}
	defer func() {
		if e := recover(); e != nil {
			rec.Panic, rec.Msg, rec.Sys = true, fmt.Sprint(e), nil
		}
	}()
	sys, err := system.DiscoverSystemAt(sysdir)
	if err != nil {
		rec.Err, rec.Msg = true, err.Error()
		return rec
	}
	rec.Sys = VDumpSystem(sys)
	if withRaw {
		rec.Raw = vCollectRaw(sysdir, rec.Sys)
	}
	return rec
}

func vLines(path string) []string {
	b, err := os.ReadFile(path)
	if err != nil {
		return nil
	}
	var out []string
	for _, l := range strings.Split(string(b), "\n") {
		if l = strings.TrimSpace(l); l != "" {
			out = append(out, l)
		}
	}
	return out
}

func TestVerifC16Sysfs(t *testing.T) {
	out := os.Getenv("VERIF_OUT")
	if out == "" {
		t.Skip("VERIF_OUT not set")
	}
	f, err := os.Create(filepath.Join(out, "sysfs.jsonl"))
	if err != nil {
		t.Fatal(err)
	}
	defer f.Close()
	w := bufio.NewWriter(f)
	defer w.Flush()
	enc := json.NewEncoder(w)
	tmp, err := os.MkdirTemp("", "verif-c16-sysfs-")
	if err != nil {
		t.Fatal(err)
	}
	defer os.RemoveAll(tmp)
	for i, mp := range vLines(filepath.Join(out, "machines.txt")) {
		m, err := VLoadMachine(mp)
		if err != nil {
			t.Fatalf("%s: %v", mp, err)
		}
		root := filepath.Join(tmp, fmt.Sprintf("m%d", i))
		VRenderSysfs(m, root)
		rec := vDiscover(m.Name, "gen", filepath.Join(root, "sys"), true)
		enc.Encode(&rec)
		os.RemoveAll(root)
	}
	for _, fx := range vLines(filepath.Join(out, "fixtures.txt")) {
		parts := strings.SplitN(fx, " ", 2)
		rec := vDiscover(parts[0], "fixture", parts[1], true)
		enc.Encode(&rec)
	}
}
