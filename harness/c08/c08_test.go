//go:build verif

// C08 harness (in-package, injected by overlay): discovers generated / recorded machines with the
// real sysfs discovery, dumps the allocator's own view of the topology (topologyCache +
// sysfs.System) and runs AllocateCpus / ReleaseCpus cases, each twice on fresh allocators
// (second run on a freshly discovered sysfs.System).
//
//	VERIF_OUT   work directory
//	VERIF_MODE  "topo": read $VERIF_OUT/machines.txt (one "<name> <kind> <path>" per line; kind =
//	            json (lib/machines.py description) | sysroot (existing tree, path = .../sys) |
//	            tbz2 (repo testdata tarball, path = "<tarball>:<subdir>")), write topo_<name>.json
//	            "run":  additionally read cases_<name>.jsonl, write out_<name>.jsonl
package cpuallocator

import (
	"bufio"
	"encoding/json"
	"fmt"
	"os"
	"path/filepath"
	"reflect"
	"sort"
	"strings"
	"testing"

	"github.com/containers/nri-plugins/pkg/sysfs"
	"github.com/containers/nri-plugins/pkg/utils"
	"github.com/containers/nri-plugins/pkg/utils/cpuset"
)

type vC08Cluster struct {
	Pkg     int   `json:"pkg"`
	Die     int   `json:"die"`
	Cluster int   `json:"cluster"`
	Cpus    []int `json:"cpus"`
	Kind    int   `json:"kind"`
}

type vC08Group struct {
	ID   int   `json:"id"`
	Pkg  int   `json:"pkg"`
	Die  int   `json:"die"`
	Node int   `json:"node"`
	Cpus []int `json:"cpus"`
	Kind int   `json:"kind"`
}

type vC08Set struct {
	ID   int   `json:"id"`
	Cpus []int `json:"cpus"`
}

// the allocator's own view: everything allocator.go reads from a.sys and a.topology
type vC08Topo struct {
	Name     string        `json:"name"`
	CPUIDs   []int         `json:"cpuids"`   // sys.CPUIDs()
	PkgIDs   []int         `json:"pkgids"`   // sys.PackageIDs()
	Online   []int         `json:"online"`   // sys.OnlineCPUs()
	Offline  []int         `json:"offline"`  // sys.Offlined() (== sys.OfflineCPUs())
	Offline2 []int         `json:"offline2"` // sys.OfflineCPUs()
	Pkg      []vC08Set     `json:"pkg"`      // topology.pkg
	Core     []vC08Set     `json:"core"`     // topology.core (cpu id -> thread siblings)
	CPUPkg   [][2]int      `json:"cpupkg"`   // sys.CPU(id).PackageID()
	Prio     [3][]int      `json:"prio"`     // topology.cpuPriorities
	NKinds   int           `json:"nkinds"`   // len(topology.kind)
	Clusters []vC08Cluster `json:"clusters"` // topology.clusters (discovery order)
	Groups   []vC08Group   `json:"groups"`   // topology.cacheGroups (discovery order)
}

func vC08List(s cpuset.CPUSet) []int {
	l := s.List()
	if l == nil {
		l = []int{}
	}
	return l
}

func vC08DumpTopo(name string, sys sysfs.System) *vC08Topo {
	ca := NewCPUAllocator(sys).(*cpuAllocator)
	tc := ca.topologyCache
	t := &vC08Topo{Name: name}
	t.CPUIDs = append([]int{}, sys.CPUIDs()...)
	t.PkgIDs = append([]int{}, sys.PackageIDs()...)
	t.Online = vC08List(sys.OnlineCPUs())
	t.Offline = vC08List(sys.Offlined())
	t.Offline2 = vC08List(sys.OfflineCPUs())
	pk := []int{}
	for id := range tc.pkg {
		pk = append(pk, id)
	}
	sort.Ints(pk)
	for _, id := range pk {
		t.Pkg = append(t.Pkg, vC08Set{id, vC08List(tc.pkg[id])})
	}
	ck := []int{}
	for id := range tc.core {
		ck = append(ck, id)
	}
	sort.Ints(ck)
	for _, id := range ck {
		t.Core = append(t.Core, vC08Set{id, vC08List(tc.core[id])})
	}
	for _, id := range sys.CPUIDs() {
		t.CPUPkg = append(t.CPUPkg, [2]int{id, sys.CPU(id).PackageID()})
	}
	for p := 0; p < int(NumCPUPriorities); p++ {
		t.Prio[p] = vC08List(tc.cpuPriorities[p])
	}
	t.NKinds = len(tc.kind)
	t.Clusters = []vC08Cluster{}
	for _, c := range tc.clusters {
		t.Clusters = append(t.Clusters, vC08Cluster{c.pkg, c.die, c.cluster, vC08List(c.cpus), int(c.kind)})
	}
	t.Groups = []vC08Group{}
	for _, g := range tc.cacheGroups {
		t.Groups = append(t.Groups, vC08Group{g.id, g.pkg, g.die, g.node, vC08List(g.cpus), int(g.kind)})
	}
	return t
}

type vC08Case struct {
	ID     int    `json:"id"`
	Op     string `json:"op"` // alloc | release
	From   []int  `json:"from"`
	Cnt    int    `json:"cnt"`
	Prefer int    `json:"prefer"` // 0 high, 1 normal, 2 low, 3 none, -1: no priority option given
	Flags  int    `json:"flags"`  // AllocFlag mask, -1: no flags option given (AllocDefault)
}

type vC08Obs struct {
	Result []int  `json:"result"`
	From   []int  `json:"from"`
	Err    bool   `json:"err"`
	Panic  bool   `json:"panic"`
	Msg    string `json:"msg,omitempty"`
}

type vC08Out struct {
	ID   int      `json:"id"`
	Run1 *vC08Obs `json:"run1"`
	Run2 *vC08Obs `json:"run2"`
	Run3 *vC08Obs `json:"run3"` // on the allocator shared by all cases of the machine
}

func vC08RunCase(sys sysfs.System, c *vC08Case) (obs *vC08Obs) {
	return vC08RunCaseOn(nil, sys, c)
}

// shared == nil: a fresh allocator (and topology cache) for the run; otherwise the long-lived
// allocator that served all earlier cases of this machine, as in a policy
func vC08RunCaseOn(shared CPUAllocator, sys sysfs.System, c *vC08Case) (obs *vC08Obs) {
	obs = &vC08Obs{}
	from := cpuset.New(c.From...)
	defer func() {
		if r := recover(); r != nil {
			obs.Panic = true
			obs.Msg = fmt.Sprint(r)
			obs.Result = []int{}
			obs.From = vC08List(from)
		}
	}()
	ca := shared
	if ca == nil {
		ca = NewCPUAllocator(sys) // fresh allocator (and topology cache) for every run
	}
	opts := []Option{}
	if c.Prefer >= 0 {
		opts = append(opts, WithPriority(CPUPriority(c.Prefer)))
	}
	if c.Flags >= 0 {
		opts = append(opts, WithAllocFlags(AllocFlag(c.Flags)))
	}
	var res cpuset.CPUSet
	var err error
	if c.Op == "release" {
		res, err = ca.ReleaseCpus(&from, c.Cnt, opts...)
	} else {
		res, err = ca.AllocateCpus(&from, c.Cnt, opts...)
	}
	obs.Result = vC08List(res)
	obs.From = vC08List(from)
	if err != nil {
		obs.Err = true
		obs.Msg = err.Error()
	}
	return obs
}

func vC08Discover(t *testing.T, out, name, kind, path string) (sysfs.System, sysfs.System) {
	root := ""
	switch kind {
	case "json":
		m, err := VLoadMachine(path)
		if err != nil {
			t.Fatalf("machine %s: %v", name, err)
		}
		dir := filepath.Join(out, "sysfs_"+name)
		os.RemoveAll(dir)
		VRenderSysfs(m, dir)
		root = filepath.Join(dir, "sys")
	case "sysroot":
		root = path
	case "tbz2":
		parts := strings.SplitN(path, ":", 2)
		dir := filepath.Join(out, "sysfs_"+name)
		os.RemoveAll(dir)
		os.MkdirAll(dir, 0o755)
		if err := utils.UncompressTbz2(parts[0], dir); err != nil {
			t.Fatalf("machine %s: %v", name, err)
		}
		root = filepath.Join(dir, parts[1])
	default:
		t.Fatalf("machine %s: unknown kind %q", name, kind)
	}
	s1, err := sysfs.DiscoverSystemAt(root)
	if err != nil {
		t.Fatalf("machine %s: discovery failed: %v", name, err)
	}
	s2, err := sysfs.DiscoverSystemAt(root)
	if err != nil {
		t.Fatalf("machine %s: 2nd discovery failed: %v", name, err)
	}
	return s1, s2
}

func TestVerifC08(t *testing.T) {
	out := os.Getenv("VERIF_OUT")
	if out == "" {
		t.Skip("VERIF_OUT not set")
	}
	mode := os.Getenv("VERIF_MODE")
	data, err := os.ReadFile(filepath.Join(out, "machines.txt"))
	if err != nil {
		t.Fatal(err)
	}
	for _, line := range strings.Split(strings.TrimSpace(string(data)), "\n") {
		fs := strings.Fields(line)
		if len(fs) != 3 {
			continue
		}
		name, kind, path := fs[0], fs[1], fs[2]
		s1, s2 := vC08Discover(t, out, name, kind, path)
		t1, t2 := vC08DumpTopo(name, s1), vC08DumpTopo(name, s2)
		if !reflect.DeepEqual(t1, t2) {
			// reported through the dump: the driver compares topo_ and topo2_ files
			b2, _ := json.Marshal(t2)
			os.WriteFile(filepath.Join(out, "topo2_"+name+".json"), b2, 0o644)
		}
		b, _ := json.Marshal(t1)
		if err := os.WriteFile(filepath.Join(out, "topo_"+name+".json"), b, 0o644); err != nil {
			t.Fatal(err)
		}
		if mode != "run" {
			continue
		}
		cf, err := os.Open(filepath.Join(out, "cases_"+name+".jsonl"))
		if err != nil {
			continue
		}
		of, _ := os.Create(filepath.Join(out, "out_"+name+".jsonl"))
		w := bufio.NewWriterSize(of, 1<<20)
		enc := json.NewEncoder(w)
		sc := bufio.NewScanner(cf)
		sc.Buffer(make([]byte, 1<<20), 1<<24)
		shared := NewCPUAllocator(s1)
		for sc.Scan() {
			c := &vC08Case{}
			if err := json.Unmarshal(sc.Bytes(), c); err != nil {
				t.Fatalf("bad case line: %v", err)
			}
			o := &vC08Out{ID: c.ID}
			o.Run1 = vC08RunCase(s1, c)
			o.Run2 = vC08RunCase(s2, c)
			o.Run3 = vC08RunCaseOn(shared, s1, c)
			enc.Encode(o)
		}
		w.Flush()
		of.Close()
		cf.Close()
	}
}
