//go:build verif

// C18 harness for cmd/plugins/memtierd: effectiveAnnotations and CreateContainer on generated
// maps, repeated on freshly built maps (different iteration orders).
package main

import (
	"bufio"
	"context"
	"encoding/json"
	"io"
	"math/rand"
	"os"
	"path/filepath"
	"sort"
	"strings"
	"testing"

	"github.com/containerd/nri/pkg/api"
	"github.com/sirupsen/logrus"
)

type vc18Res struct {
	Kind    string      `json:"kind"` // ok | err | panic
	Unified [][2]string `json:"unified"`
	Eff     [][2]string `json:"eff"`
}

type vc18MtOut struct {
	Const string    `json:"const"`
	Case  int       `json:"case"`
	Ctr   string    `json:"ctr"`
	Obs   []vc18Res `json:"obs"`
	Twin  vc18Res   `json:"twin"`
}

func vc18Run(p *plugin, ann map[string]string, ctr *api.Container) (r vc18Res) {
	defer func() {
		if e := recover(); e != nil {
			r.Kind = "panic"
		}
	}()
	pod := &api.PodSandbox{Name: "pod0", Namespace: "ns", Annotations: ann}
	r.Eff = vc18Sorted(effectiveAnnotations(pod, ctr))
	adj, _, err := p.CreateContainer(context.Background(), pod, ctr)
	switch {
	case err != nil:
		r.Kind = "err"
	case adj == nil:
		r.Kind = "ok"
	default:
		r.Kind = "ok"
		r.Unified = vc18Sorted(adj.Linux.Resources.Unified)
	}
	return r
}

func TestVerifC18Memtierd(t *testing.T) {
	out, in := vc18Load(t)
	log = logrus.New()
	log.SetOutput(io.Discard)
	enc, done := vc18Writer(t, out, "c18_mt.jsonl")
	defer done()
	rng := rand.New(rand.NewSource(in.Seed))
	for ci, c := range in.Cases {
		p := &plugin{ctrMemtierdEnv: map[string]*memtierdEnv{}}
		if c.MT.Configured {
			p.config = &pluginConfig{}
			for _, cl := range c.MT.Classes {
				p.config.Classes = append(p.config.Classes, qosClass{Name: cl.Name, AllowSwap: cl.AllowSwap})
			}
		}
		for _, ctr := range c.Ctrs {
			o := vc18MtOut{Const: annotationSuffix, Case: ci, Ctr: ctr}
			for r := 0; r < in.Reps; r++ {
				o.Obs = append(o.Obs, vc18Run(p, vc18Map(rng, c.Ann, nil), &api.Container{Name: ctr}))
			}
			o.Twin = vc18Run(p, vc18Map(rng, c.Ann, func(k string) bool {
				for _, d := range c.Ctrs {
					if d != ctr && strings.HasSuffix(k, annotationSuffix+"/"+d) {
						return true
					}
				}
				return false
			}), &api.Container{Name: ctr})
			enc.Encode(&o)
		}
	}
}
// ---- shared by the four C18 harness files (copied verbatim into each; package clause differs)

type vc18Case struct {
	Ann  [][2]string `json:"ann"`  // annotations (pairwise distinct keys)
	Ctrs []string    `json:"ctrs"` // container names to resolve for
	Keys []string    `json:"keys"` // cache: base keys to resolve
	MQ   struct {
		Unified  []string `json:"unified"`
		Classes  []struct {
			Name  string  `json:"name"`
			Ratio float32 `json:"ratio"`
		} `json:"classes"`
		MemLimit *int64 `json:"memlimit"`
	} `json:"mq"`
	MT struct {
		Configured bool `json:"configured"`
		Classes    []struct {
			Name      string `json:"name"`
			AllowSwap *bool  `json:"allowswap"`
		} `json:"classes"`
	} `json:"mt"`
}

type vc18Input struct {
	Reps  int        `json:"reps"`
	Seed  int64      `json:"seed"`
	Cases []vc18Case `json:"cases"`
}

func vc18Load(t *testing.T) (string, *vc18Input) {
	out := os.Getenv("VERIF_OUT")
	if out == "" {
		t.Skip("VERIF_OUT not set")
	}
	data, err := os.ReadFile(filepath.Join(out, "c18_in.json"))
	if err != nil {
		t.Fatal(err)
	}
	in := &vc18Input{}
	if err := json.Unmarshal(data, in); err != nil {
		t.Fatal(err)
	}
	if in.Reps < 1 {
		in.Reps = 1
	}
	return out, in
}

// a fresh Go map with the entries inserted in a shuffled order (a different slot layout, hence
// different iteration orders, on every call); `skip` filters entries out
func vc18Map(rng *rand.Rand, ann [][2]string, skip func(k string) bool) map[string]string {
	idx := rng.Perm(len(ann))
	m := map[string]string{}
	for _, i := range idx {
		if skip != nil && skip(ann[i][0]) {
			continue
		}
		m[ann[i][0]] = ann[i][1]
	}
	return m
}

func vc18Sorted(m map[string]string) [][2]string {
	keys := make([]string, 0, len(m))
	for k := range m {
		keys = append(keys, k)
	}
	sort.Strings(keys)
	out := make([][2]string, 0, len(m))
	for _, k := range keys {
		out = append(out, [2]string{k, m[k]})
	}
	return out
}

func vc18Writer(t *testing.T, out, name string) (*json.Encoder, func()) {
	f, err := os.Create(filepath.Join(out, name))
	if err != nil {
		t.Fatal(err)
	}
	w := bufio.NewWriterSize(f, 1<<20)
	return json.NewEncoder(w), func() { w.Flush(); f.Close() }
}
