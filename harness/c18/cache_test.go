//go:build verif

// C18 harness for pkg/resmgr/cache: container.GetEffectiveAnnotation / pod.GetEffectiveAnnotation
// on generated annotation maps; every query is repeated on freshly built maps, and on the map
// with the annotations addressed to OTHER containers removed (twin).
package cache

import (
	"bufio"
	"encoding/json"
	"math/rand"
	"os"
	"path/filepath"
	"sort"
	"strings"
	"testing"

	nri "github.com/containerd/nri/pkg/api"
)

type vc18CacheOut struct {
	Case  int        `json:"case"`
	Ctr   string     `json:"ctr"`
	Key   string     `json:"key"`
	Vals  []*string  `json:"vals"` // one per repetition (nil = not found)
	Twin  *string    `json:"twin"` // without the annotations addressed to other containers
	Empty bool       `json:"-"`
}

func vc18Resolve(ann map[string]string, key, ctr string) *string {
	cch := &cache{Pods: map[string]*pod{}, Containers: map[string]*container{}}
	p := &pod{cache: cch, Pod: &nri.PodSandbox{Id: "p0", Name: "pod0", Namespace: "ns", Annotations: ann}}
	cch.Pods["p0"] = p
	c := &container{cache: cch, Ctr: &nri.Container{Id: "c0", PodSandboxId: "p0", Name: ctr}}
	cch.Containers["c0"] = c
	v, ok := c.GetEffectiveAnnotation(key)
	v2, ok2 := p.GetEffectiveAnnotation(key, ctr)
	if ok != ok2 || v != v2 {
		s := "<container and pod accessors disagree>"
		return &s
	}
	if !ok {
		return nil
	}
	return &v
}

func TestVerifC18Cache(t *testing.T) {
	out, in := vc18Load(t)
	enc, done := vc18Writer(t, out, "c18_cache.jsonl")
	defer done()
	rng := rand.New(rand.NewSource(in.Seed))
	for ci, c := range in.Cases {
		for _, ctr := range c.Ctrs {
			for _, key := range c.Keys {
				o := vc18CacheOut{Case: ci, Ctr: ctr, Key: key}
				for r := 0; r < in.Reps; r++ {
					o.Vals = append(o.Vals, vc18Resolve(vc18Map(rng, c.Ann, nil), key, ctr))
				}
				o.Twin = vc18Resolve(vc18Map(rng, c.Ann, func(k string) bool {
					for _, d := range c.Ctrs {
						if d != ctr && strings.HasSuffix(k, "/container."+d) && !strings.HasSuffix(k, "/container."+ctr) {
							return true
						}
					}
					return false
				}), key, ctr)
				enc.Encode(&o)
			}
		}
	}
}
// ---- shared by the four C18 harness files (copied verbatim into each; package clause differs)

type vc18Case struct {
	Ann  [][2]string `json:"ann"`  // annotations (pairwise distinct keys)
	Ctrs []string    `json:"ctrs"` // container names to resolve for
	Keys []string    `json:"keys"` // cache: base keys to resolve
	MQ   struct {
		Unified  []string `json:"unified"`
		Classes  []struct {
			Name  string  `json:"name"`
			Ratio float32 `json:"ratio"`
		} `json:"classes"`
		MemLimit *int64 `json:"memlimit"`
	} `json:"mq"`
	MT struct {
		Configured bool `json:"configured"`
		Classes    []struct {
			Name      string `json:"name"`
			AllowSwap *bool  `json:"allowswap"`
		} `json:"classes"`
	} `json:"mt"`
}

type vc18Input struct {
	Reps  int        `json:"reps"`
	Seed  int64      `json:"seed"`
	Cases []vc18Case `json:"cases"`
}

func vc18Load(t *testing.T) (string, *vc18Input) {
	out := os.Getenv("VERIF_OUT")
	if out == "" {
		t.Skip("VERIF_OUT not set")
	}
	data, err := os.ReadFile(filepath.Join(out, "c18_in.json"))
	if err != nil {
		t.Fatal(err)
	}
	in := &vc18Input{}
	if err := json.Unmarshal(data, in); err != nil {
		t.Fatal(err)
	}
	if in.Reps < 1 {
		in.Reps = 1
	}
	return out, in
}

// a fresh Go map with the entries inserted in a shuffled order (a different slot layout, hence
// different iteration orders, on every call); `skip` filters entries out
func vc18Map(rng *rand.Rand, ann [][2]string, skip func(k string) bool) map[string]string {
	idx := rng.Perm(len(ann))
	m := map[string]string{}
	for _, i := range idx {
		if skip != nil && skip(ann[i][0]) {
			continue
		}
		m[ann[i][0]] = ann[i][1]
	}
	return m
}

func vc18Sorted(m map[string]string) [][2]string {
	keys := make([]string, 0, len(m))
	for k := range m {
		keys = append(keys, k)
	}
	sort.Strings(keys)
	out := make([][2]string, 0, len(m))
	for _, k := range keys {
		out = append(out, [2]string{k, m[k]})
	}
	return out
}

func vc18Writer(t *testing.T, out, name string) (*json.Encoder, func()) {
	f, err := os.Create(filepath.Join(out, name))
	if err != nil {
		t.Fatal(err)
	}
	w := bufio.NewWriterSize(f, 1<<20)
	return json.NewEncoder(w), func() { w.Flush(); f.Close() }
}
