//go:build verif

// C18 harness for cmd/plugins/sgx-epc: parseEpcLimit and CreateContainer on generated maps.
package main

import (
	"bufio"
	"context"
	"encoding/json"
	"io"
	"math/rand"
	"os"
	"path/filepath"
	"sort"
	"strings"
	"testing"

	"github.com/containerd/nri/pkg/api"
	"github.com/sirupsen/logrus"
)

type vc18EpcObs struct {
	Err     bool    `json:"err"`
	Limit   uint64  `json:"limit"`
	MiscMax *string `json:"misc_max"` // unified["misc.max"] of the adjustment, nil if absent
	Panic   string  `json:"panic,omitempty"`
}

type vc18EpcOut struct {
	Const string       `json:"const"`
	Case  int          `json:"case"`
	Ctr   string       `json:"ctr"`
	Obs   []vc18EpcObs `json:"obs"`
	Twin  vc18EpcObs   `json:"twin"`
}

func vc18Epc(ann map[string]string, ctr string) (o vc18EpcObs) {
	defer func() {
		if e := recover(); e != nil {
			o.Panic = "panic"
		}
	}()
	limit, err := parseEpcLimit(ann, ctr)
	o.Err, o.Limit = err != nil, limit
	p := &plugin{}
	adj, _, err2 := p.CreateContainer(context.Background(), &api.PodSandbox{Name: "pod0", Namespace: "ns", Annotations: ann}, &api.Container{Name: ctr})
	if (err2 != nil) != o.Err {
		o.Panic = "parseEpcLimit and CreateContainer disagree about the error"
	}
	if adj != nil && adj.Linux != nil && adj.Linux.Resources != nil {
		if v, ok := adj.Linux.Resources.Unified["misc.max"]; ok {
			o.MiscMax = &v
		}
	}
	return o
}

func TestVerifC18Sgx(t *testing.T) {
	out, in := vc18Load(t)
	log = logrus.New()
	log.SetOutput(io.Discard)
	enc, done := vc18Writer(t, out, "c18_sgx.jsonl")
	defer done()
	rng := rand.New(rand.NewSource(in.Seed))
	for ci, c := range in.Cases {
		for _, ctr := range c.Ctrs {
			o := vc18EpcOut{Const: epcLimitKey, Case: ci, Ctr: ctr}
			for r := 0; r < in.Reps; r++ {
				o.Obs = append(o.Obs, vc18Epc(vc18Map(rng, c.Ann, nil), ctr))
			}
			o.Twin = vc18Epc(vc18Map(rng, c.Ann, func(k string) bool {
				for _, d := range c.Ctrs {
					if d != ctr && strings.HasSuffix(k, "/container."+d) && !strings.HasSuffix(k, "/container."+ctr) {
						return true
					}
				}
				return false
			}), ctr)
			enc.Encode(&o)
		}
	}
}
// ---- shared by the four C18 harness files (copied verbatim into each; package clause differs)

type vc18Case struct {
	Ann  [][2]string `json:"ann"`  // annotations (pairwise distinct keys)
	Ctrs []string    `json:"ctrs"` // container names to resolve for
	Keys []string    `json:"keys"` // cache: base keys to resolve
	MQ   struct {
		Unified  []string `json:"unified"`
		Classes  []struct {
			Name  string  `json:"name"`
			Ratio float32 `json:"ratio"`
		} `json:"classes"`
		MemLimit *int64 `json:"memlimit"`
	} `json:"mq"`
	MT struct {
		Configured bool `json:"configured"`
		Classes    []struct {
			Name      string `json:"name"`
			AllowSwap *bool  `json:"allowswap"`
		} `json:"classes"`
	} `json:"mt"`
}

type vc18Input struct {
	Reps  int        `json:"reps"`
	Seed  int64      `json:"seed"`
	Cases []vc18Case `json:"cases"`
}

func vc18Load(t *testing.T) (string, *vc18Input) {
	out := os.Getenv("VERIF_OUT")
	if out == "" {
		t.Skip("VERIF_OUT not set")
	}
	data, err := os.ReadFile(filepath.Join(out, "c18_in.json"))
	if err != nil {
		t.Fatal(err)
	}
	in := &vc18Input{}
	if err := json.Unmarshal(data, in); err != nil {
		t.Fatal(err)
	}
	if in.Reps < 1 {
		in.Reps = 1
	}
	return out, in
}

// a fresh Go map with the entries inserted in a shuffled order (a different slot layout, hence
// different iteration orders, on every call); `skip` filters entries out
func vc18Map(rng *rand.Rand, ann [][2]string, skip func(k string) bool) map[string]string {
	idx := rng.Perm(len(ann))
	m := map[string]string{}
	for _, i := range idx {
		if skip != nil && skip(ann[i][0]) {
			continue
		}
		m[ann[i][0]] = ann[i][1]
	}
	return m
}

func vc18Sorted(m map[string]string) [][2]string {
	keys := make([]string, 0, len(m))
	for k := range m {
		keys = append(keys, k)
	}
	sort.Strings(keys)
	out := make([][2]string, 0, len(m))
	for _, k := range keys {
		out = append(out, [2]string{k, m[k]})
	}
	return out
}

func vc18Writer(t *testing.T, out, name string) (*json.Encoder, func()) {
	f, err := os.Create(filepath.Join(out, name))
	if err != nil {
		t.Fatal(err)
	}
	w := bufio.NewWriterSize(f, 1<<20)
	return json.NewEncoder(w), func() { w.Flush(); f.Close() }
}
