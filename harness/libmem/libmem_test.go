//go:build verif

// C06/C07 harness: drives the libmem allocator through its PUBLIC API only (external test
// package), on node sets and operation histories given in $VERIF_OUT/libmem_in.json, and dumps
// every observable after every operation to $VERIF_OUT/libmem_out.jsonl.
//
// A scenario either carries an explicit op list (replay, exhaustive enumeration) or a generator
// spec (seeded, adaptive: sizes are chosen relative to the current free capacity so that a good
// share of the allocations drives zones into overcommit resolution).  Every Request object is
// created for exactly one API call and creation timestamps are forced to be strictly increasing,
// so the age order of the requests is the order of creation.
//
// For every history a "twin" is run on a fresh allocator: operations that failed and offers that
// were never committed are erased, a fresh offer + its commit is replaced by a direct Allocate at
// the position of the commit.  The transactional clauses of C06 say that the twin must behave
// identically on the remaining operations; the comparison is done by the Python oracle.
package libmem_test

import (
	"bufio"
	"encoding/json"
	"errors"
	"fmt"
	"math/rand"
	"os"
	"path/filepath"
	"sort"
	"strconv"
	"testing"
	"time"

	logger "github.com/containers/nri-plugins/pkg/log"
	. "github.com/containers/nri-plugins/pkg/resmgr/lib/memory"
	"github.com/containers/nri-plugins/pkg/utils/cpuset"
)

type lmNode struct {
	Type   int   `json:"type"`
	Cap    int64 `json:"cap"`
	Normal bool  `json:"normal"`
	CPUs   []int `json:"cpus"`
	Dist   []int `json:"dist"`
}

type lmOp struct {
	Op     string `json:"op"` // alloc | offer | commit | realloc | release
	ID     int    `json:"id"`
	Size   int64  `json:"size,omitempty"`
	Aff    uint64 `json:"aff,omitempty"`
	Types  int    `json:"types,omitempty"`
	Strict bool   `json:"strict,omitempty"`
	Prio   int    `json:"prio,omitempty"`
	Offer  int    `json:"offer"`           // commit: index of the op that produced the offer
	Nodes  uint64 `json:"nodes,omitempty"` // realloc
	// twin only: the request object is created at op index Born (>=0) and used here
	Born int `json:"born,omitempty"`
}

type lmGen struct {
	Seed    int64  `json:"seed"`
	N       int    `json:"n"`
	Profile string `json:"profile"`
}

type lmScenario struct {
	Name     string   `json:"name"`
	Nodes    []lmNode `json:"nodes"`
	Ops      []lmOp   `json:"ops,omitempty"`
	Gen      *lmGen   `json:"gen,omitempty"`
	NoTwin   bool     `json:"notwin,omitempty"`
	Twin     string   `json:"twin,omitempty"` // offers | all | coin (default coin)
	TwinSeed int64    `json:"twin_seed,omitempty"`
}

type lmReqInfo struct {
	ID    int    `json:"id"`
	Types int    `json:"types"`
	Zone  uint64 `json:"zone"`
	Size  int64  `json:"size"`
	Prio  int    `json:"prio"`
}

type lmStep struct {
	I        int         `json:"i"`  // index in the history this step belongs to
	Op       lmOp        `json:"op"` // the operation as executed
	OK       bool        `json:"ok"`
	Skipped  string      `json:"skipped,omitempty"`
	ErrKind  string      `json:"errkind,omitempty"`
	Zone     uint64      `json:"zone"`
	Upd      [][2]uint64 `json:"upd"`      // returned updates, sorted by id
	Assigned [][3]uint64 `json:"assigned"` // (id, zone, ZoneType(zone)) of every id seen so far that is assigned
	Listing  []lmReqInfo `json:"listing"`  // ForeachRequest order
	Valid    [][2]int    `json:"valid"`    // (offer op index, IsValid) for every offer obtained so far
	Probes   [][4]int64  `json:"probes"`   // (mask, ZoneUsage, ZoneCapacity, ZoneFree)
}

type lmResult struct {
	Name      string   `json:"name"`
	Error     string   `json:"error,omitempty"`
	All       uint64   `json:"all"`
	Normal    uint64   `json:"normal"`
	HasMem    uint64   `json:"hasmem"`
	Types     int      `json:"types"`
	Ops       []lmOp   `json:"ops"`
	Steps     []lmStep `json:"steps"`
	TwinOps   []lmOp   `json:"twin_ops,omitempty"`
	TwinMap   []int    `json:"twin_map,omitempty"` // twin step k corresponds to original op TwinMap[k]
	TwinSteps []lmStep `json:"twin_steps,omitempty"`
	TwinCut   int      `json:"twin_cut"` // original op index at which the twin was cut (-1: complete)
}

var lmLastCreated int64

func lmID(id int) string { return "r" + strconv.Itoa(id) }

func lmParseID(s string) int {
	if len(s) > 1 && s[0] == 'r' {
		if n, err := strconv.Atoi(s[1:]); err == nil {
			return n
		}
	}
	return -1
}

// lmNewRequest creates a request whose creation time stamp is strictly larger than that of
// every request created before by this process.
func lmNewRequest(op lmOp) *Request {
	for {
		opts := []RequestOption{WithPriority(Priority(op.Prio))}
		if op.Strict {
			opts = append(opts, WithStrictTypes(TypeMask(op.Types)))
		} else {
			opts = append(opts, WithPreferredTypes(TypeMask(op.Types)))
		}
		r := NewRequest(lmID(op.ID), op.Size, NodeMask(op.Aff), opts...)
		if r.Created() > lmLastCreated {
			lmLastCreated = r.Created()
			return r
		}
	}
}

func lmErrKind(err error) string {
	switch {
	case err == nil:
		return ""
	case errors.Is(err, ErrExpiredOffer):
		return "expired"
	case errors.Is(err, ErrNoMem):
		return "nomem"
	case errors.Is(err, ErrAlreadyExists):
		return "exists"
	case errors.Is(err, ErrUnknownRequest):
		return "unknown"
	case errors.Is(err, ErrInvalidNode), errors.Is(err, ErrInvalidType), errors.Is(err, ErrInvalidNodeMask):
		return "invalid"
	}
	return "other"
}

type lmRun struct {
	a       *Allocator
	n       int
	offers  map[int]*Offer   // op index -> offer
	born    map[int]*Request // twin: op index -> request created there
	seen    map[int]bool
	offerIx []int
	steps   []lmStep
	probes  []NodeMask
}

func lmNewRun(sc *lmScenario) (*lmRun, error) {
	var nodes []*Node
	for id, n := range sc.Nodes {
		nd, err := NewNode(id, Type(n.Type), n.Cap, n.Normal, cpuset.New(n.CPUs...), n.Dist)
		if err != nil {
			return nil, err
		}
		nodes = append(nodes, nd)
	}
	a, err := NewAllocator(WithNodes(nodes))
	if err != nil {
		return nil, err
	}
	r := &lmRun{a: a, n: len(sc.Nodes), offers: map[int]*Offer{}, born: map[int]*Request{}, seen: map[int]bool{}}
	if r.n <= 6 {
		for m := 1; m < (1 << r.n); m++ {
			r.probes = append(r.probes, NodeMask(m))
		}
	}
	return r, nil
}

func lmSortedUpd(u map[string]NodeMask) [][2]uint64 {
	res := [][2]uint64{}
	for id, z := range u {
		res = append(res, [2]uint64{uint64(lmParseID(id)), uint64(z)})
	}
	sort.Slice(res, func(i, j int) bool { return res[i][0] < res[j][0] })
	return res
}

func (r *lmRun) observe(st *lmStep) {
	a := r.a
	ids := []int{}
	for id := range r.seen {
		ids = append(ids, id)
	}
	sort.Ints(ids)
	st.Assigned = [][3]uint64{}
	inuse := map[NodeMask]bool{}
	for _, id := range ids {
		if z, ok := a.AssignedZone(lmID(id)); ok {
			st.Assigned = append(st.Assigned, [3]uint64{uint64(id), uint64(z), uint64(a.ZoneType(z))})
			inuse[z] = true
		}
	}
	st.Listing = []lmReqInfo{}
	a.ForeachRequest(nil, func(q *Request) bool {
		st.Listing = append(st.Listing, lmReqInfo{ID: lmParseID(q.ID()), Types: int(q.Types()), Zone: uint64(q.Zone()),
			Size: q.Size(), Prio: int(q.Priority())})
		return true
	})
	st.Valid = [][2]int{}
	for _, ix := range r.offerIx {
		v := 0
		if r.offers[ix].IsValid() {
			v = 1
		}
		st.Valid = append(st.Valid, [2]int{ix, v})
	}
	probes := r.probes
	if probes == nil {
		// large layouts: in-use zones, pairwise unions, single nodes, all nodes
		set := map[NodeMask]bool{a.Masks().AvailableNodes(): true}
		zs := []NodeMask{}
		for z := range inuse {
			zs = append(zs, z)
		}
		for _, z := range zs {
			set[z] = true
			for _, y := range zs {
				set[z|y] = true
			}
		}
		for i := 0; i < r.n; i++ {
			set[NewNodeMask(i)] = true
		}
		for z := range set {
			probes = append(probes, z)
		}
		sort.Slice(probes, func(i, j int) bool { return probes[i] < probes[j] })
	}
	st.Probes = make([][4]int64, 0, len(probes))
	for _, z := range probes {
		st.Probes = append(st.Probes, [4]int64{int64(z), a.ZoneUsage(z), a.ZoneCapacity(z), a.ZoneFree(z)})
	}
}

// exec runs one operation (history index i) and records the observation.
func (r *lmRun) exec(i int, op lmOp) *lmStep {
	st := lmStep{I: i, Op: op, Upd: [][2]uint64{}}
	a := r.a
	var (
		zone NodeMask
		upd  map[string]NodeMask
		err  error
	)
	switch op.Op {
	case "alloc":
		r.seen[op.ID] = true
		req := r.born[op.Born-1]
		if op.Born == 0 {
			req = lmNewRequest(op)
		}
		zone, upd, err = a.Allocate(req)
	case "offer":
		r.seen[op.ID] = true
		var o *Offer
		o, err = a.GetOffer(lmNewRequest(op))
		if err == nil {
			r.offers[i] = o
			r.offerIx = append(r.offerIx, i)
			zone, upd = o.NodeMask(), o.Updates()
		}
	case "commit":
		o := r.offers[op.Offer]
		if o == nil {
			st.Skipped = "no-such-offer"
			break
		}
		if _, live := a.AssignedZone(lmID(op.ID)); live && o.IsValid() {
			// a still-valid offer for an id that became live in the meantime: committing it
			// would leave the request in two zones (consequence of F1); never executed
			st.Skipped = "valid-offer-for-live-id"
			break
		}
		zone, upd, err = o.Commit()
	case "realloc":
		zone, upd, err = a.Realloc(lmID(op.ID), NodeMask(op.Nodes), TypeMask(op.Types))
	case "release":
		err = a.Release(lmID(op.ID))
	default:
		st.Skipped = "unknown-op"
	}
	st.OK = err == nil && st.Skipped == ""
	st.ErrKind = lmErrKind(err)
	if st.OK {
		st.Zone = uint64(zone)
		st.Upd = lmSortedUpd(upd)
	}
	r.observe(&st)
	r.steps = append(r.steps, st)
	return &r.steps[len(r.steps)-1]
}

// ---------------------------------------------------------------- adaptive generator

type lmGenState struct {
	rng     *rand.Rand
	sc      *lmScenario
	run     *lmRun
	nextID  int
	live    map[int]bool
	dead    []int
	pending []int // op indices of offers obtained
	offerID map[int]int
	prof    string
}

var lmPrios = []int{0, 1 << 10, 1 << 14, (1 << 15) - 2, (1 << 15) - 1}

func (g *lmGenState) pickPrio() int {
	x := g.rng.Intn(100)
	switch {
	case x < 12:
		return lmPrios[0]
	case x < 50:
		return lmPrios[1]
	case x < 72:
		return lmPrios[2]
	case x < 82:
		return lmPrios[3]
	case x < 92:
		return lmPrios[4]
	}
	return []int{1, 5, 700, 1025, 5000, 20000, 32000}[g.rng.Intn(7)]
}

func (g *lmGenState) pickAff() uint64 {
	n := g.run.n
	x := g.rng.Intn(100)
	switch {
	case x < 2:
		return 0
	case x < 4:
		return uint64(1)<<uint(n) | uint64(1)<<uint(g.rng.Intn(n))
	case x < 55:
		return uint64(1) << uint(g.rng.Intn(n))
	case x < 85:
		return uint64(1)<<uint(g.rng.Intn(n)) | uint64(1)<<uint(g.rng.Intn(n))
	}
	m := uint64(g.rng.Intn(1<<uint(n)-1) + 1)
	return m
}

func (g *lmGenState) pickTypes() int {
	avail := int(g.run.a.Masks().AvailableTypes())
	x := g.rng.Intn(100)
	switch {
	case x < 45:
		return 0
	case x < 85:
		t := g.rng.Intn(8) & avail
		return t
	case x < 93:
		return avail
	}
	return g.rng.Intn(8)
}

func (g *lmGenState) pickSize(aff uint64) int64 {
	a := g.run.a
	free := a.ZoneFree(NodeMask(aff))
	capa := a.ZoneCapacity(NodeMask(aff))
	all := a.Masks().AvailableNodes()
	total, tf := a.ZoneCapacity(all), a.ZoneFree(all)
	if free < 0 {
		free = 0
	}
	x := g.rng.Intn(100)
	var s int64
	switch {
	case x < 3:
		s = 0
	case x < 45: // more than the affinity zone has, but the machine could hold it: overcommit resolution
		room := tf - free
		if room > capa {
			room = capa
		}
		if room < 1 {
			room = 1
		}
		s = free + 1 + int64(g.rng.Intn(int(room)))
	case x < 80: // fits the affinity zone
		if free > 0 {
			s = 1 + int64(g.rng.Intn(int(free)))
		} else {
			s = 1
		}
	case x < 86:
		s = capa
	case x < 90:
		s = tf + 1 + int64(g.rng.Intn(3))
	case x < 92:
		s = total + 1
	default:
		s = int64(g.rng.Intn(int(capa+2))) + 1
	}
	if s < 0 {
		s = int64(g.rng.Intn(4))
	}
	return s
}

func (g *lmGenState) newReqOp(kind string) lmOp {
	op := lmOp{Op: kind}
	x := g.rng.Intn(100)
	switch {
	case x < 5 && len(g.live) > 0:
		op.ID = g.anyLive()
	case x < 12 && len(g.dead) > 0:
		op.ID = g.dead[g.rng.Intn(len(g.dead))]
	default:
		g.nextID++
		op.ID = g.nextID
	}
	op.Aff = g.pickAff()
	op.Types = g.pickTypes()
	op.Strict = op.Types != 0 && g.rng.Intn(100) < 30 || g.rng.Intn(100) < 4
	op.Prio = g.pickPrio()
	op.Size = g.pickSize(op.Aff)
	return op
}

func (g *lmGenState) anyLive() int {
	ids := []int{}
	for id := range g.live {
		ids = append(ids, id)
	}
	sort.Ints(ids)
	return ids[g.rng.Intn(len(ids))]
}

func (g *lmGenState) next(i int) lmOp {
	all := g.run.a.Masks().AvailableNodes()
	full := g.run.a.ZoneFree(all)*4 < g.run.a.ZoneCapacity(all)
	for {
		x := g.rng.Intn(100)
		if full && len(g.live) > 0 && g.rng.Intn(100) < 40 {
			x = 99
		}
		switch {
		case x < 34:
			return g.newReqOp("alloc")
		case x < 54:
			return g.newReqOp("offer")
		case x < 68:
			if len(g.pending) == 0 {
				continue
			}
			var ix int
			if g.rng.Intn(100) < 60 {
				ix = g.pending[len(g.pending)-1]
			} else {
				ix = g.pending[g.rng.Intn(len(g.pending))]
			}
			return lmOp{Op: "commit", Offer: ix, ID: g.offerID[ix]}
		case x < 82:
			if len(g.live) == 0 {
				continue
			}
			op := lmOp{Op: "realloc", ID: g.anyLive()}
			y := g.rng.Intn(100)
			switch {
			case y < 40:
				op.Nodes = uint64(1) << uint(g.rng.Intn(g.run.n))
			case y < 55:
				op.Nodes = uint64(g.rng.Intn(1 << uint(g.run.n)))
			case y < 58:
				op.Nodes = uint64(1) << uint(g.run.n)
			}
			if y >= 30 {
				op.Types = []int{0, 0, 1, 2, 4, 3, 7, 5, 8}[g.rng.Intn(9)]
			}
			if g.rng.Intn(100) < 3 {
				op.ID = g.nextID + 1000
			}
			return op
		default:
			if len(g.live) == 0 {
				continue
			}
			op := lmOp{Op: "release", ID: g.anyLive()}
			if g.rng.Intn(100) < 4 {
				op.ID = g.nextID + 1000
			}
			return op
		}
	}
}

func (g *lmGenState) after(i int, op lmOp, st *lmStep) {
	g.live = map[int]bool{}
	for _, a := range st.Assigned {
		g.live[int(a[0])] = true
	}
	switch op.Op {
	case "offer":
		if st.OK {
			g.pending = append(g.pending, i)
			g.offerID[i] = op.ID
		}
	case "release":
		if st.OK {
			g.dead = append(g.dead, op.ID)
		}
	}
}

// ---------------------------------------------------------------- twin

// lmTwin derives the twin history.  No-op operations of the original run (operations that failed,
// offers that were never successfully committed) are erased according to mode:
//
//	"offers": uncommitted offers and refused commits are erased, other failed ops are kept
//	"all":    every no-op operation is erased
//	"coin":   each no-op operation is erased with probability 1/2 (seeded)
//
// Kept no-op operations are expected to behave exactly as in the original run.  An offer that is
// committed while still fresh becomes "create the request at the offer's position, Allocate it at
// the commit's position".  The twin is cut at the first successful commit of an offer that was
// not fresh (the original run is then expected to have refused it).
func lmTwin(ops []lmOp, steps []lmStep, mode string, seed int64) (twin []lmOp, tmap []int, cut int) {
	cut = -1
	rng := rand.New(rand.NewSource(seed))
	erase := func(kind string) bool {
		switch mode {
		case "all":
			return true
		case "coin":
			return rng.Intn(2) == 0
		}
		return kind == "offer" || kind == "commit"
	}
	committedAt := map[int]int{}
	for i, op := range ops {
		if op.Op == "commit" && steps[i].OK {
			committedAt[op.Offer] = i
		}
	}
	changes := 0
	offerChanges := map[int]int{}
	keptOffer := map[int]bool{}
	for i, op := range ops {
		st := steps[i]
		if st.Skipped != "" {
			continue
		}
		if !st.OK {
			if op.Op == "commit" && !keptOffer[op.Offer] {
				continue
			}
			if !erase(op.Op) {
				twin = append(twin, op)
				tmap = append(tmap, i)
			}
			continue
		}
		switch op.Op {
		case "offer":
			if _, ok := committedAt[i]; ok {
				offerChanges[i] = changes
				b := op
				b.Op = "born"
				twin = append(twin, b)
				tmap = append(tmap, i)
			} else if !erase("offer") {
				keptOffer[i] = true
				twin = append(twin, op)
				tmap = append(tmap, i)
			}
		case "commit":
			if offerChanges[op.Offer] != changes {
				cut = i
				return
			}
			o := ops[op.Offer]
			o.Op = "alloc"
			for k := range tmap {
				if tmap[k] == op.Offer {
					o.Born = k + 1
				}
			}
			twin = append(twin, o)
			tmap = append(tmap, i)
			changes++
		default:
			twin = append(twin, op)
			tmap = append(tmap, i)
			changes++
		}
	}
	return
}

// ---------------------------------------------------------------- driver

// lmProgress lets the watchdog report the operation that did not return.
type lmProgress struct {
	ops []lmOp
}

func lmRunScenario(sc *lmScenario, prog *lmProgress) (res lmResult) {
	res = lmResult{Name: sc.Name, TwinCut: -1, Ops: []lmOp{}, Steps: []lmStep{}}
	defer func() {
		if p := recover(); p != nil {
			res.Error = fmt.Sprintf("panic: %v", p)
		}
	}()
	run, err := lmNewRun(sc)
	if err != nil {
		res.Error = "setup: " + err.Error()
		return
	}
	m := run.a.Masks()
	res.All, res.Normal, res.HasMem, res.Types = uint64(m.AvailableNodes()), uint64(m.NodesWithNormalMem()), uint64(m.NodesWithMem()), int(m.AvailableTypes())
	ops := sc.Ops
	if sc.Gen != nil {
		g := &lmGenState{rng: rand.New(rand.NewSource(sc.Gen.Seed)), sc: sc, run: run, live: map[int]bool{}, offerID: map[int]int{}, prof: sc.Gen.Profile}
		ops = nil
		for i := 0; i < sc.Gen.N; i++ {
			op := g.next(i)
			prog.ops = append(prog.ops, op)
			st := run.exec(i, op)
			ops = append(ops, op)
			g.after(i, op, st)
		}
	} else {
		for i, op := range ops {
			prog.ops = append(prog.ops, op)
			run.exec(i, op)
		}
	}
	res.Ops, res.Steps = ops, run.steps
	if sc.NoTwin {
		return
	}
	mode := sc.Twin
	if mode == "" {
		mode = "coin"
	}
	tseed := sc.TwinSeed
	if sc.Gen != nil {
		tseed += sc.Gen.Seed
	}
	twin, tmap, cut := lmTwin(ops, run.steps, mode, tseed+int64(len(ops)))
	res.TwinOps, res.TwinMap, res.TwinCut = twin, tmap, cut
	trun, err := lmNewRun(sc)
	if err != nil {
		res.Error = "twin setup: " + err.Error()
		return
	}
	for k, op := range twin {
		if op.Op == "born" {
			trun.born[k] = lmNewRequest(op)
			continue
		}
		trun.exec(tmap[k], op)
	}
	res.TwinSteps = trun.steps
	if res.TwinSteps == nil {
		res.TwinSteps = []lmStep{}
	}
	return
}

func TestVerifLibmem(t *testing.T) {
	out := os.Getenv("VERIF_OUT")
	if out == "" {
		t.Skip("VERIF_OUT not set")
	}
	logger.SetLevel(logger.LevelError) // keep validateState's "internal error" messages, drop the rest
	in := os.Getenv("VERIF_LIBMEM_IN")
	if in == "" {
		in = "libmem_in.json"
	}
	data, err := os.ReadFile(filepath.Join(out, in))
	if err != nil {
		t.Fatal(err)
	}
	var scs []lmScenario
	if err := json.Unmarshal(data, &scs); err != nil {
		t.Fatal(err)
	}
	of := os.Getenv("VERIF_LIBMEM_OUT")
	if of == "" {
		of = "libmem_out.jsonl"
	}
	f, err := os.Create(filepath.Join(out, of))
	if err != nil {
		t.Fatal(err)
	}
	w := bufio.NewWriterSize(f, 1<<20)
	enc := json.NewEncoder(w)
	for i := range scs {
		// watchdog: an operation that does not return (overcommit resolution looping) is reported
		// with the history that led to it; the remaining scenarios are not run
		prog := &lmProgress{}
		done := make(chan lmResult, 1)
		go func(sc *lmScenario) { done <- lmRunScenario(sc, prog) }(&scs[i])
		var res lmResult
		stuck := false
		select {
		case res = <-done:
		case <-time.After(20 * time.Second):
			stuck = true
			res = lmResult{Name: scs[i].Name, Error: "timeout: operation did not return within 20s", TwinCut: -1,
				Ops: append([]lmOp{}, prog.ops...), Steps: []lmStep{}}
		}
		if err := enc.Encode(&res); err != nil {
			t.Fatal(err)
		}
		if stuck {
			break
		}
	}
	w.Flush()
	f.Close()
}
