//go:build verif

// Shared by all harnesses (copied into the target package by the driver, which rewrites
// the package clause).  Renders a machine description (JSON, produced by lib/machines.py,
// which is also the ground truth printed into the Coq case files) as a synthetic sysfs tree.
package PKGNAME

import (
	"encoding/json"
	"fmt"
	"os"
	"path/filepath"
	"sort"
	"strconv"
	"strings"
)

type VMCache struct {
	Level int    `json:"level"`
	Type  string `json:"type"`
	ID    int    `json:"id"`
	Cpus  []int  `json:"cpus"`
	Size  string `json:"size"`
}

type VMCPU struct {
	ID       int       `json:"id"`
	Online   bool      `json:"online"`
	Isolated bool      `json:"isolated"`
	Pkg      int       `json:"pkg"`
	Die      int       `json:"die"`
	Cluster  int       `json:"cluster"`
	Core     int       `json:"core"`
	Threads  []int     `json:"threads"`
	Node     int       `json:"node"`
	Kind     string    `json:"kind"` // "P" | "E"
	BaseFreq int       `json:"basefreq"`
	MinFreq  int       `json:"minfreq"`
	MaxFreq  int       `json:"maxfreq"`
	EPP      string    `json:"epp"`
	Caches   []VMCache `json:"caches"`
}

type VMNode struct {
	ID        int    `json:"id"`
	Cpus      []int  `json:"cpus"`
	Distance  []int  `json:"distance"`
	MemTotal  uint64 `json:"memtotal"` // kB
	MemFree   uint64 `json:"memfree"`  // kB
	Normal    bool   `json:"normal"`
	HasMemory bool   `json:"has_memory"`
}

type VMachine struct {
	Name   string   `json:"name"`
	CPUs   []VMCPU  `json:"cpus"`
	Nodes  []VMNode `json:"nodes"`
	Hybrid bool     `json:"hybrid"`
}

func vCpuList(ids []int) string {
	s := append([]int{}, ids...)
	sort.Ints(s)
	var parts []string
	for i := 0; i < len(s); {
		j := i
		for j+1 < len(s) && s[j+1] == s[j]+1 {
			j++
		}
		if j == i {
			parts = append(parts, strconv.Itoa(s[i]))
		} else {
			parts = append(parts, fmt.Sprintf("%d-%d", s[i], s[j]))
		}
		i = j + 1
	}
	return strings.Join(parts, ",")
}

func vWrite(path, content string) {
	if err := os.MkdirAll(filepath.Dir(path), 0o755); err != nil {
		panic(err)
	}
	if err := os.WriteFile(path, []byte(content+"\n"), 0o644); err != nil {
		panic(err)
	}
}

func VLoadMachine(path string) (*VMachine, error) {
	data, err := os.ReadFile(path)
	if err != nil {
		return nil, err
	}
	m := &VMachine{}
	if err := json.Unmarshal(data, m); err != nil {
		return nil, err
	}
	return m, nil
}

// VRenderSysfs writes <root>/sys/devices/system/{cpu,node}/... for the machine.
func VRenderSysfs(m *VMachine, root string) {
	sys := filepath.Join(root, "sys")
	cpuBase := filepath.Join(sys, "devices/system/cpu")
	nodeBase := filepath.Join(sys, "devices/system/node")
	var all, online, isolated, pcores, ecores []int
	for _, c := range m.CPUs {
		all = append(all, c.ID)
		if c.Online {
			online = append(online, c.ID)
			if c.Kind == "E" {
				ecores = append(ecores, c.ID)
			} else {
				pcores = append(pcores, c.ID)
			}
		}
		if c.Isolated {
			isolated = append(isolated, c.ID)
		}
	}
	vWrite(filepath.Join(cpuBase, "possible"), vCpuList(all))
	vWrite(filepath.Join(cpuBase, "present"), vCpuList(all))
	vWrite(filepath.Join(cpuBase, "online"), vCpuList(online))
	vWrite(filepath.Join(cpuBase, "isolated"), vCpuList(isolated))
	if m.Hybrid {
		vWrite(filepath.Join(sys, "devices/cpu_core/cpus"), vCpuList(pcores))
		vWrite(filepath.Join(sys, "devices/cpu_atom/cpus"), vCpuList(ecores))
	}
	for _, c := range m.CPUs {
		d := filepath.Join(cpuBase, fmt.Sprintf("cpu%d", c.ID))
		os.MkdirAll(filepath.Join(d, fmt.Sprintf("node%d", c.Node)), 0o755)
		if c.Online {
			vWrite(filepath.Join(d, "topology/physical_package_id"), strconv.Itoa(c.Pkg))
			vWrite(filepath.Join(d, "topology/die_id"), strconv.Itoa(c.Die))
			vWrite(filepath.Join(d, "topology/cluster_id"), strconv.Itoa(c.Cluster))
			vWrite(filepath.Join(d, "topology/core_id"), strconv.Itoa(c.Core))
			vWrite(filepath.Join(d, "topology/core_cpus_list"), vCpuList(c.Threads))
			vWrite(filepath.Join(d, "topology/thread_siblings_list"), vCpuList(c.Threads))
			vWrite(filepath.Join(d, "online"), "1")
		} else {
			vWrite(filepath.Join(d, "online"), "0")
		}
		if c.BaseFreq > 0 {
			vWrite(filepath.Join(d, "cpufreq/base_frequency"), strconv.Itoa(c.BaseFreq))
		}
		if c.MaxFreq > 0 {
			vWrite(filepath.Join(d, "cpufreq/cpuinfo_min_freq"), strconv.Itoa(c.MinFreq))
			vWrite(filepath.Join(d, "cpufreq/cpuinfo_max_freq"), strconv.Itoa(c.MaxFreq))
		}
		if c.EPP != "" {
			vWrite(filepath.Join(d, "cpufreq/energy_performance_preference"), c.EPP)
		}
		if c.Online {
			for i, ca := range c.Caches {
				cd := filepath.Join(d, fmt.Sprintf("cache/index%d", i))
				vWrite(filepath.Join(cd, "id"), strconv.Itoa(ca.ID))
				vWrite(filepath.Join(cd, "level"), strconv.Itoa(ca.Level))
				vWrite(filepath.Join(cd, "type"), ca.Type)
				vWrite(filepath.Join(cd, "shared_cpu_list"), vCpuList(ca.Cpus))
				vWrite(filepath.Join(cd, "size"), ca.Size)
			}
		}
	}
	var nodeIDs, normal, hasMem []int
	for _, n := range m.Nodes {
		nodeIDs = append(nodeIDs, n.ID)
		if n.Normal {
			normal = append(normal, n.ID)
		}
		if n.HasMemory {
			hasMem = append(hasMem, n.ID)
		}
	}
	vWrite(filepath.Join(nodeBase, "online"), vCpuList(nodeIDs))
	vWrite(filepath.Join(nodeBase, "possible"), vCpuList(nodeIDs))
	vWrite(filepath.Join(nodeBase, "has_normal_memory"), vCpuList(normal))
	vWrite(filepath.Join(nodeBase, "has_memory"), vCpuList(hasMem))
	var withCpu []int
	for _, n := range m.Nodes {
		if len(n.Cpus) > 0 {
			withCpu = append(withCpu, n.ID)
		}
	}
	vWrite(filepath.Join(nodeBase, "has_cpu"), vCpuList(withCpu))
	for _, n := range m.Nodes {
		d := filepath.Join(nodeBase, fmt.Sprintf("node%d", n.ID))
		vWrite(filepath.Join(d, "cpulist"), vCpuList(n.Cpus))
		var ds []string
		for _, x := range n.Distance {
			ds = append(ds, strconv.Itoa(x))
		}
		vWrite(filepath.Join(d, "distance"), strings.Join(ds, " "))
		vWrite(filepath.Join(d, "meminfo"), fmt.Sprintf(
			"Node %d MemTotal:       %d kB\nNode %d MemFree:        %d kB\nNode %d MemUsed:        %d kB",
			n.ID, n.MemTotal, n.ID, n.MemFree, n.ID, n.MemTotal-n.MemFree))
		for _, c := range n.Cpus {
			os.Symlink(filepath.Join(cpuBase, fmt.Sprintf("cpu%d", c)), filepath.Join(d, fmt.Sprintf("cpu%d", c)))
		}
	}
}
