//go:build verif

// C19 harness (2/2): the real balloons policy is set up (Setup -> setConfig ->
// fillBuiltinBalloonDefs/validateConfig) on a synthetic sysfs for every generated
// configuration, and the real chooseBalloonDef is asked for every real cache container.
// Input: $VERIF_OUT/c19_bln_in.json (+ machine.json), output: $VERIF_OUT/c19_bln_out.jsonl.
package balloons

import (
	"bufio"
	"encoding/json"
	"fmt"
	"os"
	"path/filepath"
	"testing"

	"sigs.k8s.io/yaml"

	resmgr "github.com/containers/nri-plugins/pkg/apis/resmgr/v1alpha1"
	"github.com/containers/nri-plugins/pkg/resmgr/cache"
	policyapi "github.com/containers/nri-plugins/pkg/resmgr/policy"
	system "github.com/containers/nri-plugins/pkg/sysfs"
)

type v19BlnIn struct {
	Configs    []json.RawMessage `json:"configs"` // balloons Config as JSON
	Containers []v19Subject      `json:"containers"`
	Land       bool              `json:"land"` // also allocate and observe the balloon
}

type v19DefOut struct {
	Name       string   `json:"name"`
	Namespaces []string `json:"namespaces"`
	NExpr      int      `json:"nexpr"`
}

func v19Choose(p *balloons, c cache.Container) (name string, res string) {
	defer func() {
		if r := recover(); r != nil {
			res = "panic"
		}
	}()
	def, err := p.chooseBalloonDef(c)
	if err != nil {
		return "", "err"
	}
	if def == nil {
		return "", "nil"
	}
	return def.Name, "ok"
}

func v19AnyExpr(def *BalloonDef, c cache.Container) (res string) {
	defer func() {
		if r := recover(); r != nil {
			res = "P"
		}
	}()
	for i := range def.MatchExpressions {
		if def.MatchExpressions[i].Evaluate(c) {
			return "T"
		}
	}
	return "F"
}

func v19Land(p *balloons, c cache.Container) (res string) {
	defer func() {
		if r := recover(); r != nil {
			res = "!panic"
		}
	}()
	if err := p.AllocateResources(c); err != nil {
		return "!err"
	}
	bln := p.balloonByContainer(c)
	if bln == nil {
		return "!none"
	}
	name := bln.Def.Name
	if err := p.ReleaseResources(c); err != nil {
		return "!release"
	}
	return name
}

func TestVerifC19Balloons(t *testing.T) {
	out := os.Getenv("VERIF_OUT")
	if out == "" {
		t.Skip("VERIF_OUT not set")
	}
	data, err := os.ReadFile(filepath.Join(out, "c19_bln_in.json"))
	if err != nil {
		t.Fatal(err)
	}
	var in v19BlnIn
	if err := json.Unmarshal(data, &in); err != nil {
		t.Fatal(err)
	}
	dir := t.TempDir()
	mach, err := VLoadMachine(filepath.Join(out, "machine.json"))
	if err != nil {
		t.Fatal(err)
	}
	VRenderSysfs(mach, dir)
	system.SetSysRoot(dir)
	sys, err := system.DiscoverSystem()
	if err != nil {
		t.Fatal(err)
	}
	cch, err := cache.NewCache(cache.Options{CacheDir: filepath.Join(dir, "state")})
	if err != nil {
		t.Fatal(err)
	}

	f, err := os.Create(filepath.Join(out, "c19_bln_out.jsonl"))
	if err != nil {
		t.Fatal(err)
	}
	defer f.Close()
	w := bufio.NewWriterSize(f, 1<<20)
	defer w.Flush()
	enc := json.NewEncoder(w)

	ctrs := make([]cache.Container, len(in.Containers))
	for i := range in.Containers {
		_, c, err := v19InsertReal(cch, i, &in.Containers[i])
		if err != nil {
			t.Fatal(err)
		}
		ctrs[i] = c
		ann, annOK := c.GetEffectiveAnnotation(balloonKey)
		enc.Encode(map[string]interface{}{"type": "ctr", "c": i, "obj": v19Probe(c, 2), "ns": c.GetNamespace(),
			"name": c.GetName(), "ann": ann, "ann_ok": annOK, "key": balloonKey})
	}

	for k, raw := range in.Configs {
		opts := &BalloonsOptions{}
		rec := map[string]interface{}{"type": "cfg", "k": k}
		if err := yaml.Unmarshal(raw, opts); err != nil {
			rec["parse_err"] = err.Error()
			enc.Encode(rec)
			continue
		}
		// the agent validates a configuration before handing it to the policy
		validErr := opts.Validate()
		rec["validate_ok"] = validErr == nil
		if validErr != nil {
			enc.Encode(rec)
			continue
		}
		p := New().(*balloons)
		var setupErr error
		func() {
			defer func() {
				if r := recover(); r != nil {
					setupErr = fmt.Errorf("panic: %v", r)
				}
			}()
			setupErr = p.Setup(&policyapi.BackendOptions{System: sys, Cache: cch, Config: opts,
				SendEvent: func(interface{}) error { return nil }})
		}()
		rec["setup_ok"] = setupErr == nil
		if setupErr != nil {
			rec["setup_err"] = setupErr.Error()
			enc.Encode(rec)
			continue
		}
		defs := []v19DefOut{}
		for _, d := range p.bpoptions.BalloonDefs {
			defs = append(defs, v19DefOut{Name: d.Name, Namespaces: d.Namespaces, NExpr: len(d.MatchExpressions)})
		}
		rec["defs"] = defs
		rec["default"] = p.defaultBalloonDef.Name
		rec["reserved"] = p.reservedBalloonDef.Name
		enc.Encode(rec)
		for i, c := range ctrs {
			name, res := v19Choose(p, c)
			em := make([]string, len(p.bpoptions.BalloonDefs))
			for j, d := range p.bpoptions.BalloonDefs {
				em[j] = v19AnyExpr(d, c)
			}
			r := map[string]interface{}{"type": "choice", "k": k, "c": i, "res": res, "name": name, "exprmatch": em}
			if in.Land {
				r["landed"] = v19Land(p, c)
			}
			enc.Encode(r)
		}
	}
	_ = resmgr.AlwaysTrue
}
