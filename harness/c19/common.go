//go:build verif

// C19 harness, shared part (copied into each target package by checks/c19.py, which rewrites
// the package clause): subject descriptions, fake Evaluables, probing of real cache objects.
package PKGNAME

import (
	"errors"
	"fmt"
	"sort"

	nri "github.com/containerd/nri/pkg/api"

	resmgr "github.com/containers/nri-plugins/pkg/apis/resmgr/v1alpha1"
	"github.com/containers/nri-plugins/pkg/resmgr/cache"
)

// ---- subject descriptions (shared format for fake input and probed real subjects)

type v19Val struct {
	T string            `json:"t"`           // str | map | nilmap | obj | err | nil | named | int
	S string            `json:"s,omitempty"` // str, named
	M map[string]string `json:"m,omitempty"` // map
	O *v19ObjDesc       `json:"o,omitempty"` // obj
}

type v19ObjDesc struct {
	Fields  map[string]v19Val `json:"fields"`
	Default v19Val            `json:"default"`
}

type v19Named string

type v19Obj struct {
	fields map[string]interface{}
	dflt   interface{}
}

func (o *v19Obj) EvalKey(k string) interface{} {
	if v, ok := o.fields[k]; ok {
		return v
	}
	return o.dflt
}
func (o *v19Obj) EvalRef(k string) (string, bool) { return resmgr.KeyValue(k, o) }
func (o *v19Obj) String() string                  { return "<fake>" }

func v19Build(v v19Val) interface{} {
	switch v.T {
	case "str":
		return v.S
	case "map":
		m := map[string]string{}
		for k, x := range v.M {
			m[k] = x
		}
		return m
	case "nilmap":
		return map[string]string(nil)
	case "obj":
		o := &v19Obj{fields: map[string]interface{}{}}
		for k, x := range v.O.Fields {
			o.fields[k] = v19Build(x)
		}
		o.dflt = v19Build(v.O.Default)
		return o
	case "err":
		return errors.New("verif: no such key")
	case "nil":
		return nil
	case "named":
		return v19Named(v.S)
	case "int":
		return 42
	}
	panic("bad value type " + v.T)
}

var v19ProbeKeys = []string{"id", "uid", "name", "namespace", "qosclass", "labels", "tags", "pod", "", ".", "zz-unprobed"}

// v19Probe observes what an Evaluable's EvalKey returns (depth-limited)
func v19Probe(e resmgr.Evaluable, depth int) *v19ObjDesc {
	d := &v19ObjDesc{Fields: map[string]v19Val{}}
	for _, k := range v19ProbeKeys {
		val := v19Classify(e.EvalKey(k), depth)
		if k == "zz-unprobed" {
			d.Default = val
		} else {
			d.Fields[k] = val
		}
	}
	return d
}

func v19Classify(x interface{}, depth int) v19Val {
	switch v := x.(type) {
	case resmgr.Evaluable:
		if depth <= 0 {
			return v19Val{T: "int"}
		}
		return v19Val{T: "obj", O: v19Probe(v, depth-1)}
	case map[string]string:
		m := map[string]string{}
		for k, s := range v {
			m[k] = s
		}
		return v19Val{T: "map", M: m}
	case error:
		return v19Val{T: "err"}
	case string:
		return v19Val{T: "str", S: v}
	case nil:
		return v19Val{T: "nil"}
	default:
		return v19Val{T: "named", S: fmt.Sprint(v)}
	}
}

type v19RealPod struct {
	Name        string            `json:"name"`
	Namespace   string            `json:"namespace"`
	UID         string            `json:"uid"`
	Labels      map[string]string `json:"labels"`
	Annotations map[string]string `json:"annotations"`
	Cgroup      string            `json:"cgroup"`
}

type v19RealCtr struct {
	Name   string            `json:"name"`
	Labels map[string]string `json:"labels"`
	Tags   map[string]string `json:"tags"`
}

type v19Subject struct {
	Kind string      `json:"kind"` // fake | real | realpod
	Obj  *v19ObjDesc `json:"obj,omitempty"`
	Pod  *v19RealPod `json:"pod,omitempty"`
	Ctr  *v19RealCtr `json:"ctr,omitempty"`
}

// v19InsertReal creates a real cache pod (and container) for a subject description.
func v19InsertReal(cch cache.Cache, i int, s *v19Subject) (cache.Pod, cache.Container, error) {
	podID := fmt.Sprintf("pod%04d", i)
	pod := cch.InsertPod(&nri.PodSandbox{
		Id: podID, Uid: s.Pod.UID, Name: s.Pod.Name, Namespace: s.Pod.Namespace,
		Labels: s.Pod.Labels, Annotations: s.Pod.Annotations,
		Linux: &nri.LinuxPodSandbox{CgroupParent: s.Pod.Cgroup},
	}, nil)
	if s.Kind == "realpod" {
		return pod, nil, nil
	}
	c, err := cch.InsertContainer(&nri.Container{
		Id: fmt.Sprintf("ctr%04d", i), PodSandboxId: podID, Name: s.Ctr.Name,
		Labels: s.Ctr.Labels, State: cache.ContainerStateCreating,
	})
	if err != nil {
		return nil, nil, err
	}
	keys := []string{}
	for k := range s.Ctr.Tags {
		keys = append(keys, k)
	}
	sort.Strings(keys)
	for _, k := range keys {
		c.SetTag(k, s.Ctr.Tags[k])
	}
	return pod, c, nil
}
