//go:build verif

// C19 harness (1/2): runs the real Expression.Validate / Evaluate / KeyValue on generated
// expressions x subjects (fake Evaluables and real cache pods/containers) and the real
// affinity annotation parser (weights).  Input: $VERIF_OUT/c19_expr_in.json, output:
// $VERIF_OUT/c19_expr_out.jsonl.  Injected into pkg/resmgr/cache as an external test.
package cache_test

import (
	"bufio"
	"encoding/json"
	"fmt"
	"os"
	"path/filepath"
	"strings"
	"testing"

	nri "github.com/containerd/nri/pkg/api"

	resmgr "github.com/containers/nri-plugins/pkg/apis/resmgr/v1alpha1"
	"github.com/containers/nri-plugins/pkg/resmgr/cache"
)

type v19Expr struct {
	Key    string   `json:"key"`
	Op     string   `json:"op"`
	Values []string `json:"values"`
}

type v19Weights struct {
	Anti    bool    `json:"anti"`
	Weights []int64 `json:"weights"`
}

type v19In struct {
	Subjects []v19Subject `json:"subjects"`
	Exprs    []v19Expr    `json:"exprs"`
	Weights  []v19Weights `json:"weights"`
}

func v19Eval(e *resmgr.Expression, s resmgr.Evaluable) (res string) {
	defer func() {
		if r := recover(); r != nil {
			res = "P"
		}
	}()
	if e.Evaluate(s) {
		return "T"
	}
	return "F"
}

func v19KV(key string, s resmgr.Evaluable) (val string, ok bool, panicked bool) {
	defer func() {
		if r := recover(); r != nil {
			panicked = true
		}
	}()
	val, ok = resmgr.KeyValue(key, s)
	return
}

func v19Validate(e *resmgr.Expression) (res string) {
	defer func() {
		if r := recover(); r != nil {
			res = "P"
		}
	}()
	if e.Validate() == nil {
		return "T"
	}
	return "F"
}

func TestVerifC19Expr(t *testing.T) {
	out := os.Getenv("VERIF_OUT")
	if out == "" {
		t.Skip("VERIF_OUT not set")
	}
	data, err := os.ReadFile(filepath.Join(out, "c19_expr_in.json"))
	if err != nil {
		t.Fatal(err)
	}
	var in v19In
	if err := json.Unmarshal(data, &in); err != nil {
		t.Fatal(err)
	}
	f, err := os.Create(filepath.Join(out, "c19_expr_out.jsonl"))
	if err != nil {
		t.Fatal(err)
	}
	defer f.Close()
	w := bufio.NewWriterSize(f, 1<<20)
	defer w.Flush()
	enc := json.NewEncoder(w)

	cch, err := cache.NewCache(cache.Options{CacheDir: t.TempDir()})
	if err != nil {
		t.Fatal(err)
	}

	subjects := make([]resmgr.Evaluable, len(in.Subjects))
	for i, s := range in.Subjects {
		switch s.Kind {
		case "fake":
			subjects[i] = v19Build(v19Val{T: "obj", O: s.Obj}).(*v19Obj)
		case "real", "realpod":
			pod, c, err := v19InsertReal(cch, i, &in.Subjects[i])
			if err != nil {
				t.Fatal(err)
			}
			if s.Kind == "realpod" {
				subjects[i] = pod
			} else {
				subjects[i] = c
			}
			// what the real object's EvalKey hands out is observed, not assumed
			enc.Encode(map[string]interface{}{"type": "probe", "s": i, "obj": v19Probe(subjects[i], 2)})
		default:
			t.Fatalf("bad subject kind %q", s.Kind)
		}
	}

	// Validate(nil) must report an error, not panic
	enc.Encode(map[string]interface{}{"type": "nil", "valid": v19Validate(nil)})

	for j, x := range in.Exprs {
		e := &resmgr.Expression{Key: x.Key, Op: resmgr.Operator(x.Op), Values: x.Values}
		valid := v19Validate(e)
		for i, s := range subjects {
			val, ok, kp := v19KV(x.Key, s)
			// EvalRef of real objects must agree with KeyValue
			rv, rok := val, ok
			if !kp && in.Subjects[i].Kind != "fake" {
				rv, rok = s.EvalRef(x.Key)
			}
			enc.Encode(map[string]interface{}{"type": "case", "s": i, "e": j, "valid": valid, "eval": v19Eval(e, s),
				"val": val, "ok": ok, "kvpanic": kp, "refsame": rv == val && rok == ok})
		}
	}

	// affinity weights through the real annotation parser
	for k, wc := range in.Weights {
		var sb strings.Builder
		sb.WriteString("c0:\n")
		for _, wt := range wc.Weights {
			fmt.Fprintf(&sb, "  - match:\n      key: name\n      operator: Exists\n    weight: %d\n", wt)
		}
		key := "resource-policy.nri.io/affinity"
		if wc.Anti {
			key = "resource-policy.nri.io/anti-affinity"
		}
		podID := fmt.Sprintf("wpod%04d", k)
		pod := cch.InsertPod(&nri.PodSandbox{Id: podID, Uid: "u" + podID, Name: podID, Namespace: "default",
			Annotations: map[string]string{key: sb.String()},
			Linux:       &nri.LinuxPodSandbox{CgroupParent: "/kubepods/burstable/pod" + podID}}, nil)
		c, err := cch.InsertContainer(&nri.Container{Id: "w" + podID, PodSandboxId: podID, Name: "c0", State: cache.ContainerStateCreating})
		if err != nil {
			t.Fatal(err)
		}
		rec := map[string]interface{}{"type": "weights", "k": k}
		func() {
			defer func() {
				if r := recover(); r != nil {
					rec["panic"] = fmt.Sprint(r)
				}
			}()
			affs, err := pod.GetContainerAffinity("c0")
			if err != nil {
				rec["err"] = true
				return
			}
			ws := []int64{}
			for _, a := range affs {
				ws = append(ws, int64(a.Weight))
			}
			rec["obs"] = ws
			// the container's view (adds implicit affinities, none are registered here)
			affs2, err := c.GetAffinity()
			ws2 := []int64{}
			if err == nil {
				for _, a := range affs2 {
					ws2 = append(ws2, int64(a.Weight))
				}
			}
			rec["obs_ctr"] = ws2
		}()
		enc.Encode(rec)
	}
}
