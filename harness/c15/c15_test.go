//go:build verif

// C15 harness: a real resmgr (topology-aware policy, synthetic sysfs, temp state dir, recording
// stub) whose NRI handlers, reconfigure and the pod-resource fetch are driven from several
// goroutines.  Built with -race by the driver; the race detector's log ($VERIF_OUT/race.*) is
// the observation, this file additionally records per-phase completion (deadlock watchdog),
// panics, the visibility of asynchronously fetched pod resources and a quiescence check.
//
// Parameters (env): VERIF_OUT (dir with machine.json), VERIF_SEED, VERIF_C15_N (goroutines),
// VERIF_C15_ITERS (lifecycles per goroutine), VERIF_C15_PHASES (comma list), VERIF_C15_BUDGET_S.
package resmgr

import (
	"context"
	"encoding/json"
	"fmt"
	"math/rand"
	"os"
	"path/filepath"
	"runtime"
	"strconv"
	"strings"
	"sync"
	"sync/atomic"
	"testing"
	"time"

	"github.com/containerd/nri/pkg/api"
	tapolicy "github.com/containers/nri-plugins/cmd/plugins/topology-aware/policy"
	"github.com/containers/nri-plugins/pkg/agent"
	"github.com/containers/nri-plugins/pkg/agent/podresapi"
	cfgapi "github.com/containers/nri-plugins/pkg/apis/config/v1alpha1"
	policyapi "github.com/containers/nri-plugins/pkg/apis/config/v1alpha1/resmgr/policy"
	instmetrics "github.com/containers/nri-plugins/pkg/instrumentation/metrics"
	"github.com/containers/nri-plugins/pkg/sysfs"
	metav1 "k8s.io/apimachinery/pkg/apis/meta/v1"
	podresv1 "k8s.io/kubelet/pkg/apis/podresources/v1"
)

type c15Stub struct {
	sync.Mutex
	updates int
}

func (s *c15Stub) Run(context.Context) error   { return nil }
func (s *c15Stub) Start(context.Context) error { return nil }
func (s *c15Stub) Stop()                       {}
func (s *c15Stub) Wait()                       {}
func (s *c15Stub) UpdateContainers(u []*api.ContainerUpdate) ([]*api.ContainerUpdate, error) {
	s.Lock()
	s.updates += len(u)
	s.Unlock()
	return nil, nil
}

// c15Config: metrics=true makes instrumentation create the metrics gatherer (no collectors
// enabled), so that metrics.Block() in the handlers takes a real second mutex: a handler that
// takes it before the pipeline lock then deadlocks against the others.
func c15Config(gen int64, metrics ...bool) *cfgapi.TopologyAwarePolicy {
	cfg := &cfgapi.TopologyAwarePolicy{}
	cfg.ObjectMeta = metav1.ObjectMeta{Name: "default", Generation: gen}
	cfg.Spec.Config.ReservedResources = policyapi.Constraints{policyapi.CPU: "750m"}
	cfg.Spec.Instrumentation.PrometheusExport = len(metrics) > 0 && metrics[0]
	return cfg
}

// c15New builds a fresh resource manager instance on its own state directory.
func c15New(t *testing.T, root string, tag string) *resmgr {
	opt.StateDir = filepath.Join(root, "state-"+tag)
	if err := os.MkdirAll(opt.StateDir, 0o755); err != nil {
		t.Fatal(err)
	}
	agt, err := agent.New(agent.TopologyAwareConfigInterface(), agent.WithConfigFile("/nonexistent"))
	if err != nil {
		t.Fatal(err)
	}
	m := &resmgr{agent: agt}
	if err := m.setupCache(); err != nil {
		t.Fatal(err)
	}
	m.nri, _ = newNRIPlugin(m)
	if err := m.setupPolicy(tapolicy.New()); err != nil {
		t.Fatal(err)
	}
	if err := m.setupEventProcessing(); err != nil {
		t.Fatal(err)
	}
	if err := m.setupControllers(); err != nil {
		t.Fatal(err)
	}
	cfg := c15Config(1)
	m.cfg = cfg
	if err := m.policy.Start(cfg.PolicyConfig()); err != nil {
		t.Fatalf("policy start: %v", err)
	}
	m.running = true
	m.nri.stub = &c15Stub{}
	return m
}

func c15Pod(id string, qos string) *api.PodSandbox {
	parent := "/kubepods/pod" + id
	switch qos {
	case "besteffort":
		parent = "/kubepods/besteffort/pod" + id
	case "burstable":
		parent = "/kubepods/burstable/pod" + id
	}
	return &api.PodSandbox{
		Id: id, Name: "pod-" + id, Uid: "uid-" + id, Namespace: "default",
		Linux: &api.LinuxPodSandbox{CgroupParent: parent},
	}
}

func c15Ctr(id, pod string, milli int64, guaranteed bool) *api.Container {
	shares := uint64(milli * 1024 / 1000)
	if shares < 2 {
		shares = 2
	}
	res := &api.LinuxResources{
		Cpu:    &api.LinuxCPU{Shares: &api.OptionalUInt64{Value: shares}},
		Memory: &api.LinuxMemory{},
	}
	adj := int64(998)
	if guaranteed {
		res.Cpu.Quota = &api.OptionalInt64{Value: milli * 100}
		res.Cpu.Period = &api.OptionalUInt64{Value: 100000}
		res.Memory.Limit = &api.OptionalInt64{Value: 64 << 20}
		adj = -997
	}
	return &api.Container{
		Id: id, PodSandboxId: pod, Name: "ctr-" + id, State: api.ContainerState_CONTAINER_CREATED,
		Linux: &api.LinuxContainer{Resources: res, OomScoreAdj: &api.OptionalInt{Value: adj}},
	}
}

type c15Phase struct {
	Name       string         `json:"name"`
	Goroutines int            `json:"goroutines"`
	Calls      map[string]int `json:"calls"`
	Errors     map[string]int `json:"errors"`
	Panics     map[string]int `json:"panics"`
	Completed  bool           `json:"completed"`
	MaxCallMs  int64          `json:"max_call_ms"`
	WallMs     int64          `json:"wall_ms"`
	Stuck      string         `json:"stuck,omitempty"`
	// fetch phase
	FetchReads   int `json:"fetch_reads,omitempty"`
	FetchStale   int `json:"fetch_stale,omitempty"`
	FetchBlocked int `json:"fetch_blocked,omitempty"`
	// quiescence
	PodsLeft       int    `json:"pods_left"`
	ContainersLeft int    `json:"containers_left"`
	PostLifecycle  string `json:"post_lifecycle,omitempty"`
	// is metrics.Block() a real mutex in this phase (metrics gatherer present)?
	Gatherer bool `json:"gatherer"`
}

type c15Rec struct {
	sync.Mutex
	ph    *c15Phase
	maxNs int64
	dead  bool // the phase was abandoned (deadlock watchdog): stop recording
}

func (r *c15Rec) call(name string, f func() error) {
	t0 := time.Now()
	var err error
	func() {
		defer func() {
			if x := recover(); x != nil {
				r.Lock()
				if !r.dead {
					r.ph.Panics[name]++
				}
				r.Unlock()
			}
		}()
		err = f()
	}()
	d := time.Since(t0).Nanoseconds()
	for {
		old := atomic.LoadInt64(&r.maxNs)
		if d <= old || atomic.CompareAndSwapInt64(&r.maxNs, old, d) {
			break
		}
	}
	r.Lock()
	if !r.dead {
		r.ph.Calls[name]++
		if err != nil {
			r.ph.Errors[name]++
		}
	}
	r.Unlock()
}

// one complete pod lifecycle through the real handlers
func c15Lifecycle(m *resmgr, r *c15Rec, rng *rand.Rand, tag string, short bool) {
	ctx := context.Background()
	p := m.nri
	qos := []string{"guaranteed", "burstable", "besteffort"}[rng.Intn(3)]
	pod := c15Pod(tag, qos)
	r.call("RunPodSandbox", func() error { return p.RunPodSandbox(ctx, pod) })
	var ctrs []*api.Container
	nc := 1 + rng.Intn(2)
	for k := 0; k < nc; k++ {
		milli := int64(100 + 100*rng.Intn(4))
		g := qos == "guaranteed"
		if g && rng.Intn(2) == 0 {
			milli = 1000
		}
		if qos == "besteffort" {
			milli = 0
		}
		c := c15Ctr(fmt.Sprintf("%s-c%d", tag, k), tag, milli, g)
		ctrs = append(ctrs, c)
		r.call("CreateContainer", func() error { _, _, e := p.CreateContainer(ctx, pod, c); return e })
		r.call("StartContainer", func() error { return p.StartContainer(ctx, pod, c) })
	}
	if !short {
		for _, c := range ctrs {
			c := c
			res := c15Ctr("x", tag, int64(200+100*rng.Intn(3)), false).Linux.Resources
			r.call("UpdateContainer", func() error { _, e := p.UpdateContainer(ctx, pod, c, res); return e })
		}
	}
	for _, c := range ctrs {
		c := c
		r.call("StopContainer", func() error { _, e := p.StopContainer(ctx, pod, c); return e })
	}
	r.call("StopPodSandbox", func() error { return p.StopPodSandbox(ctx, pod) })
	for _, c := range ctrs {
		c := c
		r.call("RemoveContainer", func() error { return p.RemoveContainer(ctx, pod, c) })
	}
	r.call("RemovePodSandbox", func() error { return p.RemovePodSandbox(ctx, pod) })
}

func c15NewPhase(name string, n int) *c15Phase {
	return &c15Phase{Name: name, Goroutines: n, Calls: map[string]int{}, Errors: map[string]int{}, Panics: map[string]int{}}
}

// run fs concurrently; watchdog: everything must complete within budget.
func c15RunAll(ph *c15Phase, r *c15Rec, budget time.Duration, fs []func()) {
	t0 := time.Now()
	var wg sync.WaitGroup
	start := make(chan struct{})
	for _, f := range fs {
		wg.Add(1)
		f := f
		go func() {
			defer wg.Done()
			<-start
			f()
		}()
	}
	done := make(chan struct{})
	go func() { wg.Wait(); close(done) }()
	close(start)
	select {
	case <-done:
		ph.Completed = true
	case <-time.After(budget):
		r.Lock()
		r.dead = true
		r.Unlock()
		buf := make([]byte, 1<<20)
		n := runtime.Stack(buf, true)
		s := string(buf[:n])
		if len(s) > 20000 {
			s = s[:20000]
		}
		ph.Stuck = s
	}
	ph.WallMs = time.Since(t0).Milliseconds()
	ph.MaxCallMs = atomic.LoadInt64(&r.maxNs) / 1e6
}

func c15Quiesce(m *resmgr, ph *c15Phase, r *c15Rec, budget time.Duration) {
	done := make(chan struct{})
	go func() { defer close(done); c15QuiesceLocked(m, ph, r) }()
	select {
	case <-done:
	case <-time.After(budget):
		r.Lock()
		r.dead = true
		r.Unlock()
		ph.Completed = false
		ph.Stuck = "quiescence check did not complete"
	}
}

func c15QuiesceLocked(m *resmgr, ph *c15Phase, r *c15Rec) {
	ph.PodsLeft = len(m.cache.GetPods())
	ph.ContainersLeft = len(m.cache.GetContainers())
	before := 0
	for _, v := range ph.Errors {
		before += v
	}
	c15Lifecycle(m, r, rand.New(rand.NewSource(7)), "post-"+ph.Name, false)
	after := 0
	for _, v := range ph.Errors {
		after += v
	}
	if after != before || len(ph.Panics) != 0 {
		ph.PostLifecycle = fmt.Sprintf("errors %d->%d panics %v", before, after, ph.Panics)
	} else {
		ph.PostLifecycle = "ok"
	}
}

// c15SyncPhase: Synchronize over a fixed set, concurrent with updates of that set and reconfigure.
func c15SyncPhase(m *resmgr, name string, metrics bool, iters int, seed int64, budget time.Duration) *c15Phase {
	ph := c15NewPhase(name, 3)
	r := &c15Rec{ph: ph}
	ctx := context.Background()
	var pods []*api.PodSandbox
	var ctrs []*api.Container
	setup := func() {
		for i := 0; i < 3; i++ {
			id := fmt.Sprintf("%s%d", name, i)
			pod := c15Pod(id, "burstable")
			pods = append(pods, pod)
			r.call("RunPodSandbox", func() error { return m.nri.RunPodSandbox(ctx, pod) })
			c := c15Ctr(id+"-c0", id, 300, false)
			ctrs = append(ctrs, c)
			r.call("CreateContainer", func() error { _, _, e := m.nri.CreateContainer(ctx, pod, c); return e })
			r.call("StartContainer", func() error { return m.nri.StartContainer(ctx, pod, c) })
			c.State = api.ContainerState_CONTAINER_RUNNING
		}
		r.call("reconfigure", func() error { return m.reconfigure(c15Config(50, metrics)) })
		if b := instmetrics.Block(); b != nil {
			ph.Gatherer = true
			b.Done()
		}
	}
	c15RunAll(ph, r, budget, []func(){setup})
	var fs []func()
	fs = append(fs, func() {
		for i := 0; i < 2*iters; i++ {
			r.call("Synchronize", func() error { _, e := m.nri.Synchronize(ctx, pods, ctrs); return e })
		}
	})
	fs = append(fs, func() {
		rng := rand.New(rand.NewSource(seed * 3000))
		for i := 0; i < 6*iters; i++ {
			k := rng.Intn(len(ctrs))
			res := c15Ctr("x", pods[k].Id, int64(200+100*rng.Intn(3)), false).Linux.Resources
			r.call("UpdateContainer", func() error { _, e := m.nri.UpdateContainer(ctx, pods[k], ctrs[k], res); return e })
		}
	})
	fs = append(fs, func() {
		for i := 0; i < 2*iters; i++ {
			cfg := c15Config(int64(100+i), metrics)
			r.call("reconfigure", func() error { return m.reconfigure(cfg) })
		}
	})
	fs = append(fs, func() {
		rng := rand.New(rand.NewSource(seed * 3001))
		for i := 0; i < iters; i++ {
			// (Synchronize purges pods it was not told about: these calls may find their pod gone)
			c15Lifecycle(m, r, rng, fmt.Sprintf("%s-x%d", name, i), true)
		}
	})
	if ph.Completed {
		ph.Completed = false
		ph.Goroutines = len(fs)
		c15RunAll(ph, r, budget, fs)
	}
	if metrics && ph.Completed {
		// switch the gatherer off again: with it, metrics.Block() serializes the handlers by itself,
		// which would hide a missing pipeline lock from the race detector in the later phases
		done := make(chan struct{})
		go func() {
			defer close(done)
			r.call("reconfigure", func() error { return m.reconfigure(c15Config(500, false)) })
		}()
		select {
		case <-done:
		case <-time.After(budget):
			ph.Completed = false
			ph.Stuck = "switching the metrics gatherer off did not complete"
		}
	}
	return ph
}

func TestVerifC15(t *testing.T) {
	out := os.Getenv("VERIF_OUT")
	if out == "" {
		t.Skip("VERIF_OUT not set")
	}
	geti := func(k string, d int) int {
		if v, err := strconv.Atoi(os.Getenv(k)); err == nil {
			return v
		}
		return d
	}
	seed := int64(geti("VERIF_SEED", 1))
	N := geti("VERIF_C15_N", 4)
	iters := geti("VERIF_C15_ITERS", 3)
	budget := time.Duration(geti("VERIF_C15_BUDGET_S", 60)) * time.Second
	phases := os.Getenv("VERIF_C15_PHASES")
	if phases == "" {
		phases = "lockorder,reconfigure,synchronize,seq,fetch,lifecycle"
	}
	want := map[string]bool{}
	for _, p := range strings.Split(phases, ",") {
		want[strings.TrimSpace(p)] = true
	}

	mach, err := VLoadMachine(filepath.Join(out, "machine.json"))
	if err != nil {
		t.Fatal(err)
	}
	root := filepath.Join(out, "root")
	os.RemoveAll(root)
	VRenderSysfs(mach, root)
	sysfs.SetSysRoot(root)

	var results []*c15Phase
	flush := func(done bool) {
		f, _ := os.Create(filepath.Join(out, "c15_result.json"))
		json.NewEncoder(f).Encode(map[string]interface{}{"done": done, "phases": results, "seed": seed, "n": N, "iters": iters})
		f.Close()
	}

	// ---- lockorder: the synchronize workload with the metrics gatherer present.  First, because
	// the gatherer can only be created while a single policy instance has registered its
	// collector in this process.
	if want["lockorder"] {
		m := c15New(t, root, "lockorder")
		results = append(results, c15SyncPhase(m, "lockorder", true, iters, seed, budget))
		flush(false)
	}

	// ---- reconfigure: lifecycles concurrent with configuration updates
	if want["reconfigure"] {
		m := c15New(t, root, "reconfigure")
		ph := c15NewPhase("reconfigure", N+1)
		r := &c15Rec{ph: ph}
		var fs []func()
		var stop int32
		var live int32 = int32(N)
		for g := 0; g < N; g++ {
			g := g
			fs = append(fs, func() {
				defer atomic.AddInt32(&live, -1)
				rng := rand.New(rand.NewSource(seed*2000 + int64(g)))
				for i := 0; i < iters; i++ {
					c15Lifecycle(m, r, rng, fmt.Sprintf("r%d-%d", g, i), false)
				}
			})
		}
		fs = append(fs, func() {
			gen := int64(2)
			for atomic.LoadInt32(&live) > 0 && atomic.LoadInt32(&stop) == 0 {
				cfg := c15Config(gen)
				gen++
				r.call("reconfigure", func() error { return m.reconfigure(cfg) })
				time.Sleep(time.Millisecond)
			}
		})
		c15RunAll(ph, r, budget, fs)
		atomic.StoreInt32(&stop, 1)
		if ph.Completed {
			c15Quiesce(m, ph, r, budget)
		}
		results = append(results, ph)
		flush(false)
	}

	// ---- synchronize: Synchronize over a fixed set, concurrent with updates of that set and reconfigure
	if want["synchronize"] {
		m := c15New(t, root, "synchronize")
		results = append(results, c15SyncPhase(m, "synchronize", false, iters, seed, budget))
		flush(false)
	}

	// ---- seq: one goroutine, one full lifecycle (the fetch goroutine is the only concurrency)
	if want["seq"] {
		m := c15New(t, root, "seq")
		ph := c15NewPhase("seq", 1)
		r := &c15Rec{ph: ph}
		c15RunAll(ph, r, budget, []func(){func() {
			rng := rand.New(rand.NewSource(seed))
			for i := 0; i < 3; i++ {
				c15Lifecycle(m, r, rng, fmt.Sprintf("seq%d", i), false)
			}
		}})
		if ph.Completed {
			c15Quiesce(m, ph, r, budget)
		}
		results = append(results, ph)
		flush(false)
	}

	// ---- fetch: a reader that arrives after the fetch has been started must see its result
	if want["fetch"] {
		m := c15New(t, root, "fetch")
		ph := c15NewPhase("fetch", 1)
		r := &c15Rec{ph: ph}
		c15RunAll(ph, r, budget, []func(){func() {
			for i := 0; i < 20*iters; i++ {
				id := fmt.Sprintf("f%d", i)
				ch := make(chan *podresapi.PodResources, 1)
				val := &podresapi.PodResources{PodResources: &podresv1.PodResources{Name: "pod-" + id, Namespace: "default"}}
				ch <- val
				close(ch)
				m.Lock()
				pod := m.cache.InsertPod(c15Pod(id, "burstable"), ch)
				got := pod.GetPodResources()
				m.Unlock()
				ph.FetchReads++
				if got != val {
					ph.FetchStale++
				}
				m.Lock()
				m.cache.DeletePod(id)
				m.Unlock()
			}
			// a fetch that is still in flight: the reader must block until it completes
			for i := 0; i < 3; i++ {
				id := fmt.Sprintf("g%d", i)
				ch := make(chan *podresapi.PodResources, 1)
				val := &podresapi.PodResources{PodResources: &podresv1.PodResources{Name: "pod-" + id, Namespace: "default"}}
				go func() { time.Sleep(30 * time.Millisecond); ch <- val; close(ch) }()
				m.Lock()
				pod := m.cache.InsertPod(c15Pod(id, "burstable"), ch)
				time.Sleep(5 * time.Millisecond) // let the fetch goroutine start waiting
				got := pod.GetPodResources()
				m.Unlock()
				ph.FetchReads++
				if got != val {
					ph.FetchStale++
				} else {
					ph.FetchBlocked++
				}
				m.Lock()
				m.cache.DeletePod(id)
				m.Unlock()
			}
		}})
		results = append(results, ph)
		flush(false)
	}

	// ---- lifecycle: N goroutines, disjoint pods, complete lifecycles through all handlers
	if want["lifecycle"] {
		m := c15New(t, root, "lifecycle")
		ph := c15NewPhase("lifecycle", N)
		r := &c15Rec{ph: ph}
		var fs []func()
		for g := 0; g < N; g++ {
			g := g
			fs = append(fs, func() {
				rng := rand.New(rand.NewSource(seed*1000 + int64(g)))
				for i := 0; i < iters; i++ {
					c15Lifecycle(m, r, rng, fmt.Sprintf("l%d-%d", g, i), false)
				}
			})
		}
		c15RunAll(ph, r, budget, fs)
		if ph.Completed {
			c15Quiesce(m, ph, r, budget)
		}
		results = append(results, ph)
		flush(false)
	}

	flush(true)
}
