//go:build verif

// Call trace of the cache container mutators (overlay, tag verif).  The calls are inserted
// into a copy of container.go that the driver regenerates from the current source on every
// run (lib/fullstack.py: instrument_container); the copy exists only in the overlay.
package cache

import "fmt"

var verifCalls [][]string
var verifTraceOn bool

func verifTrace(name string, c *container, args ...interface{}) {
	if !verifTraceOn {
		return
	}
	id := "?"
	if c != nil && c.Ctr != nil {
		id = c.Ctr.GetId()
	}
	rec := []string{name, id}
	for _, a := range args {
		rec = append(rec, fmt.Sprint(a))
	}
	verifCalls = append(verifCalls, rec)
}

// VerifTraceEnable switches call tracing on/off and clears the buffer.
func VerifTraceEnable(on bool) { verifTraceOn = on; verifCalls = nil }

// VerifTakeCalls returns and clears the recorded calls.
func VerifTakeCalls() [][]string {
	r := verifCalls
	verifCalls = nil
	return r
}
