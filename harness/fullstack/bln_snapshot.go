//go:build verif

// Read-only snapshot accessor for the balloons policy (overlay, tag verif).
package balloons

import (
	"sort"

	libmem "github.com/containers/nri-plugins/pkg/resmgr/lib/memory"
	policyapi "github.com/containers/nri-plugins/pkg/resmgr/policy"
)

type VBalloon struct {
	Def        string              `json:"def"`
	Instance   int                 `json:"instance"`
	Name       string              `json:"name"`
	Cpus       []int               `json:"cpus"`
	SharedIdle []int               `json:"shared_idle"`
	Mems       []int               `json:"mems"`
	Members    map[string][]string `json:"members"`
	ReqMilli   int                 `json:"req_milli"`
	MinCpus    int                 `json:"min_cpus"`
	MaxCpus    int                 `json:"max_cpus"`
	MinBlns    int                 `json:"min_balloons"`
	MaxBlns    int                 `json:"max_balloons"`
	CpuClass   string              `json:"cpu_class"`
	ShareIdle  string              `json:"share_idle_in"`
	HideHT     bool                `json:"hide_ht"`
	PinMemory  *bool               `json:"pin_memory"`
}

type VZone struct {
	Nodes    []int `json:"nodes"`
	Usage    int64 `json:"usage"`
	Capacity int64 `json:"capacity"`
}

type VMemReq struct {
	ID     string `json:"id"`
	Size   int64  `json:"size"`
	Zone   []int  `json:"zone"`
	Prio   int    `json:"prio"`
	Strict bool   `json:"strict"`
	Types  int    `json:"types"`
	Aff    []int  `json:"aff"`
}

type VLibmem struct {
	Users  map[string][]int `json:"users"`
	Zones  []VZone          `json:"zones"`
	Unions []VZone          `json:"unions"`
	Reqs   []VMemReq        `json:"reqs"`
}

type VSnapshot struct {
	Allowed    []int          `json:"allowed"`
	Reserved   []int          `json:"reserved"`
	Free       []int          `json:"free"`
	Balloons   []VBalloon     `json:"balloons"`
	IdleClass  string         `json:"idle_class"`
	PinCPU     bool           `json:"pin_cpu"`
	PinMemory  bool           `json:"pin_memory"`
	Libmem     VLibmem        `json:"libmem"`
	Levels     map[string][][]int `json:"levels"`
}

func vMaskSlice(m libmem.NodeMask) []int {
	r := []int{}
	for _, id := range m.Slice() {
		r = append(r, int(id))
	}
	return r
}

func vSnapLibmem(a *libmem.Allocator) VLibmem {
	l := VLibmem{Users: map[string][]int{}}
	zones := map[libmem.NodeMask]struct{}{}
	a.ForeachRequest(nil, func(r *libmem.Request) bool {
		l.Users[r.ID()] = vMaskSlice(r.Zone())
		zones[r.Zone()] = struct{}{}
		l.Reqs = append(l.Reqs, VMemReq{ID: r.ID(), Size: r.Size(), Zone: vMaskSlice(r.Zone()), Prio: int(r.Priority()),
			Strict: r.IsStrict(), Types: int(r.Types()), Aff: vMaskSlice(r.Affinity())})
		return true
	})
	sort.Slice(l.Reqs, func(i, j int) bool { return l.Reqs[i].ID < l.Reqs[j].ID })
	zl := []libmem.NodeMask{}
	for z := range zones {
		zl = append(zl, z)
	}
	sort.Slice(zl, func(i, j int) bool { return zl[i] < zl[j] })
	seen := map[libmem.NodeMask]struct{}{}
	for _, z := range zl {
		l.Zones = append(l.Zones, VZone{Nodes: vMaskSlice(z), Usage: a.ZoneUsage(z), Capacity: a.ZoneCapacity(z)})
		seen[z] = struct{}{}
	}
	for i, z1 := range zl {
		for _, z2 := range zl[i+1:] {
			u := z1.Or(z2)
			if _, ok := seen[u]; ok {
				continue
			}
			seen[u] = struct{}{}
			l.Unions = append(l.Unions, VZone{Nodes: vMaskSlice(u), Usage: a.ZoneUsage(u), Capacity: a.ZoneCapacity(u)})
		}
	}
	return l
}

func VerifSnapshot(b policyapi.Backend) *VSnapshot {
	p, ok := b.(*balloons)
	if !ok || p.bpoptions == nil {
		return nil
	}
	s := &VSnapshot{
		Allowed:   p.allowed.List(),
		Reserved:  p.reserved.List(),
		Free:      p.freeCpus.List(),
		IdleClass: p.bpoptions.IdleCpuClass,
		PinCPU:    p.bpoptions.PinCPU == nil || *p.bpoptions.PinCPU,
		PinMemory: p.bpoptions.PinMemory == nil || *p.bpoptions.PinMemory,
		Levels:    map[string][][]int{},
	}
	for _, bln := range p.balloons {
		vb := VBalloon{
			Def: bln.Def.Name, Instance: bln.Instance, Name: bln.PrettyName(),
			Cpus: bln.Cpus.List(), SharedIdle: bln.SharedIdleCpus.List(), Mems: bln.Mems.SortedMembers(),
			Members: map[string][]string{}, ReqMilli: p.requestedMilliCpus(bln),
			MinCpus: bln.Def.MinCpus, MaxCpus: bln.Def.MaxCpus, MinBlns: bln.Def.MinBalloons, MaxBlns: bln.Def.MaxBalloons,
			CpuClass: bln.Def.CpuClass, ShareIdle: bln.Def.ShareIdleCpusInSame.String(),
			HideHT: bln.Def.HideHyperthreads != nil && *bln.Def.HideHyperthreads, PinMemory: bln.Def.PinMemory,
		}
		for pod, ctrs := range bln.PodIDs {
			c := append([]string{}, ctrs...)
			sort.Strings(c)
			vb.Members[pod] = c
		}
		s.Balloons = append(s.Balloons, vb)
	}
	// CPU sets of every topology level of the cpu tree (sharing scopes)
	if p.cpuTree != nil {
		p.cpuTree.DepthFirstWalk(func(t *cpuTreeNode) error {
			lvl := t.level.String()
			s.Levels[lvl] = append(s.Levels[lvl], t.cpus.List())
			return nil
		})
	}
	s.Libmem = vSnapLibmem(p.memAllocator)
	return s
}
