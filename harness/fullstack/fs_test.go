//go:build verif

// Full-stack harness: a real resource manager + policy on a synthetic sysfs tree, driven by a
// script of NRI events produced by the Python side; after every event it dumps the reply, the
// cache view of every container, and the policy snapshot.  (overlay, package resmgr)
package resmgr

import (
	"bufio"
	"context"
	"encoding/json"
	"fmt"
	"os"
	"path/filepath"
	"runtime/debug"
	"sort"
	"strings"
	"testing"

	"github.com/containerd/nri/pkg/api"
	"sigs.k8s.io/yaml"

	blnpolicy "github.com/containers/nri-plugins/cmd/plugins/balloons/policy"
	tapolicy "github.com/containers/nri-plugins/cmd/plugins/topology-aware/policy"
	"github.com/containers/nri-plugins/pkg/agent"
	logger "github.com/containers/nri-plugins/pkg/log"
	cfgapi "github.com/containers/nri-plugins/pkg/apis/config/v1alpha1"
	"github.com/containers/nri-plugins/pkg/resmgr/cache"
	cpucontrol "github.com/containers/nri-plugins/pkg/resmgr/control/cpu"
	policyapi "github.com/containers/nri-plugins/pkg/resmgr/policy"
	"github.com/containers/nri-plugins/pkg/sysfs"
	"github.com/containers/nri-plugins/pkg/utils/cpuset"
)

type fsPod struct {
	ID          string            `json:"id"`
	Name        string            `json:"name"`
	Namespace   string            `json:"ns"`
	UID         string            `json:"uid"`
	QoS         string            `json:"qos"` // Guaranteed | Burstable | BestEffort
	Annotations map[string]string `json:"annotations"`
	Labels      map[string]string `json:"labels"`
	NoLinux     bool              `json:"nolinux"`
}

type fsRes struct {
	Shares   *uint64 `json:"shares"`
	Quota    *int64  `json:"quota"`
	Period   *uint64 `json:"period"`
	MemLimit *int64  `json:"memlimit"`
	Swap     *int64  `json:"swap"`
	Cpus     string  `json:"cpus"`
	Mems     string  `json:"mems"`
	NoCPU    bool    `json:"nocpu"`
	NoMemory bool    `json:"nomemory"`
}

type fsCtr struct {
	ID          string            `json:"id"`
	Pod         string            `json:"pod"`
	Name        string            `json:"name"`
	State       string            `json:"state"`
	Annotations map[string]string `json:"annotations"`
	Labels      map[string]string `json:"labels"`
	Res         *fsRes            `json:"res"`
	OomAdj      *int64            `json:"oomadj"`
	NoLinux     bool              `json:"nolinux"`
}

type fsEvent struct {
	Op     string          `json:"op"`
	Pod    *fsPod          `json:"pod,omitempty"`
	Ctr    *fsCtr          `json:"ctr,omitempty"`
	Res    *fsRes          `json:"res,omitempty"`
	NilRes bool            `json:"nilres,omitempty"`
	Pods   []*fsPod        `json:"pods,omitempty"`
	Ctrs   []*fsCtr        `json:"ctrs,omitempty"`
	Config json.RawMessage `json:"config,omitempty"`
	Tag    string          `json:"tag,omitempty"`
	Stale  int             `json:"stale,omitempty"` // Restart: start from the cache file as it was this many events ago
}

type fsScript struct {
	Name    string          `json:"name"`
	Machine string          `json:"machine"`
	Policy  string          `json:"policy"`
	Config  json.RawMessage `json:"config"`
	Events  []fsEvent       `json:"events"`
}

type fsUpdate struct {
	ID      string  `json:"id"`
	Cpus    *string `json:"cpus"`
	Mems    *string `json:"mems"`
	Shares  *uint64 `json:"shares"`
	Quota   *int64  `json:"quota"`
	Period  *uint64 `json:"period"`
	MemLim  *int64  `json:"memlimit"`
	Swap    *int64  `json:"swap"`
	Mounts  int     `json:"mounts"`
	HasLin  bool    `json:"haslinux"`
}

type fsReply struct {
	Class   string      `json:"class"` // ok | err | panic
	Msg     string      `json:"msg,omitempty"`
	Adjust  *fsUpdate   `json:"adjust"`
	Updates []*fsUpdate `json:"updates"`
	Pushed  []*fsUpdate `json:"pushed"`
}

type fsCacheCtr struct {
	ID       string `json:"id"`
	Pod      string `json:"pod"`
	Name     string `json:"name"`
	Ns       string `json:"ns"`
	QoS      string `json:"qos"`
	State    string `json:"state"`
	Cpus     string `json:"cpus"`
	Mems     string `json:"mems"`
	Shares   int64  `json:"shares"`
	Quota    int64  `json:"quota"`
	Period   int64  `json:"period"`
	MemLimit int64  `json:"memlimit"`
	Swap     int64  `json:"swap"`
	Pending  bool   `json:"pending"`
	CPUReq   int64  `json:"cpureq"` // milli
	CPULim   int64  `json:"cpulim"` // milli
	MemReq   int64  `json:"memreq"`
	MemLim   int64  `json:"memlim"`
	CpuClass string `json:"cpuclass,omitempty"`
	Prefs    interface{} `json:"prefs,omitempty"`
	PresCPU  bool   `json:"preserve_cpu"`
	PresMem  bool   `json:"preserve_mem"`
	HideHTAnn string `json:"hide_ht_ann"`
}

type fsZone struct {
	Name   string            `json:"name"`
	Type   string            `json:"type"`
	Parent string            `json:"parent"`
	Attrs  map[string]string `json:"attrs"`
	Res    map[string][3]string `json:"res"` // name -> capacity, allocatable, available
}

type fsOut struct {
	Script string        `json:"script"`
	Seq    int           `json:"seq"`
	Op     string        `json:"op"`
	Tag    string        `json:"tag,omitempty"`
	Reply  fsReply       `json:"reply"`
	Cache  []fsCacheCtr  `json:"cache"`
	Pods   []string      `json:"pods"`
	TA     interface{}   `json:"ta,omitempty"`
	Bln    interface{}   `json:"bln,omitempty"`
	Zones  []fsZone      `json:"zones"`
	Saved  int           `json:"saved"`
	Disk   []fsDiskCtr   `json:"disk"`
	RevertFailed bool    `json:"revert_failed,omitempty"`
	Classes map[string][]int `json:"cpuclasses,omitempty"`
	Calls  [][]string    `json:"calls"`
	Probe  interface{}   `json:"restore_probe,omitempty"`
}

// what the cache file says about a container (told fields only)
type fsDiskCtr struct {
	ID     string `json:"id"`
	Cpus   string `json:"cpus"`
	Mems   string `json:"mems"`
	Shares uint64 `json:"shares"`
}

type fsDiskFile struct {
	Containers map[string]struct {
		Ctr struct {
			Linux struct {
				Resources struct {
					Cpu struct {
						Cpus   string `json:"cpus"`
						Mems   string `json:"mems"`
						Shares *struct {
							Value uint64 `json:"value"`
						} `json:"shares"`
					} `json:"cpu"`
				} `json:"resources"`
			} `json:"linux"`
		}
	}
}

func readDisk(raw []byte) []fsDiskCtr {
	out := []fsDiskCtr{}
	var f fsDiskFile
	if len(raw) == 0 || json.Unmarshal(raw, &f) != nil {
		return out
	}
	for id, c := range f.Containers {
		d := fsDiskCtr{ID: id, Cpus: canonSet(c.Ctr.Linux.Resources.Cpu.Cpus), Mems: canonSet(c.Ctr.Linux.Resources.Cpu.Mems)}
		if c.Ctr.Linux.Resources.Cpu.Shares != nil {
			d.Shares = c.Ctr.Linux.Resources.Cpu.Shares.Value
		}
		out = append(out, d)
	}
	sort.Slice(out, func(i, j int) bool { return out[i].ID < out[j].ID })
	return out
}

// the resource manager reports a failed revert of a rejected configuration only in its log
type verifLog struct{ logger.Logger }

var verifRevertFailed bool

func (l verifLog) Warnf(format string, args ...interface{}) {
	if strings.HasPrefix(format, "failed to revert configuration") {
		verifRevertFailed = true
	}
	l.Logger.Warnf(format, args...)
}

type fakeStub struct {
	pushed []*api.ContainerUpdate
}

func (s *fakeStub) Run(context.Context) error   { return nil }
func (s *fakeStub) Start(context.Context) error { return nil }
func (s *fakeStub) Stop()                       {}
func (s *fakeStub) Wait()                       {}
func (s *fakeStub) UpdateContainers(u []*api.ContainerUpdate) ([]*api.ContainerUpdate, error) {
	s.pushed = append(s.pushed, u...)
	return nil, nil
}

type fsInstance struct {
	m       *resmgr
	backend policyapi.Backend
	stub    *fakeStub
	policy  string
	dir     string
	pods    map[string]*api.PodSandbox
	ctrs    map[string]*api.Container
	cfgRaw  json.RawMessage // the configuration last applied successfully
}

func mkPod(p *fsPod) *api.PodSandbox {
	parent := "/kubepods/pod" + p.UID
	switch p.QoS {
	case "Burstable":
		parent = "/kubepods/burstable/pod" + p.UID
	case "BestEffort":
		parent = "/kubepods/besteffort/pod" + p.UID
	}
	pod := &api.PodSandbox{Id: p.ID, Name: p.Name, Uid: p.UID, Namespace: p.Namespace,
		Labels: p.Labels, Annotations: p.Annotations}
	if !p.NoLinux {
		pod.Linux = &api.LinuxPodSandbox{CgroupParent: parent}
	}
	return pod
}

func mkRes(r *fsRes) *api.LinuxResources {
	if r == nil {
		return nil
	}
	res := &api.LinuxResources{}
	if !r.NoCPU {
		res.Cpu = &api.LinuxCPU{Cpus: r.Cpus, Mems: r.Mems}
		if r.Shares != nil {
			res.Cpu.Shares = api.UInt64(*r.Shares)
		}
		if r.Quota != nil {
			res.Cpu.Quota = api.Int64(*r.Quota)
		}
		if r.Period != nil {
			res.Cpu.Period = api.UInt64(*r.Period)
		}
	}
	if !r.NoMemory {
		res.Memory = &api.LinuxMemory{}
		if r.MemLimit != nil {
			res.Memory.Limit = api.Int64(*r.MemLimit)
		}
		if r.Swap != nil {
			res.Memory.Swap = api.Int64(*r.Swap)
		}
	}
	return res
}

func mkState(s string) api.ContainerState {
	switch s {
	case "created":
		return api.ContainerState_CONTAINER_CREATED
	case "running":
		return api.ContainerState_CONTAINER_RUNNING
	case "stopped", "exited":
		return api.ContainerState_CONTAINER_STOPPED
	case "paused":
		return api.ContainerState_CONTAINER_PAUSED
	}
	return api.ContainerState_CONTAINER_UNKNOWN
}

func mkCtr(c *fsCtr) *api.Container {
	ctr := &api.Container{Id: c.ID, PodSandboxId: c.Pod, Name: c.Name, State: mkState(c.State),
		Labels: c.Labels, Annotations: c.Annotations}
	if !c.NoLinux {
		ctr.Linux = &api.LinuxContainer{Resources: mkRes(c.Res)}
		if c.OomAdj != nil {
			ctr.Linux.OomScoreAdj = api.Int(int(*c.OomAdj))
		}
	}
	return ctr
}

func stateName(s cache.ContainerState) string {
	switch s {
	case cache.ContainerStateCreating:
		return "creating"
	case cache.ContainerStateCreated:
		return "created"
	case cache.ContainerStateRunning:
		return "running"
	case cache.ContainerStateExited:
		return "exited"
	case cache.ContainerStateStale:
		return "stale"
	case cache.ContainerStateUnknown:
		return "unknown"
	}
	return fmt.Sprintf("state%d", int(s))
}

func canonSet(s string) string {
	// canonical cpuset/memset string: sorted ranges via the repo's own parser
	if s == "" {
		return ""
	}
	cs, err := cpuset.Parse(s)
	if err != nil {
		return "!" + s
	}
	return cs.String()
}

func convUpdate(id string, r *api.LinuxResources, mounts int, hasLinux bool) *fsUpdate {
	u := &fsUpdate{ID: id, Mounts: mounts, HasLin: hasLinux}
	if r == nil {
		return u
	}
	if c := r.Cpu; c != nil {
		if c.Cpus != "" {
			s := canonSet(c.Cpus)
			u.Cpus = &s
		}
		if c.Mems != "" {
			s := canonSet(c.Mems)
			u.Mems = &s
		}
		if c.Shares != nil {
			v := c.Shares.Value
			u.Shares = &v
		}
		if c.Quota != nil {
			v := c.Quota.Value
			u.Quota = &v
		}
		if c.Period != nil {
			v := c.Period.Value
			u.Period = &v
		}
	}
	if m := r.Memory; m != nil && m.Limit != nil {
		v := m.Limit.Value
		u.MemLim = &v
	}
	if m := r.Memory; m != nil && m.Swap != nil {
		v := m.Swap.Value
		u.Swap = &v
	}
	return u
}

func convUpdates(us []*api.ContainerUpdate) []*fsUpdate {
	out := []*fsUpdate{}
	for _, u := range us {
		out = append(out, convUpdate(u.ContainerId, u.GetLinux().GetResources(), 0, u.Linux != nil))
	}
	return out
}

func newInstance(t *testing.T, dir, policyName string, machine string, config json.RawMessage) (*fsInstance, error) {
	inst := &fsInstance{policy: policyName, dir: dir, pods: map[string]*api.PodSandbox{}, ctrs: map[string]*api.Container{}}
	if _, err := os.Stat(filepath.Join(dir, "sys")); err != nil {
		mach, err := VLoadMachine(machine)
		if err != nil {
			return nil, err
		}
		VRenderSysfs(mach, dir)
	}
	sysfs.SetSysRoot(dir)
	opt.StateDir = filepath.Join(dir, "state")
	os.MkdirAll(opt.StateDir, 0o700)

	var cfgIf agent.ConfigInterface
	if policyName == "balloons" {
		cfgIf = agent.BalloonsConfigInterface()
		inst.backend = blnpolicy.New()
	} else {
		cfgIf = agent.TopologyAwareConfigInterface()
		inst.backend = tapolicy.New()
	}
	agt, err := agent.New(cfgIf, agent.WithConfigFile("/nonexistent"))
	if err != nil {
		return nil, err
	}
	m := &resmgr{agent: agt}
	if err := m.setupCache(); err != nil {
		return nil, err
	}
	m.nri, _ = newNRIPlugin(m)
	if err := m.setupPolicy(inst.backend); err != nil {
		return nil, err
	}
	if err := m.setupEventProcessing(); err != nil {
		return nil, err
	}
	if err := m.setupControllers(); err != nil {
		return nil, err
	}
	cfg, err := parseConfig(policyName, config)
	if err != nil {
		return nil, err
	}
	m.cfg = cfg
	if err := m.policy.Start(cfg.PolicyConfig()); err != nil {
		return nil, fmt.Errorf("policy start: %w", err)
	}
	m.running = true
	inst.stub = &fakeStub{}
	m.nri.stub = inst.stub
	inst.m = m
	inst.cfgRaw = config
	return inst, nil
}

func parseConfig(policyName string, raw json.RawMessage) (cfgapi.ResmgrConfig, error) {
	if policyName == "balloons" {
		c := &cfgapi.BalloonsPolicy{}
		if err := yaml.Unmarshal(raw, &c.Spec); err != nil {
			return nil, err
		}
		return c, nil
	}
	c := &cfgapi.TopologyAwarePolicy{}
	if err := yaml.Unmarshal(raw, &c.Spec); err != nil {
		return nil, err
	}
	return c, nil
}

func (inst *fsInstance) snapshot(out *fsOut) {
	m := inst.m
	out.Cache, out.Pods, out.Zones = []fsCacheCtr{}, []string{}, []fsZone{}
	for _, c := range m.cache.GetContainers() {
		cc := fsCacheCtr{ID: c.GetID(), Pod: c.GetPodID(), Name: c.GetName(), Ns: c.GetNamespace(), QoS: string(c.GetQOSClass()),
			State: stateName(c.GetState()), Cpus: canonSet(c.GetCpusetCpus()), Mems: canonSet(c.GetCpusetMems()),
			Shares: c.GetCPUShares(), Quota: c.GetCPUQuota(), Period: c.GetCPUPeriod(), MemLimit: c.GetMemoryLimit(),
			Swap: c.GetMemorySwap(), Pending: len(c.GetPending()) > 0}
		rr := c.GetResourceRequirements()
		if q, ok := rr.Requests["cpu"]; ok {
			cc.CPUReq = q.MilliValue()
		}
		if q, ok := rr.Limits["cpu"]; ok {
			cc.CPULim = q.MilliValue()
		}
		if q, ok := rr.Requests["memory"]; ok {
			cc.MemReq = q.Value()
		}
		if q, ok := rr.Limits["memory"]; ok {
			cc.MemLim = q.Value()
		}
		cc.PresCPU, cc.PresMem = c.PreserveCpuResources(), c.PreserveMemoryResources()
		cc.HideHTAnn, _ = c.GetEffectiveAnnotation("hide-hyperthreads.resource-policy.nri.io")
		if inst.policy != "balloons" && (c.GetState() == cache.ContainerStateCreated || c.GetState() == cache.ContainerStateRunning) {
			func() {
				defer func() { recover() }()
				cc.Prefs = tapolicy.VerifPrefs(c)
			}()
		}
		out.Cache = append(out.Cache, cc)
	}
	sort.Slice(out.Cache, func(i, j int) bool { return out.Cache[i].ID < out.Cache[j].ID })
	for _, p := range m.cache.GetPods() {
		out.Pods = append(out.Pods, p.GetID())
	}
	sort.Strings(out.Pods)
	if inst.policy == "balloons" {
		out.Classes = cpucontrol.VerifClassAssignments(m.cache)
		out.Bln = blnpolicy.VerifSnapshot(inst.backend)
	} else {
		out.TA = tapolicy.VerifSnapshot(inst.backend)
	}
	for _, z := range m.policy.GetTopologyZones() {
		fz := fsZone{Name: z.Name, Type: z.Type, Parent: z.Parent, Attrs: map[string]string{}, Res: map[string][3]string{}}
		for _, a := range z.Attributes {
			fz.Attrs[a.Name] = a.Value
		}
		for _, r := range z.Resources {
			fz.Res[r.Name] = [3]string{r.Capacity.String(), r.Allocatable.String(), r.Available.String()}
		}
		out.Zones = append(out.Zones, fz)
	}
}

func (inst *fsInstance) lookupPod(p *fsPod) *api.PodSandbox {
	if p == nil {
		return nil
	}
	if p.Name == "" && p.UID == "" { // reference by id only
		if pod, ok := inst.pods[p.ID]; ok {
			return pod
		}
	}
	pod := mkPod(p)
	return pod
}

// every request of a real runtime carries freshly unmarshalled messages: hand the plugin copies,
// never the objects the harness keeps as the runtime's own state
func cloneCtr(c *api.Container) *api.Container {
	if c == nil {
		return nil
	}
	b, err := json.Marshal(c) // the encoding the cache itself persists containers with
	if err != nil {
		panic(err)
	}
	out := &api.Container{}
	if err := json.Unmarshal(b, out); err != nil {
		panic(err)
	}
	return out
}

func clonePod(p *api.PodSandbox) *api.PodSandbox {
	if p == nil {
		return nil
	}
	b, err := json.Marshal(p)
	if err != nil {
		panic(err)
	}
	out := &api.PodSandbox{}
	if err := json.Unmarshal(b, out); err != nil {
		panic(err)
	}
	return out
}

func (inst *fsInstance) lookupCtr(c *fsCtr) *api.Container {
	if c == nil {
		return nil
	}
	if c.Name == "" {
		if ctr, ok := inst.ctrs[c.ID]; ok {
			return ctr
		}
	}
	return mkCtr(c)
}

func (inst *fsInstance) exec(ev *fsEvent, out *fsOut) {
	ctx := context.Background()
	p := inst.m.nri
	inst.stub.pushed = nil
	defer func() {
		if r := recover(); r != nil {
			out.Reply.Class = "panic"
			st := string(debug.Stack())
			// keep the frames below the panic
			if i := strings.Index(st, "panic("); i >= 0 {
				st = st[i:]
			}
			if len(st) > 1500 {
				st = st[:1500]
			}
			out.Reply.Msg = fmt.Sprintf("%v\n%s", r, st)
			// the handler's deferred Unlock ran during unwinding; nothing else to restore
		}
	}()
	var err error
	switch ev.Op {
	case "RunPodSandbox":
		pod := mkPod(ev.Pod)
		inst.pods[pod.Id] = pod
		err = p.RunPodSandbox(ctx, clonePod(pod))
	case "StopPodSandbox":
		err = p.StopPodSandbox(ctx, clonePod(inst.lookupPod(ev.Pod)))
	case "RemovePodSandbox":
		err = p.RemovePodSandbox(ctx, clonePod(inst.lookupPod(ev.Pod)))
	case "CreateContainer":
		ctr := mkCtr(ev.Ctr)
		inst.ctrs[ctr.Id] = ctr
		pod := inst.pods[ctr.PodSandboxId]
		var adj *api.ContainerAdjustment
		var upd []*api.ContainerUpdate
		adj, upd, err = p.CreateContainer(ctx, clonePod(pod), cloneCtr(ctr))
		if adj != nil {
			out.Reply.Adjust = convUpdate(ctr.Id, adj.GetLinux().GetResources(), len(adj.Mounts), adj.Linux != nil)
		}
		out.Reply.Updates = convUpdates(upd)
	case "StartContainer":
		ctr := inst.lookupCtr(ev.Ctr)
		err = p.StartContainer(ctx, clonePod(inst.pods[ctr.PodSandboxId]), cloneCtr(ctr))
	case "UpdateContainer":
		ctr := inst.lookupCtr(ev.Ctr)
		var upd []*api.ContainerUpdate
		var res *api.LinuxResources
		if !ev.NilRes {
			res = mkRes(ev.Res)
		}
		upd, err = p.UpdateContainer(ctx, clonePod(inst.pods[ctr.PodSandboxId]), cloneCtr(ctr), res)
		out.Reply.Updates = convUpdates(upd)
		if err == nil && res != nil && ctr.Linux != nil {
			// the runtime applies an accepted update: later requests carry the new resources
			if stored, ok := inst.ctrs[ctr.Id]; ok && stored.Linux != nil {
				cur := stored.Linux.Resources
				if cur == nil {
					cur = &api.LinuxResources{}
					stored.Linux.Resources = cur
				}
				if res.Cpu != nil {
					if cur.Cpu == nil {
						cur.Cpu = &api.LinuxCPU{}
					}
					if res.Cpu.Shares != nil {
						cur.Cpu.Shares = res.Cpu.Shares
					}
					if res.Cpu.Quota != nil {
						cur.Cpu.Quota = res.Cpu.Quota
					}
					if res.Cpu.Period != nil {
						cur.Cpu.Period = res.Cpu.Period
					}
				}
				if res.Memory != nil {
					if cur.Memory == nil {
						cur.Memory = &api.LinuxMemory{}
					}
					if res.Memory.Limit != nil {
						cur.Memory.Limit = res.Memory.Limit
					}
					if res.Memory.Swap != nil {
						cur.Memory.Swap = res.Memory.Swap
					}
				}
			}
		}
	case "StopContainer":
		ctr := inst.lookupCtr(ev.Ctr)
		var upd []*api.ContainerUpdate
		upd, err = p.StopContainer(ctx, clonePod(inst.pods[ctr.PodSandboxId]), cloneCtr(ctr))
		out.Reply.Updates = convUpdates(upd)
	case "RemoveContainer":
		ctr := inst.lookupCtr(ev.Ctr)
		err = p.RemoveContainer(ctx, clonePod(inst.pods[ctr.PodSandboxId]), cloneCtr(ctr))
	case "Synchronize":
		pods := []*api.PodSandbox{}
		for _, fp := range ev.Pods {
			pod := inst.lookupPod(fp)
			inst.pods[pod.Id] = pod
			pods = append(pods, pod)
		}
		ctrs := []*api.Container{}
		for _, fc := range ev.Ctrs {
			var ctr *api.Container
			if old, ok := inst.ctrs[fc.ID]; ok && fc.Name == "" {
				ctr = cloneCtr(old)
				ctr.State = mkState(fc.State)
			} else {
				ctr = mkCtr(fc)
			}
			inst.ctrs[ctr.Id] = ctr
			ctrs = append(ctrs, ctr)
		}
		var upd []*api.ContainerUpdate
		cpods, cctrs := []*api.PodSandbox{}, []*api.Container{}
		for _, x := range pods {
			cpods = append(cpods, clonePod(x))
		}
		for _, x := range ctrs {
			cctrs = append(cctrs, cloneCtr(x))
		}
		upd, err = p.Synchronize(ctx, cpods, cctrs)
		out.Reply.Updates = convUpdates(upd)
	case "Reconfigure":
		var cfg cfgapi.ResmgrConfig
		if string(ev.Config) == `"__CURRENT__"` { // re-deliver the configuration in force
			ev.Config = inst.cfgRaw
		}
		cfg, err = parseConfig(inst.policy, ev.Config)
		if err == nil {
			if _, wrapped := log.(verifLog); !wrapped {
				log = verifLog{log}
			}
			verifRevertFailed = false
			err = inst.m.reconfigure(cfg)
			out.RevertFailed = verifRevertFailed
			if err == nil {
				inst.cfgRaw = ev.Config
			}
		} else {
			err = fmt.Errorf("unparsable config: %w", err)
		}
	default:
		err = fmt.Errorf("unknown op %q", ev.Op)
	}
	out.Reply.Pushed = convUpdates(inst.stub.pushed)
	if err != nil {
		out.Reply.Class = "err"
		out.Reply.Msg = err.Error()
	} else {
		out.Reply.Class = "ok"
	}
}

func runScript(t *testing.T, sc *fsScript, w *bufio.Writer) {
	dir, err := os.MkdirTemp("", "vfs")
	if err != nil {
		t.Fatal(err)
	}
	defer os.RemoveAll(dir)
	enc := json.NewEncoder(w)
	inst, err := newInstance(t, dir, sc.Policy, sc.Machine, sc.Config)
	out := &fsOut{Script: sc.Name, Seq: -1, Op: "Setup"}
	if err != nil {
		out.Reply = fsReply{Class: "err", Msg: err.Error()}
		enc.Encode(out)
		return
	}
	out.Reply.Class = "ok"
	inst.snapshot(out)
	enc.Encode(out)
	cacheFile := filepath.Join(dir, "state", "cache")
	saves := [][]byte{}
	for i := range sc.Events {
		ev := &sc.Events[i]
		out := &fsOut{Script: sc.Name, Seq: i, Op: ev.Op, Tag: ev.Tag}
		if ev.Op == "Restart" {
			// new instance on the same state directory (= plugin restart)
			cfg := inst.cfgRaw // a restarted plugin gets the configuration that was in force
			if len(ev.Config) > 0 {
				cfg = ev.Config
			}
			pods, ctrs := inst.pods, inst.ctrs
			if k := len(saves) - 1 - ev.Stale; ev.Stale > 0 && k >= 0 && len(saves[k]) > 0 {
				os.WriteFile(cacheFile, saves[k], 0o644)
			}
			ninst, err := newInstance(t, dir, sc.Policy, sc.Machine, cfg)
			if err != nil {
				out.Reply = fsReply{Class: "err", Msg: err.Error()}
				enc.Encode(out)
				return
			}
			ninst.pods, ninst.ctrs = pods, ctrs
			inst = ninst
			out.Reply.Class = "ok"
		} else {
			cache.VerifTraceEnable(true)
			func() {
				defer func() {
					if r := recover(); r != nil { // panic outside the handler (harness lookup etc.)
						out.Reply.Class = "panic"
						out.Reply.Msg = fmt.Sprint(r)
					}
				}()
				inst.exec(ev, out)
			}()
			out.Calls = cache.VerifTakeCalls()
			cache.VerifTraceEnable(false)
		}
		func() {
			defer func() {
				if r := recover(); r != nil {
					out.Reply.Msg += fmt.Sprintf(" [snapshot panic: %v]", r)
				}
			}()
			inst.snapshot(out)
		}()
		raw, _ := os.ReadFile(cacheFile)
		saves = append(saves, raw)
		out.Disk = readDisk(raw)
		if i == len(sc.Events)-1 && sc.Policy != "balloons" && out.Reply.Class != "panic" {
			// after the last event: release every grant and put it back as a refused update does
			func() {
				defer func() {
					if r := recover(); r != nil {
						out.Probe = []map[string]interface{}{{"id": "", "err": fmt.Sprintf("probe panic: %v", r), "cpu_side": true}}
					}
				}()
				out.Probe = tapolicy.VerifRestoreProbe(inst.backend)
			}()
		}
		enc.Encode(out)
		w.Flush()
		if out.Reply.Class == "panic" {
			// a panicking handler may have left the lock held; make later events usable
			inst.m.TryLock()
			inst.m.Unlock()
		}
	}
}

func TestVerifFullStack(t *testing.T) {
	in := os.Getenv("VERIF_SCRIPTS")
	outp := os.Getenv("VERIF_OUT_FILE")
	if in == "" || outp == "" {
		t.Skip("VERIF_SCRIPTS / VERIF_OUT_FILE not set")
	}
	data, err := os.ReadFile(in)
	if err != nil {
		t.Fatal(err)
	}
	f, err := os.Create(outp)
	if err != nil {
		t.Fatal(err)
	}
	defer f.Close()
	w := bufio.NewWriterSize(f, 1<<20)
	defer w.Flush()
	for _, line := range strings.Split(string(data), "\n") {
		if strings.TrimSpace(line) == "" {
			continue
		}
		sc := &fsScript{}
		if err := json.Unmarshal([]byte(line), sc); err != nil {
			t.Fatalf("bad script: %v", err)
		}
		runScript(t, sc, w)
		w.Flush()
	}
}
