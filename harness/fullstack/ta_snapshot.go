//go:build verif

// Read-only snapshot accessor for the topology-aware policy (overlay, tag verif).
package topologyaware

import (
	"reflect"
	"sort"
	"strings"

	"github.com/containers/nri-plugins/pkg/resmgr/cache"
	policyapi "github.com/containers/nri-plugins/pkg/resmgr/policy"
	libmem "github.com/containers/nri-plugins/pkg/resmgr/lib/memory"
)

type VPool struct {
	Name            string `json:"name"`
	Parent          string `json:"parent"`
	Kind            string `json:"kind"`
	Depth           int    `json:"depth"`
	Cpus            []int  `json:"cpus"`
	Iso             []int  `json:"iso"`
	Res             []int  `json:"res"`
	Shar            []int  `json:"shar"`
	FreeIso         []int  `json:"free_iso"`
	FreeRes         []int  `json:"free_res"`
	FreeShar        []int  `json:"free_shar"`
	GrantedShared   int    `json:"granted_shared"`
	GrantedReserved int    `json:"granted_reserved"`
	AllocShared     int    `json:"alloc_shared"`
	AllocReserved   int    `json:"alloc_reserved"`
	Mem             []int  `json:"mem"`
	PMem            []int  `json:"pmem"`
	HBM             []int  `json:"hbm"`
}

type VGrant struct {
	ID        string `json:"id"`
	Pool      string `json:"pool"`
	Exclusive []int  `json:"exclusive"`
	Isolated  []int  `json:"isolated"`
	CPUType   string `json:"cputype"`
	Portion   int    `json:"portion"`
	MemType   string `json:"memtype"`
	MemZone   []int  `json:"memzone"`
	MemSize   int64  `json:"memsize"`
	MemPreserve bool `json:"mem_preserve"`
}

type VZone struct {
	Nodes    []int `json:"nodes"`
	Usage    int64 `json:"usage"`
	Capacity int64 `json:"capacity"`
}

type VLibmem struct {
	Users  map[string][]int `json:"users"`
	Zones  []VZone          `json:"zones"`
	Unions []VZone          `json:"unions"`
	Reqs   []VMemReq        `json:"reqs"`
}

type VMemReq struct {
	ID     string `json:"id"`
	Size   int64  `json:"size"`
	Zone   []int  `json:"zone"`
	Prio   int    `json:"prio"`
	Strict bool   `json:"strict"`
	Types  int    `json:"types"`
	Aff    []int  `json:"aff"`
}

type VSnapshot struct {
	Allowed  []int    `json:"allowed"`
	Reserved []int    `json:"reserved"`
	Isolated []int    `json:"isolated"`
	Pools    []VPool  `json:"pools"`
	Grants   []VGrant `json:"grants"`
	Libmem   VLibmem  `json:"libmem"`
}

func vMaskSlice(m libmem.NodeMask) []int {
	r := []int{}
	for _, id := range m.Slice() {
		r = append(r, int(id))
	}
	return r
}

// VSnapLibmem dumps the allocator state observable through its public API.
func VSnapLibmem(a *libmem.Allocator) VLibmem {
	l := VLibmem{Users: map[string][]int{}}
	zones := map[libmem.NodeMask]struct{}{}
	a.ForeachRequest(nil, func(r *libmem.Request) bool {
		l.Users[r.ID()] = vMaskSlice(r.Zone())
		zones[r.Zone()] = struct{}{}
		l.Reqs = append(l.Reqs, VMemReq{ID: r.ID(), Size: r.Size(), Zone: vMaskSlice(r.Zone()), Prio: int(r.Priority()),
			Strict: r.IsStrict(), Types: int(r.Types()), Aff: vMaskSlice(r.Affinity())})
		return true
	})
	sort.Slice(l.Reqs, func(i, j int) bool { return l.Reqs[i].ID < l.Reqs[j].ID })
	zl := []libmem.NodeMask{}
	for z := range zones {
		zl = append(zl, z)
	}
	sort.Slice(zl, func(i, j int) bool { return zl[i] < zl[j] })
	seen := map[libmem.NodeMask]struct{}{}
	for _, z := range zl {
		l.Zones = append(l.Zones, VZone{Nodes: vMaskSlice(z), Usage: a.ZoneUsage(z), Capacity: a.ZoneCapacity(z)})
		seen[z] = struct{}{}
	}
	for i, z1 := range zl {
		for _, z2 := range zl[i+1:] {
			u := z1.Or(z2)
			if _, ok := seen[u]; ok {
				continue
			}
			seen[u] = struct{}{}
			l.Unions = append(l.Unions, VZone{Nodes: vMaskSlice(u), Usage: a.ZoneUsage(u), Capacity: a.ZoneCapacity(u)})
		}
	}
	return l
}

func VerifSnapshot(b policyapi.Backend) *VSnapshot {
	p, ok := b.(*policy)
	if !ok || p.root == nil {
		return nil
	}
	s := &VSnapshot{
		Allowed:  p.allowed.List(),
		Reserved: p.reserved.List(),
		Isolated: p.isolated.List(),
	}
	for _, n := range p.pools {
		total := n.GetSupply().(*supply)
		free := n.FreeSupply().(*supply)
		vp := VPool{
			Name: n.Name(), Kind: string(n.Kind()), Depth: n.RootDistance(),
			Cpus: total.isolated.Union(total.reserved).Union(total.sharable).List(),
			Iso:  total.isolated.List(), Res: total.reserved.List(), Shar: total.sharable.List(),
			FreeIso: free.isolated.List(), FreeRes: free.reserved.List(), FreeShar: free.sharable.List(),
			GrantedShared: free.grantedShared, GrantedReserved: free.grantedReserved,
			AllocShared: free.AllocatableSharedCPU(true), AllocReserved: free.AllocatableReservedCPU(),
			Mem: n.GetMemset(memoryDRAM).SortedMembers(), PMem: n.GetMemset(memoryPMEM).SortedMembers(), HBM: n.GetMemset(memoryHBM).SortedMembers(),
		}
		if !n.IsRootNode() {
			vp.Parent = n.Parent().Name()
		}
		s.Pools = append(s.Pools, vp)
	}
	s.Grants = []VGrant{}
	for id, g := range p.allocations.grants {
		s.Grants = append(s.Grants, VGrant{
			ID: id, Pool: g.GetCPUNode().Name(), Exclusive: g.ExclusiveCPUs().List(), Isolated: g.IsolatedCPUs().List(),
			CPUType: g.CPUType().String(), Portion: g.CPUPortion(), MemType: g.MemoryType().String(),
			MemZone: vMaskSlice(g.GetMemoryZone()), MemSize: g.GetMemorySize(), MemPreserve: g.MemoryType() == memoryPreserve,
		})
	}
	sort.Slice(s.Grants, func(i, j int) bool { return s.Grants[i].ID < s.Grants[j].ID })
	s.Libmem = VSnapLibmem(p.memAllocator)
	return s
}

// VRequest exposes the request the policy derives for a container (eligibility table).
type VReq struct {
	Full     int    `json:"full"`
	Fraction int    `json:"fraction"`
	Isolate  bool   `json:"isolate"`
	CPUType  string `json:"cputype"`
	Prio     int    `json:"prio"`
	MemType  string `json:"memtype"`
	HideHT   bool   `json:"hide_ht"`
	// inputs of the decision table, as computed by the policy's own helpers
	InQoS        string `json:"in_qos"`
	InMilli      int    `json:"in_milli"`
	InPreserve   bool   `json:"in_preserve"`
	InPrefRes    bool   `json:"in_prefer_reserved"`
	InExplRes    bool   `json:"in_explicit_reservation"`
	InNsReserved bool   `json:"in_ns_reserved"`
	InIso        bool   `json:"in_isolated"`
	InIsoKind    int    `json:"in_isolated_kind"`
	InShared     bool   `json:"in_shared"`
	InSharedKind int    `json:"in_shared_kind"`
}

type cacheContainer = cache.Container

// VerifPrefs returns what the eligibility rules derive for a container right now.
func VerifPrefs(ci interface{}) *VReq {
	c, ok := ci.(cacheContainer)
	if !ok {
		return nil
	}
	pod, ok := c.GetPod()
	if !ok {
		return nil
	}
	full, fraction, isolate, cpuType, prio := cpuAllocationPreferences(pod, c)
	_, _, mtype := memoryAllocationPreference(pod, c)
	r := &VReq{Full: full, Fraction: fraction, Isolate: isolate, CPUType: cpuType.String(), Prio: int(prio), MemType: mtype.String(),
		HideHT: hideHyperthreadsPreference(pod, c)}
	reqs, ok := c.GetResourceUpdates()
	if !ok {
		reqs = c.GetResourceRequirements()
	}
	q := reqs.Requests["cpu"]
	r.InQoS = string(pod.GetQOSClass())
	r.InMilli = int(q.MilliValue())
	r.InPreserve = c.PreserveCpuResources()
	r.InPrefRes, r.InExplRes = checkReservedCPUsAnnotations(c)
	r.InNsReserved = checkReservedPoolNamespaces(c.GetNamespace())
	var k prefKind
	r.InIso, k = isolatedCPUsPreference(pod, c)
	r.InIsoKind = int(k)
	r.InShared, k = sharedCPUsPreference(pod, c)
	r.InSharedKind = int(k)
	return r
}

// VProbe is the outcome of one release-and-put-back round on the live policy: what UpdateResources does
// when the new allocation is refused (releasePool, updateSharedAllocations, reinstateGrants(.., true)).
type VProbe struct {
	ID       string `json:"id"`
	Err      string `json:"err,omitempty"`
	CPUSide  bool   `json:"cpu_side"`  // the refusal came from supply.reserve's CPU tests
	Same     bool   `json:"same"`      // pools and the CPU part of every grant are what they were
	FillsPool bool  `json:"fills_pool"` // the grant used its pool's sharable capacity to the last milli-CPU
}

func vCPUState(p *policy) ([]VPool, map[string]VGrant) {
	s := VerifSnapshot(p)
	gs := map[string]VGrant{}
	for _, g := range s.Grants {
		g.MemZone, g.MemSize = nil, 0
		gs[g.ID] = g
	}
	return s.Pools, gs
}

// VerifRestoreProbe releases every grant in turn and puts it back the way a refused update does. It changes
// the policy (memory zones may move), so the harness calls it only after the last event of a history.
func VerifRestoreProbe(b policyapi.Backend) []VProbe {
	p, ok := b.(*policy)
	if !ok || p.root == nil {
		return nil
	}
	ids := []string{}
	for id := range p.allocations.grants {
		ids = append(ids, id)
	}
	sort.Strings(ids)
	out := []VProbe{}
	for _, id := range ids {
		g := p.allocations.grants[id]
		pools0, grants0 := vCPUState(p)
		free := g.GetCPUNode().FreeSupply().(*supply)
		pr := VProbe{ID: id, FillsPool: g.CPUType() == cpuNormal && free.AllocatableSharedCPU() == 0}
		grant, found := p.releasePool(g.GetContainer())
		if !found {
			continue
		}
		p.updateSharedAllocations(&grant)
		err := p.reinstateGrants(map[string]Grant{id: grant}, true)
		if err != nil {
			pr.Err = err.Error()
			pr.CPUSide = strings.Contains(pr.Err, "can't reserve")
			out = append(out, pr)
			break // the state is no longer the one the history reached
		}
		pools1, grants1 := vCPUState(p)
		pr.Same = reflect.DeepEqual(pools0, pools1) && reflect.DeepEqual(grants0, grants1)
		out = append(out, pr)
		if !pr.Same {
			break
		}
	}
	return out
}
