//go:build verif

// Read-only accessor for the CPU class assignments stored in the cache (overlay, tag verif).
package cpu

import (
	"sort"

	"github.com/containers/nri-plugins/pkg/resmgr/cache"
)

func VerifClassAssignments(c cache.Cache) map[string][]int {
	out := map[string][]int{}
	a := &cpuClassAssignments{}
	if !c.GetPolicyEntry(cacheKeyCPUAssignments, a) {
		return out
	}
	for class, ids := range *a {
		l := []int{}
		for _, id := range ids.Members() {
			l = append(l, int(id))
		}
		sort.Ints(l)
		out[class] = l
	}
	return out
}
