//go:build verif

package main

import (
	"context"
	"io"
	"math/rand"
	"os"
	"strconv"
	"testing"

	"github.com/sirupsen/logrus"
)

func TestVerifC14MemoryQos(t *testing.T) {
	if os.Getenv("VERIF_OUT_FILE") == "" {
		t.Skip()
	}
	log = logrus.New()
	log.SetOutput(io.Discard)
	seed, _ := strconv.ParseInt(os.Getenv("VERIF_SEED"), 10, 64)
	n, _ := strconv.Atoi(os.Getenv("VERIF_N"))
	r := rand.New(rand.NewSource(seed))
	f, out := vc14Out()
	defer f.Close()
	names := []string{"c0", "c1", "app.x", "a/b"}
	keys := []string{"class", "memory.high", "memory.swap.max", "memory.max", "bogus", ""}
	full := "classes:\n- name: class-a\n  swaplimitratio: 0.5\nunifiedannotations: [memory.high, memory.swap.max]"
	configs := []string{full, full, full, "<nil>", "", "classes: []", "classes:\n- name: class-a\n  swaplimitratio: 0.5\nunifiedannotations: [memory.high, memory.swap.max]", "classes:\n- name: class-a\n", "unifiedannotations: [memory.high]", "{", "classes: 5", "classes:\n- name: class-a\n  swaplimitratio: -3\n"}
	for i := 0; i < n; i++ {
		p := &plugin{}
		cfg := configs[r.Intn(len(configs))]
		if cfg != "<nil>" {
			vc14Run(out, "memory-qos", "Configure", i, cfg, nil, nil, func() error { _, err := p.Configure(context.Background(), cfg, "rt", "v"); return err })
		}
		ctr := vc14Ctr(r, names)
		pod := vc14Pod(r, annotationSuffix, keys, append([]string{ctr.Name}, names...), []string{"class-a", "class-a", "1000000", "max"})
		vc14Run(out, "memory-qos", "CreateContainer", i, cfg, pod, ctr, func() error { _, _, err := p.CreateContainer(context.Background(), pod, ctr); return err })
	}
}
