//go:build verif

package main

import (
	"context"
	"io"
	"math/rand"
	"os"
	"strconv"
	"testing"

	"github.com/sirupsen/logrus"
)

func TestVerifC14Memtierd(t *testing.T) {
	if os.Getenv("VERIF_OUT_FILE") == "" {
		t.Skip()
	}
	log = logrus.New()
	log.SetOutput(io.Discard)
	seed, _ := strconv.ParseInt(os.Getenv("VERIF_SEED"), 10, 64)
	n, _ := strconv.Atoi(os.Getenv("VERIF_N"))
	r := rand.New(rand.NewSource(seed))
	f, out := vc14Out()
	defer f.Close()
	dir, _ := os.MkdirTemp("", "vc14mt")
	defer os.RemoveAll(dir)
	opt.runDir = dir + "/run"
	names := []string{"c0", "c1", "app.x", "a/b"}
	keys := []string{"class", "memory.high", "memory.swap.max", "bogus", ""}
	configs := []string{"<nil>", "", "classes: []", "classes:\n- name: class-a\n  allowswap: true\n", "classes:\n- name: class-a\n  memtierdconfig: |\n    policy:\n      name: age\n", "classes:\n- name: class-a\n  allowswap: false\n- name: x\n", "{", "classes: 5"}
	for i := 0; i < n; i++ {
		p := &plugin{ctrMemtierdEnv: map[string]*memtierdEnv{}, cgroupsDir: dir + "/cg"}
		cfg := configs[r.Intn(len(configs))]
		if cfg != "<nil>" {
			vc14Run(out, "memtierd", "Configure", i, cfg, nil, nil, func() error { _, err := p.Configure(context.Background(), cfg, "rt", "v"); return err })
		}
		ctr := vc14Ctr(r, names)
		pod := vc14Pod(r, annotationSuffix, keys, append([]string{ctr.Name}, names...), []string{"class-a", "class-a", "swap"})
		vc14Run(out, "memtierd", "CreateContainer", i, cfg, pod, ctr, func() error { _, _, err := p.CreateContainer(context.Background(), pod, ctr); return err })
		vc14Run(out, "memtierd", "StartContainer", i, cfg, pod, ctr, func() error { return p.StartContainer(context.Background(), pod, ctr) })
		vc14Run(out, "memtierd", "StopContainer", i, cfg, pod, ctr, func() error { _, err := p.StopContainer(context.Background(), pod, ctr); return err })
	}
}
