//go:build verif

package main

import (
	"context"
	"io"
	"math/rand"
	"os"
	"strconv"
	"testing"

	"github.com/sirupsen/logrus"
)

func TestVerifC14Sgx(t *testing.T) {
	if os.Getenv("VERIF_OUT_FILE") == "" {
		t.Skip()
	}
	log = logrus.New()
	log.SetOutput(io.Discard)
	seed, _ := strconv.ParseInt(os.Getenv("VERIF_SEED"), 10, 64)
	n, _ := strconv.Atoi(os.Getenv("VERIF_N"))
	r := rand.New(rand.NewSource(seed))
	f, out := vc14Out()
	defer f.Close()
	names := []string{"c0", "c1", "app.x", "a/b"}
	for i := 0; i < n; i++ {
		p := &plugin{}
		verbose = r.Intn(2) == 0
		ctr := vc14Ctr(r, names)
		pod := vc14Pod(r, "", []string{epcLimitKey, "bogus"}, append([]string{ctr.Name}, names...), []string{"1", "65536", "4096"})
		vc14Run(out, "sgx-epc", "CreateContainer", i, "-", pod, ctr, func() error { _, _, err := p.CreateContainer(context.Background(), pod, ctr); return err })
	}
}
