//go:build verif

// C14 harness, shared by the three side plugins (copied with the package clause rewritten):
// generated NRI pods/containers with arbitrary annotation values and absent optional
// sub-messages, run under recover().
package PKGNAME

import (
	"encoding/json"
	"fmt"
	"math/rand"
	"os"
	"runtime/debug"
	"strings"

	"github.com/containerd/nri/pkg/api"
)

type vc14Rec struct {
	Plugin  string `json:"plugin"`
	Handler string `json:"handler"`
	Case    int    `json:"case"`
	Kind    string `json:"kind"` // ok | err | panic
	Where   string `json:"where,omitempty"`
	Input   string `json:"input"`
	Config  string `json:"config"`
}

var vc14Junk = []string{"", "x", "-1", "0", "1", "18446744073709551616", "9999999999999999999999", "true false", "{", "[1,2", "null", "~", "\x00", "a,,b", `{"a":1}`, "- a\n- b", "TRUE", "0x10", "1e3", " 5", "５", strings.Repeat("9", 400), "max", "class-a", "nosuch"}

// values come half from `valid` (plausible for the plugin), half from the junk list, so that
// the code behind a successfully parsed annotation is reached as often as the error paths
func vc14Pod(r *rand.Rand, suffix string, keys []string, ctrNames []string, valid []string) *api.PodSandbox {
	pod := &api.PodSandbox{Id: "p", Name: "pod0", Namespace: "ns"}
	if r.Intn(8) == 0 {
		return pod // nil annotations
	}
	pod.Annotations = map[string]string{}
	for n := r.Intn(4); n > 0; n-- {
		k := keys[r.Intn(len(keys))] + suffix
		switch r.Intn(6) {
		case 0, 4:
			k += "/" + ctrNames[0] // the container the request is about
		case 5:
			k += "/" + ctrNames[r.Intn(len(ctrNames))]
		case 1:
			k += "/container." + ctrNames[r.Intn(len(ctrNames))]
		case 2:
			k += "/pod"
		}
		if len(valid) > 0 && r.Intn(2) == 0 {
			pod.Annotations[k] = valid[r.Intn(len(valid))]
		} else {
			pod.Annotations[k] = vc14Junk[r.Intn(len(vc14Junk))]
		}
	}
	if r.Intn(4) == 0 {
		pod.Annotations["unrelated.example.com/key"] = "v"
	}
	return pod
}

func vc14Ctr(r *rand.Rand, ctrNames []string) *api.Container {
	c := &api.Container{Id: "0123456789abcdef", Name: ctrNames[r.Intn(len(ctrNames))]}
	switch r.Intn(6) {
	case 0: // no Linux section at all
	case 1:
		c.Linux = &api.LinuxContainer{}
	case 2:
		c.Linux = &api.LinuxContainer{Resources: &api.LinuxResources{}}
	case 3:
		c.Linux = &api.LinuxContainer{Resources: &api.LinuxResources{Memory: &api.LinuxMemory{}}}
	default:
		c.Linux = &api.LinuxContainer{CgroupsPath: "/kubepods/x", Resources: &api.LinuxResources{Memory: &api.LinuxMemory{Limit: &api.OptionalInt64{Value: int64(r.Intn(1 << 30))}}}}
	}
	return c
}

func vc14Where() string {
	st := string(debug.Stack())
	for _, l := range strings.Split(st, "\n") {
		if strings.Contains(l, "/cmd/plugins/") && strings.Contains(l, ".go:") && !strings.Contains(l, "zz_verif") && !strings.Contains(l, "/verif/") {
			l = strings.TrimSpace(l)
			if i := strings.Index(l, " +0x"); i > 0 {
				l = l[:i]
			}
			if i := strings.LastIndex(l, "/cmd/plugins/"); i >= 0 {
				l = l[i+1:]
			}
			return l
		}
	}
	return "?"
}

func vc14Run(out *json.Encoder, plugin, handler string, n int, cfg string, pod *api.PodSandbox, ctr *api.Container, f func() error) {
	rec := vc14Rec{Plugin: plugin, Handler: handler, Case: n, Config: cfg}
	in, _ := json.Marshal(map[string]interface{}{"annotations": pod.GetAnnotations(), "ctr": ctr.GetName(), "linux": ctr.GetLinux() != nil,
		"resources": ctr.GetLinux().GetResources() != nil, "memory": ctr.GetLinux().GetResources().GetMemory() != nil,
		"limit": ctr.GetLinux().GetResources().GetMemory().GetLimit() != nil})
	rec.Input = string(in)
	func() {
		defer func() {
			if e := recover(); e != nil {
				rec.Kind = "panic"
				rec.Where = fmt.Sprintf("%s: %v", vc14Where(), e)
			}
		}()
		if err := f(); err != nil {
			rec.Kind = "err"
		} else {
			rec.Kind = "ok"
		}
	}()
	out.Encode(&rec)
}

func vc14Out() (*os.File, *json.Encoder) {
	f, err := os.Create(os.Getenv("VERIF_OUT_FILE"))
	if err != nil {
		panic(err)
	}
	return f, json.NewEncoder(f)
}
