//go:build verif

// C17 harness (in-package, injected by overlay): drives the real updateNodeConfig /
// updateGroupConfig of pkg/agent with fake configuration objects, a recording notify
// callback and a recording ConfigInterface, and
//   - writes one observation code per step (same encoding as C17_Model.obs_code) for the
//     correspondence check,
//   - evaluates the clauses of property C17 directly on what the agent did (oracle);
//     the oracle keeps its own account of the two event streams and never looks at the
//     agent's fields.
package agent

import (
	"bufio"
	"context"
	"encoding/json"
	"errors"
	"fmt"
	"net/http"
	"os"
	"path/filepath"
	"sync"
	"testing"
	"time"

	metav1 "k8s.io/apimachinery/pkg/apis/meta/v1"
	"k8s.io/apimachinery/pkg/runtime"
	"k8s.io/apimachinery/pkg/runtime/schema"
	"k8s.io/apimachinery/pkg/types"
	apiwatch "k8s.io/apimachinery/pkg/watch"
	"k8s.io/client-go/rest"

	"github.com/containers/nri-plugins/pkg/agent/watch"
	logger "github.com/containers/nri-plugins/pkg/log"
)

// ---- fake configuration objects

type vc17Cfg struct { // implements cfgapi.Validator
	metav1.TypeMeta
	metav1.ObjectMeta
	pos    int // 1-based position in the table of the case
	valid  bool
	accept bool
}

func (c *vc17Cfg) GetObjectKind() schema.ObjectKind { return schema.EmptyObjectKind }
func (c *vc17Cfg) DeepCopyObject() runtime.Object   { cp := *c; return &cp }
func (c *vc17Cfg) Validate() error {
	if !c.valid {
		return errors.New("verif: invalid configuration")
	}
	return nil
}
func (c *vc17Cfg) vpos() int { return c.pos }

type vc17Plain struct { // no Validate method: always valid
	metav1.TypeMeta
	metav1.ObjectMeta
	pos    int
	accept bool
}

func (c *vc17Plain) GetObjectKind() schema.ObjectKind { return schema.EmptyObjectKind }
func (c *vc17Plain) DeepCopyObject() runtime.Object   { cp := *c; return &cp }
func (c *vc17Plain) vpos() int                        { return c.pos }

type vc17Pos interface{ vpos() int }

type vc17Spec struct {
	UID    uint64 `json:"uid"`
	Gen    int64  `json:"gen"`
	Name   int    `json:"name"`
	Valid  bool   `json:"valid"`
	Accept bool   `json:"accept"`
	Plain  bool   `json:"plain"` // use the type without a Validate method (only if valid)
}

func vc17Name(n int) string { return fmt.Sprintf("cfg-%d", n) }

func (s vc17Spec) object(pos int) runtime.Object {
	om := metav1.ObjectMeta{Name: vc17Name(s.Name), UID: types.UID(fmt.Sprintf("uid-%d", s.UID)), Generation: s.Gen}
	if s.Plain && s.Valid {
		return &vc17Plain{ObjectMeta: om, pos: pos, accept: s.Accept}
	}
	return &vc17Cfg{ObjectMeta: om, pos: pos, valid: s.Valid, accept: s.Accept}
}

// ---- recording environment

type vc17Call struct {
	Kind string `json:"kind"` // notify | clear | status
	Pos  int    `json:"pos,omitempty"`
	Name int    `json:"name"`
	Gen  int64  `json:"gen,omitempty"`
	OK   bool   `json:"ok,omitempty"`
}

type vc17Env struct {
	calls []vc17Call
	node  string
	bad   string
}

func (e *vc17Env) SetKubeClient(cli *http.Client, cfg *rest.Config) error { return nil }
func (e *vc17Env) CreateWatch(ctx context.Context, ns, name string) (watch.Interface, error) {
	return nil, errors.New("verif: no watches")
}
func (e *vc17Env) Unmarshal(data []byte, file string) (runtime.Object, error) {
	return nil, errors.New("verif: no files")
}
func (e *vc17Env) PatchStatus(ctx context.Context, ns, name string, pt types.PatchType, data []byte, opts metav1.PatchOptions) error {
	var p struct {
		Status struct {
			Nodes map[string]*struct {
				Status     string `json:"status"`
				Generation int64  `json:"generation"`
			} `json:"nodes"`
		} `json:"status"`
	}
	if err := json.Unmarshal(data, &p); err != nil {
		e.bad = "unparsable status patch: " + string(data)
		return nil
	}
	var n int
	if _, err := fmt.Sscanf(name, "cfg-%d", &n); err != nil {
		e.bad = "status patch for unknown resource " + name
		return nil
	}
	st, ok := p.Status.Nodes[e.node]
	if !ok {
		e.bad = "status patch without this node's entry: " + string(data)
		return nil
	}
	if st == nil {
		e.calls = append(e.calls, vc17Call{Kind: "clear", Name: n})
	} else {
		e.calls = append(e.calls, vc17Call{Kind: "status", Name: n, Gen: st.Generation, OK: st.Status == "Success"})
	}
	return nil
}

func (e *vc17Env) notify(cfg interface{}) (bool, error) {
	p, ok := cfg.(vc17Pos)
	if !ok {
		e.bad = fmt.Sprintf("notify called with %T", cfg)
		return false, nil
	}
	e.calls = append(e.calls, vc17Call{Kind: "notify", Pos: p.vpos()})
	acc := true
	switch c := cfg.(type) {
	case *vc17Cfg:
		acc = c.accept
	case *vc17Plain:
		acc = c.accept
	}
	if !acc {
		return false, errors.New("verif: configuration rejected by the plugin")
	}
	return false, nil
}

func vc17NewAgent() (*Agent, *vc17Env, error) {
	env := &vc17Env{node: "verif-node"}
	a, err := New(env, WithConfigFile("/nonexistent/verif-c17"), WithConfigNamespace("verif-ns"))
	if err != nil {
		return nil, nil, err
	}
	a.nodeName = env.node
	a.notifyFn = env.notify
	return a, env, nil
}

func vc17PosOf(o metav1.Object) uint64 {
	if o == nil {
		return 0
	}
	if p, ok := o.(vc17Pos); ok {
		return uint64(p.vpos())
	}
	return 255
}

// same encoding as C17_Model.obs_code
func vc17Code(a *Agent, calls []vc17Call) uint64 {
	c := uint64(1)
	for _, d := range []uint64{vc17PosOf(a.nodeCfg), vc17PosOf(a.groupCfg), vc17PosOf(a.currentCfg)} {
		c = c*256 + d
	}
	for _, x := range calls {
		var d uint64
		switch x.Kind {
		case "notify":
			d = uint64(x.Pos)
		case "clear":
			d = 64 + uint64(x.Name)
		case "status":
			d = 128 + 8*uint64(x.Name) + uint64(x.Gen)
			if x.OK {
				d += 64
			}
		}
		c = c*256 + d
	}
	return c
}

// ---- cases

type vc17Table struct {
	Cfgs     []vc17Spec `json:"cfgs"`
	Alpha    [][2]int   `json:"alpha"` // [is_group, table position or 0 for a deletion]
	Coherent bool       `json:"coherent"`
	Seqs     [][]int    `json:"seqs"`
	Sweeps   []struct {
		Prefix []int `json:"prefix"`
		Depth  int   `json:"depth"`
	} `json:"sweeps"`
}

type vc17Viol struct {
	Sig  string       `json:"sig"`
	What string       `json:"what"`
	Seq  []int        `json:"seq"`
	Step int          `json:"step"`
	Obs  [][]vc17Call `json:"calls_per_step"`
}

type vc17Out struct {
	Table  int        `json:"table"`
	Kind   string     `json:"kind"`
	Index  int        `json:"index"`
	Codes  []uint64   `json:"codes"`
	Viols  []vc17Viol `json:"viols,omitempty"`
	Notifs int        `json:"notifs"`
	Err    string     `json:"err,omitempty"`
}

// the oracle's own account of the two streams
type vc17Truth struct {
	node, group int // table position of the resource that currently exists, 0 = none
	lastNotified int
}

func vc17SameVersion(t *vc17Table, p, q int) bool {
	if p == 0 || q == 0 {
		return p == q
	}
	a, b := t.Cfgs[p-1], t.Cfgs[q-1]
	return a.UID == b.UID && a.Gen == b.Gen && a.Gen != 0
}

// play one sequence on a fresh agent; returns per-step codes and calls, and the oracle verdicts
// (for step indices >= checkFrom only)
func vc17Play(t *vc17Table, seq []int, checkFrom int) (codes []uint64, perStep [][]vc17Call, viols []vc17Viol, notifs int, err error) {
	a, env, err := vc17NewAgent()
	if err != nil {
		return nil, nil, nil, 0, err
	}
	tr := vc17Truth{}
	add := func(step int, sig, what string) {
		viols = append(viols, vc17Viol{Sig: sig, What: what, Seq: append([]int{}, seq...), Step: step})
	}
	for step, ai := range seq {
		ev := t.Alpha[ai]
		isGroup, pos := ev[0] == 1, ev[1]
		var obj runtime.Object
		if pos != 0 {
			obj = t.Cfgs[pos-1].object(pos)
		}
		env.calls = nil
		if isGroup {
			a.updateGroupConfig(obj)
		} else {
			a.updateNodeConfig(obj)
		}
		calls := env.calls
		codes = append(codes, vc17Code(a, calls))
		perStep = append(perStep, calls)
		if env.bad != "" {
			return codes, perStep, viols, notifs, errors.New(env.bad)
		}

		// ---------------- oracle (on the calls only)
		var notified []int
		for _, c := range calls {
			if c.Kind == "notify" {
				notified = append(notified, c.Pos)
				notifs++
			}
		}
		prev := tr
		if isGroup {
			tr.group = pos
		} else {
			tr.node = pos
		}
		if len(notified) > 0 {
			tr.lastNotified = notified[len(notified)-1]
		}
		if step < checkFrom {
			continue
		}
		eff := tr.node
		if eff == 0 {
			eff = tr.group
		}
		// clause 5: a configuration failing validation is never handed to the plugin
		for _, p := range notified {
			if p < 1 || p > len(t.Cfgs) || !t.Cfgs[p-1].Valid {
				add(step, "invalid-config-notified", fmt.Sprintf("configuration #%d failing validation was passed to the notify callback", p))
			}
		}
		// clause 2: a group/default update never replaces an existing node-specific configuration
		if isGroup && prev.node != 0 && len(calls) > 0 {
			add(step, "group-update-acted-while-node-config-exists", fmt.Sprintf("group event (#%d) with node config #%d present caused calls %v", pos, prev.node, calls))
		}
		// clause 4: re-delivery of the resource version that currently exists: nothing happens
		cur := prev.node
		if isGroup {
			cur = prev.group
		}
		if vc17SameVersion(t, pos, cur) && len(calls) > 0 {
			add(step, "redelivery-caused-calls", fmt.Sprintf("re-delivery of #%d (same uid and non-zero generation as #%d, or repeated deletion) caused calls %v", pos, cur, calls))
		}
		if t.Coherent {
			// at most one notification per event, and only of the configuration effective now
			if len(notified) > 1 {
				add(step, "several-notifications", fmt.Sprintf("one event caused notifications %v", notified))
			}
			for _, p := range notified {
				if p != eff {
					add(step, "notified-not-effective", fmt.Sprintf("notified #%d while the effective configuration is #%d (node #%d, group #%d)", p, eff, tr.node, tr.group))
				}
			}
			// clause 3: deleting the node-specific configuration falls back to the group one
			if !isGroup && pos == 0 && prev.node != 0 {
				want := 0
				if tr.group != 0 && t.Cfgs[tr.group-1].Valid {
					want = tr.group
				}
				got := 0
				if len(notified) > 0 {
					got = notified[0]
				}
				if got != want {
					add(step, "delete-did-not-fall-back", fmt.Sprintf("node config #%d deleted with group config #%d: notified #%d, expected #%d", prev.node, tr.group, got, want))
				}
			}
			// clause 1: the most recently delivered configuration is the effective one (if valid)
			if eff != 0 && t.Cfgs[eff-1].Valid && tr.lastNotified != eff {
				add(step, "last-delivered-is-not-effective", fmt.Sprintf("effective configuration is #%d (node #%d, group #%d) but the last one delivered is #%d", eff, tr.node, tr.group, tr.lastNotified))
			}
		}
	}
	for i := range viols {
		viols[i].Obs = perStep
	}
	return codes, perStep, viols, notifs, nil
}

func TestVerifC17(t *testing.T) {
	out := os.Getenv("VERIF_OUT")
	if out == "" {
		t.Skip("VERIF_OUT not set")
	}
	logger.SetLevel(logger.LevelFatal)
	data, err := os.ReadFile(filepath.Join(out, "c17_in.json"))
	if err != nil {
		t.Fatal(err)
	}
	var tables []vc17Table
	if err := json.Unmarshal(data, &tables); err != nil {
		t.Fatal(err)
	}
	f, err := os.Create(filepath.Join(out, "c17_out.jsonl"))
	if err != nil {
		t.Fatal(err)
	}
	defer f.Close()
	w := bufio.NewWriterSize(f, 1<<20)
	defer w.Flush()
	enc := json.NewEncoder(w)

	for ti := range tables {
		tb := &tables[ti]
		for si, seq := range tb.Seqs {
			codes, _, viols, n, err := vc17Play(tb, seq, 0)
			o := vc17Out{Table: ti, Kind: "seq", Index: si, Codes: codes, Viols: viols, Notifs: n}
			if err != nil {
				o.Err = err.Error()
			}
			enc.Encode(&o)
		}
		for wi, sw := range tb.Sweeps {
			o := vc17Out{Table: ti, Kind: "sweep", Index: wi}
			var rec func(seq []int, depth int)
			rec = func(seq []int, depth int) {
				if len(seq) == 0 {
					a, _, err := vc17NewAgent()
					if err != nil {
						o.Err = err.Error()
						return
					}
					o.Codes = append(o.Codes, vc17Code(a, nil))
				} else {
					codes, _, viols, n, err := vc17Play(tb, seq, len(seq)-1)
					if err != nil {
						o.Err = err.Error()
					}
					o.Codes = append(o.Codes, codes[len(codes)-1])
					o.Notifs += n
					if len(o.Viols) < 20 {
						o.Viols = append(o.Viols, viols...)
					}
				}
				if depth == 0 {
					return
				}
				for i := range tb.Alpha {
					rec(append(append([]int{}, seq...), i), depth-1)
				}
			}
			rec(sw.Prefix, sw.Depth)
			enc.Encode(&o)
		}
	}
}

// ---------------------------------------------------------------------------------------
// Dispatch: the same kind of scenario driven through the real Agent.Start select loop.
// Node-specific events come from the real file watch (watch.File + fsnotify) on a temp file,
// group events from an apimachinery FakeWatcher installed as a.groupCfgWatch.  A twin agent
// receives the same events through direct calls; the calls of both must agree step by step.

type vc17DispStep struct {
	Op   string     `json:"op"`
	Want []vc17Call `json:"want"`
	Got  []vc17Call `json:"got"`
}

func TestVerifC17Dispatch(t *testing.T) {
	out := os.Getenv("VERIF_OUT")
	if out == "" {
		t.Skip("VERIF_OUT not set")
	}
	logger.SetLevel(logger.LevelFatal)
	res := struct {
		Skipped string         `json:"skipped,omitempty"`
		Steps   []vc17DispStep `json:"steps"`
		OK      bool           `json:"ok"`
		What    string         `json:"what,omitempty"`
	}{}
	defer func() {
		data, _ := json.Marshal(&res)
		os.WriteFile(filepath.Join(out, "c17_dispatch.json"), data, 0o644)
		if !res.OK && res.Skipped == "" {
			t.Errorf("dispatch differs: %s", res.What)
		}
	}()

	specs := []vc17Spec{
		{UID: 1, Gen: 0, Name: 0, Valid: true, Accept: true},  // node file, generation 0
		{UID: 1, Gen: 0, Name: 0, Valid: true, Accept: true},  // node file rewritten (still generation 0)
		{UID: 9, Gen: 1, Name: 1, Valid: true, Accept: true},  // group g1
		{UID: 9, Gen: 2, Name: 1, Valid: true, Accept: true},  // group g2
		{UID: 3, Gen: 0, Name: 0, Valid: false, Accept: true}, // node file failing validation
	}
	dir, err := os.MkdirTemp("", "verif-c17-")
	if err != nil {
		t.Fatal(err)
	}
	defer os.RemoveAll(dir)
	cfgFile := filepath.Join(dir, "config.yaml")

	env := &vc17EnvSync{vc17Env: vc17Env{node: "verif-node"}}
	env.specs = specs
	a, err := New(env, WithConfigFile(cfgFile), WithConfigNamespace("verif-ns"))
	if err != nil {
		t.Fatal(err)
	}
	a.nodeName = env.node
	gw := apiwatch.NewFake()
	a.groupCfgWatch = gw

	twin, tenv, err := vc17NewAgent()
	if err != nil {
		t.Fatal(err)
	}

	startErr := make(chan error, 1)
	go func() { startErr <- a.Start(env.notify) }()
	defer func() {
		defer func() { recover() }()
		close(a.stopC)
	}()

	barrier := func() bool {
		// two no-op events through the unbuffered fake watch: when the second is taken the
		// loop has finished processing everything it received before the first
		for i := 0; i < 2; i++ {
			done := make(chan struct{})
			go func() { gw.Action(apiwatch.Bookmark, nil); close(done) }()
			select {
			case <-done:
			case err := <-startErr:
				res.Skipped = fmt.Sprintf("Agent.Start returned early: %v", err)
				return false
			case <-time.After(10 * time.Second):
				res.What = "Agent.Start loop does not consume group watch events"
				return false
			}
		}
		return true
	}
	if !barrier() {
		return
	}

	type step struct {
		op    string
		group bool
		pos   int // 0 = delete
	}
	steps := []step{
		{"group added g1", true, 3},
		{"node file created n1", false, 1},
		{"group modified g2 (node config present)", true, 4},
		{"node file replaced n1' (generation 0)", false, 2},
		{"node file replaced by one failing validation", false, 5},
		{"node file removed", false, 0},
		{"group deleted", true, 0},
		{"group added g1", true, 3},
	}
	res.OK = true
	for _, s := range steps {
		// expected: the twin, by direct calls
		tenv.calls = nil
		var obj runtime.Object
		if s.pos != 0 {
			obj = specs[s.pos-1].object(s.pos)
		}
		if s.group {
			twin.updateGroupConfig(obj)
		} else {
			twin.updateNodeConfig(obj)
		}
		want := append([]vc17Call{}, tenv.calls...)

		env.reset()
		if s.group {
			if s.pos == 0 {
				gw.Delete(specs[2].object(3))
			} else if s.pos == 3 {
				gw.Add(obj)
			} else {
				gw.Modify(obj)
			}
		} else {
			if s.pos == 0 {
				os.Remove(cfgFile)
			} else {
				tmp := filepath.Join(dir, "tmp-new")
				os.WriteFile(tmp, []byte(fmt.Sprintf("%d\n", s.pos)), 0o644)
				os.Rename(tmp, cfgFile)
			}
			// file events are asynchronous: wait until the expected number of calls was made
			deadline := time.Now().Add(10 * time.Second)
			for env.count() < len(want) && time.Now().Before(deadline) {
				time.Sleep(2 * time.Millisecond)
			}
			time.Sleep(20 * time.Millisecond)
		}
		if !barrier() {
			res.OK = false
			return
		}
		got := env.snapshot()
		res.Steps = append(res.Steps, vc17DispStep{Op: s.op, Want: want, Got: got})
		if fmt.Sprint(want) != fmt.Sprint(got) {
			res.OK = false
			res.What = fmt.Sprintf("step %q through Agent.Start: calls %v, direct update calls give %v", s.op, got, want)
			return
		}
	}
}

// vc17EnvSync: the recording environment, safe for use from the Start goroutine
type vc17EnvSync struct {
	vc17Env
	mu    sync.Mutex
	specs []vc17Spec
}

func (e *vc17EnvSync) PatchStatus(ctx context.Context, ns, name string, pt types.PatchType, data []byte, opts metav1.PatchOptions) error {
	e.mu.Lock()
	defer e.mu.Unlock()
	return e.vc17Env.PatchStatus(ctx, ns, name, pt, data, opts)
}
func (e *vc17EnvSync) notify(cfg interface{}) (bool, error) {
	e.mu.Lock()
	defer e.mu.Unlock()
	return e.vc17Env.notify(cfg)
}
func (e *vc17EnvSync) Unmarshal(data []byte, file string) (runtime.Object, error) {
	var pos int
	if _, err := fmt.Sscanf(string(data), "%d", &pos); err != nil || pos < 1 || pos > len(e.specs) {
		return nil, errors.New("verif: bad file content")
	}
	return e.specs[pos-1].object(pos), nil
}
func (e *vc17EnvSync) reset() { e.mu.Lock(); e.calls = nil; e.mu.Unlock() }
func (e *vc17EnvSync) count() int {
	e.mu.Lock()
	defer e.mu.Unlock()
	return len(e.calls)
}
func (e *vc17EnvSync) snapshot() []vc17Call {
	e.mu.Lock()
	defer e.mu.Unlock()
	return append([]vc17Call{}, e.calls...)
}
