//go:build verif

// C10 harness, part 2: canonical dump of every public getter of every pod / container and of
// the policy entries, used to compare a live cache with the one reloaded from disk.
// Normalisations (documented in the check): nil and empty maps/slices are the same; quantities
// are compared by value; affinity match values are compared as sets (parseSimple builds them
// from a Go map); not compared because the code does not persist them and the property does not
// list them: ctime, pending-change marks / pending NRI requests, /proc-backed task lists.
package cache

import (
	"encoding/json"
	"fmt"
	"sort"
	"strings"

	v1 "k8s.io/api/core/v1"

	resmgr "github.com/containers/nri-plugins/pkg/apis/resmgr/v1alpha1"
	"github.com/containers/nri-plugins/pkg/utils/cpuset"
)

func viaJSON(v interface{}) interface{} {
	data, err := json.Marshal(v)
	if err != nil {
		return "marshal-error: " + err.Error()
	}
	var out interface{}
	json.Unmarshal(data, &out)
	return normEmpty(out)
}

// nil == empty for maps and slices, at every depth: null, {} and [] all become the same token
// (keys are never dropped, so a present-but-empty sub-message still differs from an absent one)
func normEmpty(v interface{}) interface{} {
	if isEmptyJSON(v) {
		return "\u2205"
	}
	switch x := v.(type) {
	case map[string]interface{}:
		for k, e := range x {
			x[k] = normEmpty(e)
		}
		return x
	case []interface{}:
		for i := range x {
			x[i] = normEmpty(x[i])
		}
		return x
	}
	return v
}

func isEmptyJSON(v interface{}) bool {
	switch x := v.(type) {
	case nil:
		return true
	case map[string]interface{}:
		return len(x) == 0
	case []interface{}:
		return len(x) == 0
	}
	return false
}

func kv(v string, ok bool) interface{} { return []interface{}{v, ok} }

func dumpRequirements(r v1.ResourceRequirements) interface{} {
	f := func(l v1.ResourceList) interface{} {
		m := map[string]interface{}{}
		for name, q := range l {
			m[string(name)] = map[string]interface{}{"value": q.Value(), "milli": q.MilliValue(), "str": q.String()}
		}
		return m
	}
	return map[string]interface{}{"requests": f(r.Requests), "limits": f(r.Limits), "claims": viaJSON(r.Claims)}
}

func dumpAffinities(as []*Affinity, err error) interface{} {
	if err != nil {
		return "error"
	}
	var out []string
	for _, a := range as {
		ex := func(e *resmgr.Expression) interface{} {
			if e == nil {
				return nil
			}
			vals := append([]string{}, e.Values...)
			sort.Strings(vals)
			return map[string]interface{}{"key": e.Key, "op": string(e.Op), "values": strings.Join(vals, "\x00")}
		}
		data, _ := json.Marshal(map[string]interface{}{"scope": ex(a.Scope), "match": ex(a.Match), "weight": a.Weight})
		out = append(out, string(data))
	}
	sort.Strings(out) // parseSimple iterates over a map
	return strings.Join(out, "\n")
}

func evalKey(v interface{}) interface{} {
	switch x := v.(type) {
	case error:
		return "error"
	case Pod:
		return "pod:" + x.GetID()
	case string:
		return x
	case v1.PodQOSClass:
		return string(x)
	case map[string]string:
		return viaJSON(x)
	}
	return fmt.Sprintf("%T", v)
}

func dumpPod(p Pod, probes, cnames []string) map[string]interface{} {
	m := map[string]interface{}{
		"id": p.GetID(), "uid": p.GetUID(), "name": p.GetName(), "namespace": p.GetNamespace(),
		"qos": string(p.GetQOSClass()), "cgroupparent": p.GetCgroupParent(), "pretty": p.PrettyName(),
		"string": p.String(), "podresources": viaJSON(p.GetPodResources()), "scope": viaJSON(p.ScopeExpression()),
	}
	var ids []string
	for _, c := range p.GetContainers() {
		ids = append(ids, c.GetID())
	}
	sort.Strings(ids)
	m["containers"] = strings.Join(ids, ",")
	pr := map[string]interface{}{}
	for _, k := range probes {
		l, lok := p.GetLabel(k)
		a, aok := p.GetAnnotation(k)
		rl, rlok := p.GetResmgrLabel(k)
		ra, raok := p.GetResmgrAnnotation(k)
		e := []interface{}{kv(l, lok), kv(a, aok), kv(rl, rlok), kv(ra, raok)}
		for _, cn := range cnames {
			v, ok := p.GetEffectiveAnnotation(k, cn)
			e = append(e, kv(v, ok))
		}
		pr[k] = e
	}
	m["probes"] = pr
	aff := map[string]interface{}{}
	for _, cn := range cnames {
		aff[cn] = dumpAffinities(p.GetContainerAffinity(cn))
	}
	m["affinity"] = aff
	ek := map[string]interface{}{}
	for _, k := range []string{resmgr.KeyName, resmgr.KeyNamespace, resmgr.KeyQOSClass, resmgr.KeyLabels, resmgr.KeyID, resmgr.KeyUID, "bogus"} {
		ek[k] = evalKey(p.EvalKey(k))
	}
	m["evalkey"] = ek
	for _, ref := range []string{"name", "labels/l1", "uid"} {
		v, ok := p.EvalRef(ref)
		ek["ref:"+ref] = kv(v, ok)
	}
	s, err := p.Expand("${name}.${namespace}", false)
	m["expand"] = kv(s, err == nil)
	return m
}

func dumpContainer(c *container, probes []string) map[string]interface{} {
	m := map[string]interface{}{
		"id": c.GetID(), "podid": c.GetPodID(), "name": c.GetName(), "namespace": c.GetNamespace(),
		"state": int(c.GetState()), "qos": string(c.GetQOSClass()), "args": viaJSON(c.GetArgs()),
		"mounts": viaJSON(c.GetMounts()), "devices": viaJSON(c.GetDevices()), "pretty": c.PrettyName(),
		"string": c.String(), "requirements": dumpRequirements(c.GetResourceRequirements()),
		"podresources": viaJSON(c.GetPodResources()), "hints": viaJSON(c.GetTopologyHints()),
		"linuxresources": viaJSON(c.GetLinuxResources()),
		"cpu": []interface{}{c.GetCPUShares(), c.GetCPUQuota(), c.GetCPUPeriod(), c.GetCpusetCpus(), c.GetCpusetMems()},
		"mem": []interface{}{c.GetMemoryLimit(), c.GetMemorySwap()},
		"preserve":  []interface{}{c.PreserveCpuResources(), c.PreserveMemoryResources()},
		"cgroupdir": c.GetCgroupDir(), "rdt": c.GetRDTClass(), "blockio": c.GetBlockIOClass(),
		"toptier": c.ToptierLimit, "podresfield": viaJSON(c.PodResources),
	}
	if p, ok := c.GetPod(); ok {
		m["pod"] = p.GetID()
	} else {
		m["pod"] = nil
	}
	u, ok := c.GetResourceUpdates()
	m["updates"] = []interface{}{dumpRequirements(u), ok}
	mt, err := c.MemoryTypes()
	m["memtypes"] = []interface{}{int(mt), err == nil}
	m["affinity"] = dumpAffinities(c.GetAffinity())
	pr := map[string]interface{}{}
	for _, k := range probes {
		l, lok := c.GetLabel(k)
		a, aok := c.GetAnnotation(k, nil)
		rl, rlok := c.GetResmgrLabel(k)
		ra, raok := c.GetResmgrAnnotation(k, nil)
		ea, eaok := c.GetEffectiveAnnotation(k)
		ev, evok := c.GetEnv(k)
		t, tok := c.GetTag(k)
		pr[k] = []interface{}{kv(l, lok), kv(a, aok), kv(rl, rlok), kv(ra, raok), kv(ea, eaok), kv(ev, evok), kv(t, tok)}
	}
	m["probes"] = pr
	ek := map[string]interface{}{}
	for _, k := range []string{resmgr.KeyPod, resmgr.KeyName, resmgr.KeyNamespace, resmgr.KeyQOSClass, resmgr.KeyLabels, resmgr.KeyTags, resmgr.KeyID, "bogus"} {
		ek[k] = evalKey(c.EvalKey(k))
	}
	for _, ref := range []string{"pod/name", "labels/l1", "tags/t0", "pod/labels/l2"} {
		v, ok := c.EvalRef(ref)
		ek["ref:"+ref] = kv(v, ok)
	}
	m["evalkey"] = ek
	s, err := c.Expand("${pod/name}:${name}:${tags/t1}", false)
	m["expand"] = kv(s, err == nil)
	return m
}

func dumpEntry(cch *cache, key string) interface{} {
	t := key[:strings.Index(key, ":")]
	switch t {
	case "cpuset":
		var v cpuset.CPUSet
		if !cch.GetPolicyEntry(key, &v) {
			return nil
		}
		return v.String()
	case "cpusetmap":
		var v map[string]cpuset.CPUSet
		if !cch.GetPolicyEntry(key, &v) {
			return nil
		}
		m := map[string]interface{}{}
		for k, s := range v {
			m[k] = s.String()
		}
		return []interface{}{m}
	case "strmap":
		var v map[string]string
		if !cch.GetPolicyEntry(key, &v) {
			return nil
		}
		return []interface{}{viaJSON(v)}
	case "string":
		var v string
		if !cch.GetPolicyEntry(key, &v) {
			return nil
		}
		return []interface{}{v}
	case "bool":
		var v bool
		if !cch.GetPolicyEntry(key, &v) {
			return nil
		}
		return v
	case "int32":
		var v int32
		if !cch.GetPolicyEntry(key, &v) {
			return nil
		}
		return fmt.Sprint(v)
	case "uint32":
		var v uint32
		if !cch.GetPolicyEntry(key, &v) {
			return nil
		}
		return fmt.Sprint(v)
	case "int64":
		var v int64
		if !cch.GetPolicyEntry(key, &v) {
			return nil
		}
		return fmt.Sprint(v)
	case "uint64":
		var v uint64
		if !cch.GetPolicyEntry(key, &v) {
			return nil
		}
		return fmt.Sprint(v)
	case "int":
		var v int
		if !cch.GetPolicyEntry(key, &v) {
			return nil
		}
		return fmt.Sprint(v)
	case "uint":
		var v uint
		if !cch.GetPolicyEntry(key, &v) {
			return nil
		}
		return fmt.Sprint(v)
	case "allocs":
		v := vAllocs{}
		if !cch.GetPolicyEntry(key, Cacheable(&v)) {
			return nil
		}
		return []interface{}{viaJSON(v)}
	}
	panic("unknown entry type " + t)
}

// dumpCache returns the canonical JSON of everything observable through the public interface.
func dumpCache(cch *cache, probes, keys []string) string {
	probes = append([]string{"l0", "l1", "a0", "missing", "PATH", "t0", "t1"}, probes...)
	cnames := []string{"c0", "c1", "c2", "cX"}
	pods := map[string]interface{}{}
	var pids []string
	for _, p := range cch.GetPods() {
		pods[p.GetID()] = dumpPod(p, probes, cnames)
		pids = append(pids, p.GetID())
		if q, ok := cch.LookupPod(p.GetID()); !ok || q.GetID() != p.GetID() {
			pods[p.GetID()+"/lookup"] = "inconsistent"
		}
	}
	sort.Strings(pids)
	ctrs := map[string]interface{}{}
	var cids []string
	for _, c := range cch.GetContainers() {
		ctrs[c.GetID()] = dumpContainer(c.(*container), probes)
		cids = append(cids, c.GetID())
		if q, ok := cch.LookupContainer(c.GetID()); !ok || q.GetID() != c.GetID() {
			ctrs[c.GetID()+"/lookup"] = "inconsistent"
		}
	}
	sort.Strings(cids)
	ids2 := cch.GetContainerIds()
	sort.Strings(ids2)
	entries := map[string]interface{}{}
	for _, k := range keys {
		entries[k] = dumpEntry(cch, k)
	}
	out := map[string]interface{}{
		"policy": cch.GetActivePolicy(), "nextid": cch.NextID, "podids": strings.Join(pids, ","),
		"ctrids": strings.Join(cids, ","), "ctrids2": strings.Join(ids2, ","),
		"pods": pods, "containers": ctrs, "entries": entries,
	}
	data, err := json.Marshal(out)
	if err != nil {
		panic(err)
	}
	return string(data)
}

// diffJSON lists the paths at which two dumps differ.
func diffJSON(a, b string) []string {
	var x, y interface{}
	json.Unmarshal([]byte(a), &x)
	json.Unmarshal([]byte(b), &y)
	var out []string
	var walk func(path string, x, y interface{})
	walk = func(path string, x, y interface{}) {
		if len(out) > 40 {
			return
		}
		mx, okx := x.(map[string]interface{})
		my, oky := y.(map[string]interface{})
		if okx && oky {
			ks := map[string]bool{}
			for k := range mx {
				ks[k] = true
			}
			for k := range my {
				ks[k] = true
			}
			var keys []string
			for k := range ks {
				keys = append(keys, k)
			}
			sort.Strings(keys)
			for _, k := range keys {
				walk(path+"/"+k, mx[k], my[k])
			}
			return
		}
		lx, okx := x.([]interface{})
		ly, oky := y.([]interface{})
		if okx && oky && len(lx) == len(ly) {
			for i := range lx {
				walk(fmt.Sprintf("%s[%d]", path, i), lx[i], ly[i])
			}
			return
		}
		dx, _ := json.Marshal(x)
		dy, _ := json.Marshal(y)
		if string(dx) != string(dy) {
			sx, sy := string(dx), string(dy)
			if len(sx) > 120 {
				sx = sx[:120] + "..."
			}
			if len(sy) > 120 {
				sy = sy[:120] + "..."
			}
			out = append(out, fmt.Sprintf("%s: saved=%s reloaded=%s", path, sx, sy))
		}
	}
	walk("", x, y)
	return out
}

// diffSignature reduces a diff path to the getter that differs (ids and probe keys removed).
func diffSignature(d string) string {
	p := d[:strings.Index(d, ": saved=")]
	parts := strings.Split(strings.Trim(p, "/"), "/")
	if len(parts) >= 3 && (parts[0] == "pods" || parts[0] == "containers") {
		g := parts[2]
		if i := strings.Index(g, "["); i >= 0 {
			g = g[:i]
		}
		return parts[0] + "." + g
	}
	if parts[0] == "entries" && len(parts) > 1 {
		k := parts[1]
		if i := strings.Index(k, ":"); i >= 0 {
			k = k[:i]
		}
		return "entries." + k
	}
	g := parts[0]
	if i := strings.Index(g, "["); i >= 0 {
		g = g[:i]
	}
	return "cache." + g
}
