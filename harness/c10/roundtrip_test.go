//go:build verif

// C10 harness, part 3: differential save/reload (TestVerifC10Roundtrip) and the codec cases for
// the Coq model: the in-memory snapshot walked by reflection, the JSON the real encoder wrote,
// and the reloaded snapshot walked by reflection.
package cache

import (
	"bufio"
	"bytes"
	"encoding"
	"encoding/json"
	"fmt"
	"io"
	"os"
	"path/filepath"
	"reflect"
	"sort"
	"strconv"
	"strings"
	"testing"
)

func coqStr(s string) string { return `"` + strings.ReplaceAll(s, `"`, `""`) + `"` }

func coqZ(s string) string {
	if strings.HasPrefix(s, "-") {
		return "(" + s + ")"
	}
	return s
}

// jsonToCoq renders JSON text as a term of NV.C10_Model.json, keeping object key order.
func jsonToCoq(data []byte) string {
	dec := json.NewDecoder(bytes.NewReader(data))
	dec.UseNumber()
	var val func() string
	val = func() string {
		tok, err := dec.Token()
		if err != nil {
			panic(err)
		}
		switch t := tok.(type) {
		case nil:
			return "JNull"
		case string:
			return "(JStr " + coqStr(t) + ")"
		case bool:
			return fmt.Sprintf("(JBool %v)", t)
		case json.Number:
			if _, err := strconv.ParseInt(string(t), 10, 64); err != nil {
				if _, err := strconv.ParseUint(string(t), 10, 64); err != nil {
					return "(JStr " + coqStr("non-integer:"+string(t)) + ")"
				}
			}
			return "(JNum " + coqZ(string(t)) + ")"
		case json.Delim:
			var items []string
			if t == '[' {
				for dec.More() {
					items = append(items, val())
				}
				dec.Token()
				return "(JArr [" + strings.Join(items, "; ") + "])"
			}
			for dec.More() {
				k, _ := dec.Token()
				items = append(items, "("+coqStr(k.(string))+", "+val()+")")
			}
			dec.Token()
			return "(JObj [" + strings.Join(items, "; ") + "])"
		}
		panic("unexpected token")
	}
	return val()
}

var (
	jsonMarshalerT = reflect.TypeOf((*json.Marshaler)(nil)).Elem()
	textMarshalerT = reflect.TypeOf((*encoding.TextMarshaler)(nil)).Elem()
)

func isOpaque(t reflect.Type) bool {
	if t.Kind() == reflect.Ptr {
		return false
	}
	if t.Implements(jsonMarshalerT) || reflect.PointerTo(t).Implements(jsonMarshalerT) ||
		t.Implements(textMarshalerT) || reflect.PointerTo(t).Implements(textMarshalerT) {
		return true
	}
	if t.Kind() == reflect.Struct {
		for i := 0; i < t.NumField(); i++ {
			if t.Field(i).Anonymous {
				return true
			}
		}
	}
	return false
}

// walk renders a Go value as a term of NV.C10_Model.value, deciding by reflection (independently
// of the go/ast translator) which fields are dropped.
func walk(v reflect.Value) string {
	t := v.Type()
	if isOpaque(t) {
		data, err := json.Marshal(v.Interface())
		if err != nil {
			panic(err)
		}
		return "(VOpq " + jsonToCoq(data) + ")"
	}
	switch t.Kind() {
	case reflect.String:
		return "(VStr " + coqStr(v.String()) + ")"
	case reflect.Bool:
		return fmt.Sprintf("(VBool %v)", v.Bool())
	case reflect.Int, reflect.Int8, reflect.Int16, reflect.Int32, reflect.Int64:
		return "(VInt " + coqZ(strconv.FormatInt(v.Int(), 10)) + ")"
	case reflect.Uint, reflect.Uint8, reflect.Uint16, reflect.Uint32, reflect.Uint64, reflect.Uintptr:
		return "(VInt " + strconv.FormatUint(v.Uint(), 10) + ")"
	case reflect.Ptr:
		if v.IsNil() {
			return "VNil"
		}
		return "(VPtr " + walk(v.Elem()) + ")"
	case reflect.Slice:
		if v.IsNil() {
			return "VNil"
		}
		items := make([]string, v.Len())
		for i := range items {
			items[i] = walk(v.Index(i))
		}
		return "(VList [" + strings.Join(items, "; ") + "])"
	case reflect.Map:
		if v.IsNil() {
			return "VNil"
		}
		if t.Key().Kind() != reflect.String {
			panic("map key kind " + t.Key().Kind().String())
		}
		keys := v.MapKeys()
		sort.Slice(keys, func(i, j int) bool { return keys[i].String() < keys[j].String() })
		items := make([]string, len(keys))
		for i, k := range keys {
			items[i] = "(" + coqStr(k.String()) + ", " + walk(v.MapIndex(k)) + ")"
		}
		return "(VMap [" + strings.Join(items, "; ") + "])"
	case reflect.Struct:
		items := make([]string, t.NumField())
		for i := range items {
			f := t.Field(i)
			if f.PkgPath != "" || f.Tag.Get("json") == "-" {
				items[i] = "VNil"
			} else {
				items[i] = walk(v.Field(i))
			}
		}
		return "(VStruct [" + strings.Join(items, "; ") + "])"
	}
	panic("unsupported kind " + t.Kind().String() + " (" + t.String() + ")")
}

func snapshotOf(cch *cache) snapshot {
	return snapshot{Version: CacheVersion, Pods: cch.Pods, Containers: cch.Containers, NextID: cch.NextID,
		PolicyName: cch.PolicyName, PolicyJSON: cch.PolicyJSON}
}

func sortedKeys(m map[string]bool) []string {
	var ks []string
	for k := range m {
		ks = append(ks, k)
	}
	sort.Strings(ks)
	return ks
}

type rtRecord struct {
	ID       int      `json:"id"`
	Content  int      `json:"content"`
	Save     int      `json:"save"`
	Seed     int64    `json:"seed"`
	Pods     int      `json:"pods"`
	Ctrs     int      `json:"ctrs"`
	Entries  int      `json:"entries"`
	Bytes    int      `json:"bytes"`
	SaveErr  string   `json:"save_err,omitempty"`
	LoadErr  string   `json:"load_err,omitempty"`
	Diffs    []string `json:"diffs,omitempty"`
	Sigs     []string `json:"sigs,omitempty"`
	Features []string `json:"features"`
	Hash     string   `json:"hash"`
	Ops      []vOp    `json:"ops,omitempty"`
}

func envInt(name string, def int) int {
	if v, err := strconv.Atoi(os.Getenv(name)); err == nil {
		return v
	}
	return def
}

func features(cch *cache) []string {
	f := map[string]bool{}
	for _, p := range cch.Pods {
		f["qos:"+string(p.QOSClass)] = true
		if p.Affinity != nil {
			f["pod.Affinity"] = true
			if len(*p.Affinity) == 0 {
				f["pod.Affinity:empty"] = true
			}
		}
		if p.PodResources != nil {
			f["pod.PodResources"] = true
		}
		if p.Pod.Linux == nil {
			f["pod.Linux:nil"] = true
		}
	}
	for _, c := range cch.Containers {
		f[fmt.Sprintf("state:%d", c.Ctr.State)] = true
		if c.ResourceUpdates != nil {
			f["ResourceUpdates"] = true
		}
		if len(c.TopologyHints) > 0 {
			f["TopologyHints"] = true
		}
		if len(c.Tags) > 0 {
			f["Tags"] = true
		}
		if c.PodResources != nil {
			f["ctr.PodResources"] = true
		}
		if c.Resources != nil {
			f["ctr.Resources"] = true
		}
		if c.CgroupDir != "" {
			f["CgroupDir"] = true
		}
		if c.Ctr.Linux == nil {
			f["ctr.Linux:nil"] = true
		} else if c.Ctr.Linux.Resources == nil {
			f["ctr.Resources:nil"] = true
		}
		if len(c.Requirements.Requests) > 0 {
			f["Requests"] = true
		}
		if len(c.Requirements.Limits) > 0 {
			f["Limits"] = true
		}
		if len(c.Ctr.Mounts) > 0 {
			f["Mounts"] = true
		}
		if len(c.Ctr.GetLinux().GetDevices()) > 0 {
			f["Devices"] = true
		}
	}
	for k := range cch.PolicyJSON {
		f["entry:"+k[:strings.Index(k+":", ":")]] = true
	}
	if cch.PolicyName != "" {
		f["PolicyName"] = true
	}
	return sortedKeys(f)
}

func copyFile(src, dst string) error {
	in, err := os.Open(src)
	if err != nil {
		return err
	}
	defer in.Close()
	out, err := os.OpenFile(dst, os.O_WRONLY|os.O_CREATE|os.O_TRUNC, 0o644)
	if err != nil {
		return err
	}
	_, err = io.Copy(out, in)
	if e := out.Close(); err == nil {
		err = e
	}
	return err
}

// TestVerifC10Roundtrip: N generated contents x K saves each: after every explicit Save the live
// cache and a second cache opened on the same directory must agree on every getter.
func TestVerifC10Roundtrip(t *testing.T) {
	out := os.Getenv("VERIF_OUT")
	if out == "" {
		t.Skip("VERIF_OUT not set")
	}
	seed := int64(envInt("VERIF_SEED", 1))
	n, k := envInt("VERIF_C10_CONTENTS", 24), envInt("VERIF_C10_SAVES", 3)
	ncodec := envInt("VERIF_C10_CODEC", 40)
	rf, _ := os.Create(filepath.Join(out, "c10_roundtrip.jsonl"))
	defer rf.Close()
	rw := bufio.NewWriter(rf)
	defer rw.Flush()
	enc := json.NewEncoder(rw)
	cf, _ := os.Create(filepath.Join(out, "c10_codec.txt"))
	defer cf.Close()
	cw := bufio.NewWriter(cf)
	defer cw.Flush()

	id := 0
	for ci := 0; ci < n; ci++ {
		g := newGen(seed*100003 + int64(ci))
		g.big = ci == n-1 && envInt("VERIF_C10_BIG", 0) == 1
		dir, err := os.MkdirTemp("", "c10rt")
		if err != nil {
			t.Fatal(err)
		}
		a, err := vNewCache(dir)
		if err != nil {
			t.Fatalf("NewCache on a fresh directory: %v", err)
		}
		var history []vOp
		for s := 0; s < k; s++ {
			ops := g.genSave(s == 0)
			history = append(history, ops...)
			rec := rtRecord{ID: id, Content: ci, Save: s, Seed: seed}
			id++
			for _, op := range ops {
				if err := applyOp(a, op); err != nil {
					rec.SaveErr = err.Error()
				}
			}
			probes, keys := sortedKeys(g.probes), sortedKeys(g.keys)
			da := dumpCache(a, probes, keys)
			b, err := vNewCache(dir)
			if err != nil {
				rec.LoadErr = err.Error()
			} else {
				db := dumpCache(b, probes, keys)
				if da != db {
					rec.Diffs = diffJSON(da, db)
					sigs := map[string]bool{}
					for _, d := range rec.Diffs {
						sigs[diffSignature(d)] = true
					}
					rec.Sigs = sortedKeys(sigs)
				}
				// a reloaded cache must be able to save again, and that file must load to the same thing
				if err := b.Save(); err != nil {
					rec.SaveErr = "second save: " + err.Error()
				} else if b2, err := vNewCache(dir); err != nil {
					rec.LoadErr = "after second save: " + err.Error()
				} else if db2 := dumpCache(b2, probes, keys); db2 != db && len(rec.Diffs) == 0 {
					rec.Diffs = diffJSON(db, db2)
					rec.Sigs = []string{"second-generation:" + diffSignature(rec.Diffs[0])}
				}
			}
			data, _ := os.ReadFile(filepath.Join(dir, "cache"))
			rec.Pods, rec.Ctrs, rec.Entries, rec.Bytes = len(a.Pods), len(a.Containers), len(a.PolicyJSON), len(data)
			rec.Features = features(a)
			rec.Hash = fmt.Sprintf("%x", hashString(da))
			if rec.SaveErr != "" || rec.LoadErr != "" || len(rec.Diffs) > 0 {
				rec.Ops = history
			}
			enc.Encode(&rec)
			// codec case for the model (bounded size so that coqc stays fast)
			if b != nil && rec.ID < ncodec && len(data) < 60000 {
				// the file was rewritten by b.Save(); the model case uses a's file: re-save a
				if err := a.Save(); err == nil {
					data, _ = os.ReadFile(filepath.Join(dir, "cache"))
					b3, err := vNewCache(dir)
					if err == nil {
						fmt.Fprintf(cw, "mkCase %d %s %s %s\n@@@\n", rec.ID, walk(reflect.ValueOf(snapshotOf(a))), jsonToCoq(data), walk(reflect.ValueOf(snapshotOf(b3))))
					}
				}
			}
		}
		os.RemoveAll(dir)
	}
}

func hashString(s string) uint64 {
	var h uint64 = 14695981039346656037
	for i := 0; i < len(s); i++ {
		h ^= uint64(s[i])
		h *= 1099511628211
	}
	return h
}
