//go:build verif

// C10 harness, part 5: exhaustive permission matrix through NewCache: for each of the three
// names NewCache checks (cache file, cache directory, container directory) x each file type x all
// 512 permission modes, prepare the entry and record whether NewCache refuses.
package cache

import (
	"bufio"
	"fmt"
	"net"
	"os"
	"path/filepath"
	"syscall"
	"testing"
	"time"
)

// TestVerifC10Perm writes lines "<name> <type> <mode> <refused 0|1|2> <symlink target kind>";
// 2 = NewCache did not return within 3 s (e.g. it opened a fifo).
func TestVerifC10Perm(t *testing.T) {
	out := os.Getenv("VERIF_OUT")
	if out == "" {
		t.Skip("VERIF_OUT not set")
	}
	f, _ := os.Create(filepath.Join(out, "c10_perm.txt"))
	defer f.Close()
	w := bufio.NewWriter(f)
	defer w.Flush()
	base, err := os.MkdirTemp("", "c10perm")
	if err != nil {
		t.Fatal(err)
	}
	defer os.RemoveAll(base)
	fmt.Fprintf(w, "# euid %d\n", os.Geteuid())

	try := func(dir string, mayBlock bool) int {
		if !mayBlock {
			if _, err := NewCache(Options{CacheDir: dir}); err != nil {
				return 1
			}
			return 0
		}
		ch := make(chan error, 1)
		go func() {
			_, err := NewCache(Options{CacheDir: dir})
			ch <- err
		}()
		select {
		case err := <-ch:
			if err != nil {
				return 1
			}
			return 0
		case <-time.After(3 * time.Second):
			return 2
		}
	}

	n := 0
	// mk prepares entry `path` of the given type with mode; returns false if the type cannot be made here
	mk := func(path, typ string, mode os.FileMode, aux string) bool {
		switch typ {
		case "regular":
			if os.WriteFile(path, nil, 0o600) != nil {
				return false
			}
		case "dir":
			if os.Mkdir(path, 0o700) != nil {
				return false
			}
		case "fifo":
			if syscall.Mkfifo(path, 0o600) != nil {
				return false
			}
		case "socket":
			l, err := net.Listen("unix", path)
			if err != nil {
				return false
			}
			if ul, ok := l.(*net.UnixListener); ok {
				ul.SetUnlinkOnClose(false)
			}
			l.Close()
		case "chardev":
			if syscall.Mknod(path, syscall.S_IFCHR|0o600, 1<<8|3) != nil { // /dev/null
				return false
			}
		case "symlink-regular", "symlink-dir", "symlink-dangling":
			switch typ {
			case "symlink-regular":
				os.WriteFile(aux, nil, 0o600)
				os.Chmod(aux, mode)
			case "symlink-dir":
				os.Mkdir(aux, 0o700)
				os.Chmod(aux, mode)
			}
			return os.Symlink(aux, path) == nil
		}
		return os.Chmod(path, mode) == nil
	}

	names := []struct {
		name  string
		types []string
	}{
		{"cache", []string{"regular", "dir", "fifo", "socket", "chardev", "symlink-regular", "symlink-dir", "symlink-dangling"}},
		{".", []string{"dir", "regular", "fifo", "socket", "symlink-dir", "symlink-regular", "symlink-dangling"}},
		{"containers", []string{"dir", "regular", "fifo", "socket", "symlink-dir", "symlink-regular", "symlink-dangling"}},
	}
	for _, nm := range names {
		for _, typ := range nm.types {
			modes := 512
			for m := 0; m < modes; m++ {
				if len(typ) > 7 && typ[:7] == "symlink" && m%73 != 0 && m != 0o644 && m != 0o600 && m != 0o666 && m != 0o700 {
					continue // a symlink has no mode of its own; sample the target's
				}
				n++
				root := filepath.Join(base, fmt.Sprintf("c%d", n))
				os.Mkdir(root, 0o700)
				dir := filepath.Join(root, "state")
				aux := filepath.Join(root, "aux")
				ok := true
				switch nm.name {
				case ".":
					ok = mk(dir, typ, os.FileMode(m), aux)
				case "cache":
					os.Mkdir(dir, 0o700)
					os.Mkdir(filepath.Join(dir, "containers"), 0o700)
					ok = mk(filepath.Join(dir, "cache"), typ, os.FileMode(m), aux)
				case "containers":
					os.Mkdir(dir, 0o700)
					ok = mk(filepath.Join(dir, "containers"), typ, os.FileMode(m), aux)
				}
				if ok {
					r := try(dir, typ != "regular" && typ != "dir")
					fmt.Fprintf(w, "%s %s %d %d\n", nm.name, typ, m, r)
				} else if m == 0 {
					fmt.Fprintf(w, "# cannot create %s here\n", typ)
				}
				os.Chmod(dir, 0o700)
				os.RemoveAll(root)
			}
		}
	}
}
