//go:build verif

// C10 harness, part 4: crash experiments.  One save of a history is replayed in a child process
// (this same test binary, see init() below) under strace; the child is killed at the entry of
// the N-th invocation of each file system call, or a write is failed with ENOSPC; temp/cache files
// are truncated to emulate a write that stopped after k bytes.  After each experiment NewCache on
// the directory must succeed and the cache must equal one of the snapshots the uninterrupted
// child writes (in order: the previous one, intermediate ones of implicit saves, the new one).
package cache

import (
	"bufio"
	"encoding/json"
	"fmt"
	"os"
	"os/exec"
	"path/filepath"
	"regexp"
	"runtime"
	"sort"
	"strconv"
	"strings"
	"sync"
	"testing"
	"time"
)

type childParams struct {
	Dir    string `json:"dir"`
	Ops    []vOp  `json:"ops"`
	RefDir string `json:"refdir,omitempty"` // reference run: copy the cache file here after every op
}

// The child replays one save group on an existing state directory.  It runs from init(), i.e. on
// the main goroutine locked to the initial thread, so that strace's per-thread "when=N" counters
// see the same sequence of system calls in every run.
func init() {
	pf := os.Getenv("VERIF_C10_CHILD")
	if pf == "" {
		return
	}
	runtime.LockOSThread()
	data, err := os.ReadFile(pf)
	if err != nil {
		os.Exit(4)
	}
	var p childParams
	if err := json.Unmarshal(data, &p); err != nil {
		os.Exit(4)
	}
	status := func(s string) { os.WriteFile(pf+".status", []byte(s), 0o644) }
	cch, err := vNewCache(p.Dir)
	if err != nil {
		status("newcache: " + err.Error())
		os.Exit(3)
	}
	snap := func(i int) {
		if p.RefDir != "" {
			if err := copyFile(filepath.Join(p.Dir, "cache"), filepath.Join(p.RefDir, fmt.Sprintf("snap_%03d", i))); err != nil && !os.IsNotExist(err) {
				status("copy: " + err.Error())
				os.Exit(4)
			}
		}
	}
	snap(0)
	saveErrs := 0
	for i, op := range p.Ops {
		os.Stat(filepath.Join(p.Dir, fmt.Sprintf(".verif-begin-%03d-%s", i, op.Kind)))
		if err := applyOp(cch, op); err != nil {
			saveErrs++
		}
		os.Stat(filepath.Join(p.Dir, fmt.Sprintf(".verif-end-%03d", i)))
		snap(i + 1)
	}
	status(fmt.Sprintf("done saveerrs=%d", saveErrs))
	os.Exit(0)
}

// ---- strace log parsing

type sysEv struct {
	name   string // syscall
	line   string
	nth    int  // 1-based index among the calls of this name on this thread
	window int  // index of the op window this call falls in, -1 outside
	kind   string // kind of the op of the window
}

var (
	reCall   = regexp.MustCompile(`^([a-z0-9_]+)\(`)
	reFdPath = regexp.MustCompile(`^[a-z0-9_]+\(\d+<([^>]*)>`)
	reQuoted = regexp.MustCompile(`"((?:[^"\\]|\\.)*)"`)
	reRetFd  = regexp.MustCompile(`= \d+<([^>]*)>\s*$`)
)

var injectSet = []string{"openat", "write", "close", "fsync", "fdatasync", "rename", "renameat", "renameat2", "unlinkat", "unlink", "ftruncate", "mkdirat", "fchmod", "fchmodat", "linkat", "pwrite64", "writev"}

const traceSet = "openat,write,close,fsync,fdatasync,rename,renameat,renameat2,unlinkat,unlink,ftruncate,mkdirat,fchmod,fchmodat,linkat,pwrite64,writev,newfstatat"

// parseTrace returns the events of the thread that executed the ops (the one with the markers).
func parseTrace(prefix string) ([]sysEv, bool) {
	files, _ := filepath.Glob(prefix + ".*")
	anyKilled := false
	for _, fn := range files {
		if data, err := os.ReadFile(fn); err == nil && strings.Contains(string(data), "killed by SIGKILL") {
			anyKilled = true
		}
	}
	for _, fn := range files {
		data, err := os.ReadFile(fn)
		if err != nil || !strings.Contains(string(data), ".verif-begin-") {
			continue
		}
		var evs []sysEv
		counts := map[string]int{}
		window, kind := -1, ""
		killed := false
		sc := bufio.NewScanner(strings.NewReader(string(data)))
		sc.Buffer(make([]byte, 1<<20), 1<<24)
		for sc.Scan() {
			line := sc.Text()
			if strings.Contains(line, "killed by SIGKILL") {
				killed = true
			}
			m := reCall.FindStringSubmatch(line)
			if m == nil {
				continue
			}
			if i := strings.Index(line, ".verif-begin-"); i >= 0 {
				rest := line[i+len(".verif-begin-"):]
				window, _ = strconv.Atoi(rest[:3])
				kind = rest[4:strings.Index(rest, `"`)]
				continue
			}
			if strings.Contains(line, ".verif-end-") {
				window, kind = -1, ""
				continue
			}
			counts[m[1]]++
			evs = append(evs, sysEv{name: m[1], line: line, nth: counts[m[1]], window: window, kind: kind})
		}
		return evs, killed || anyKilled
	}
	return nil, anyKilled
}

// skeleton extracts the write-side operations on files under dir from the events of one window.
func skeleton(evs []sysEv, dir string, window int) []string {
	var out []string
	wr := map[string]bool{} // files opened for writing and not yet closed
	rel := func(p string) (string, bool) {
		if !strings.HasPrefix(p, dir+"/") {
			return "", false
		}
		r := strings.TrimPrefix(p, dir+"/")
		if strings.HasPrefix(r, ".verif") || strings.HasPrefix(r, ".ref") {
			return "", false
		}
		return r, true
	}
	add := func(s string) {
		if strings.HasPrefix(s, "ObsWrite") && len(out) > 0 && out[len(out)-1] == s {
			return // one logical write, several write(2) calls
		}
		out = append(out, s)
	}
	for _, e := range evs {
		if e.window != window {
			continue
		}
		q := reQuoted.FindAllStringSubmatch(e.line, -1)
		switch e.name {
		case "openat":
			if len(q) < 1 {
				continue
			}
			p, ok := rel(q[0][1])
			if m := reRetFd.FindStringSubmatch(e.line); m != nil {
				p, ok = rel(m[1])
			}
			if ok && (strings.Contains(e.line, "O_WRONLY") || strings.Contains(e.line, "O_RDWR")) {
				add("ObsCreate " + coqStr(p))
				wr[p] = true
			}
		case "write", "pwrite64", "writev", "ftruncate":
			if m := reFdPath.FindStringSubmatch(e.line); m != nil {
				if p, ok := rel(m[1]); ok {
					add("ObsWrite " + coqStr(p))
				}
			}
		case "fsync", "fdatasync":
			if m := reFdPath.FindStringSubmatch(e.line); m != nil {
				if p, ok := rel(m[1]); ok {
					add("ObsSync " + coqStr(p))
				}
			}
		case "close":
			if m := reFdPath.FindStringSubmatch(e.line); m != nil {
				if p, ok := rel(m[1]); ok && wr[p] {
					add("ObsClose " + coqStr(p))
					delete(wr, p)
				}
			}
		case "rename", "renameat", "renameat2":
			if len(q) >= 2 {
				a, oka := rel(q[0][1])
				b, okb := rel(q[1][1])
				if oka || okb {
					add("ObsRename " + coqStr(a) + " " + coqStr(b))
				}
			}
		case "unlink", "unlinkat":
			if len(q) >= 1 {
				if p, ok := rel(q[0][1]); ok {
					add("ObsRemove " + coqStr(p))
				}
			}
		}
	}
	return out
}

// ---- running children

func copyDir(src, dst string) error {
	return filepath.Walk(src, func(p string, info os.FileInfo, err error) error {
		if err != nil {
			return err
		}
		r, _ := filepath.Rel(src, p)
		if strings.HasPrefix(r, ".ref") || strings.HasPrefix(r, "trace") {
			if info.IsDir() {
				return filepath.SkipDir
			}
			return nil
		}
		t := filepath.Join(dst, r)
		if info.IsDir() {
			return os.MkdirAll(t, 0o700)
		}
		return copyFile(p, t)
	})
}

type childResult struct {
	killed bool
	status string
	evs    []sysEv
	err    string
}

func runChild(work string, p childParams, straceArgs []string, trace bool) childResult {
	pf := filepath.Join(work, "params.json")
	data, _ := json.Marshal(&p)
	os.WriteFile(pf, data, 0o644)
	var cmd *exec.Cmd
	args := []string{"-test.run", "^$"}
	if trace {
		sa := append([]string{"-ff", "-o", filepath.Join(work, "trace"), "-s", "0", "-y", "-e", "trace=" + traceSet}, straceArgs...)
		sa = append(sa, os.Args[0])
		cmd = exec.Command("strace", append(sa, args...)...)
	} else {
		cmd = exec.Command(os.Args[0], args...)
	}
	cmd.Env = append(os.Environ(), "VERIF_C10_CHILD="+pf, "GOMAXPROCS=2")
	done := make(chan error, 1)
	var outb []byte
	go func() {
		var err error
		outb, err = cmd.CombinedOutput()
		done <- err
	}()
	var res childResult
	select {
	case err := <-done:
		if err != nil {
			res.err = err.Error()
		}
	case <-time.After(60 * time.Second):
		cmd.Process.Kill()
		res.err = "timeout"
	}
	_ = outb
	st, _ := os.ReadFile(pf + ".status")
	res.status = string(st)
	if trace {
		res.evs, res.killed = parseTrace(filepath.Join(work, "trace"))
	}
	return res
}

type crashRecord struct {
	ID       int      `json:"id"`
	History  int      `json:"history"`
	Save     int      `json:"save"`
	Kind     string   `json:"kind"` // kill | truncate | enospc | reference
	Syscall  string   `json:"syscall,omitempty"`
	Nth      int      `json:"nth,omitempty"`
	Window   string   `json:"window,omitempty"` // op kind during which the fault hit, "" outside
	Offset   int      `json:"offset"`
	Target   string   `json:"target,omitempty"`
	Killed   bool     `json:"killed"`
	Status   string   `json:"status,omitempty"`
	LoadErr  string   `json:"load_err,omitempty"`
	Matches  int      `json:"matches"` // index of the legit snapshot the result equals, -1 none
	NLegit   int      `json:"nlegit"`
	Resave   string   `json:"resave_err,omitempty"`
	Sig      string   `json:"sig,omitempty"`
	Detail   string   `json:"detail,omitempty"`
	InPlace  []string `json:"inplace,omitempty"`
	Skeleton []string `json:"skeleton,omitempty"`
	Ops      []vOp    `json:"ops,omitempty"`
	Bytes    int      `json:"bytes,omitempty"`
}

type legitSnap struct {
	data   []byte // nil = no cache file
	absent bool
	dump   string
}

// judge loads the cache from dir and compares it with the legit snapshots.
func judge(dir string, legit []legitSnap, probes, keys []string, rec *crashRecord) {
	rec.NLegit = len(legit)
	rec.Matches = -1
	data, err := os.ReadFile(filepath.Join(dir, "cache"))
	absent := os.IsNotExist(err)
	for i, l := range legit {
		if absent == l.absent && string(data) == string(l.data) {
			rec.Matches = i
		}
	}
	type res struct {
		cch *cache
		err error
	}
	ch := make(chan res, 1)
	go func() {
		c, err := vNewCache(dir)
		ch <- res{c, err}
	}()
	var r res
	select {
	case r = <-ch:
	case <-time.After(20 * time.Second):
		rec.LoadErr = "NewCache hangs"
		rec.Sig = "load-hangs-after-" + rec.Kind
		return
	}
	if r.err != nil {
		rec.LoadErr = r.err.Error()
		rec.Sig = "load-fails-after-" + rec.Kind
		rec.Detail = fmt.Sprintf("cache file has %d bytes, absent=%v", len(data), absent)
		return
	}
	if rec.Matches < 0 {
		d := dumpCache(r.cch, probes, keys)
		for i, l := range legit {
			if d == l.dump {
				rec.Matches = i
			}
		}
		if rec.Matches < 0 {
			rec.Sig = "neither-old-nor-new-after-" + rec.Kind
			rec.Detail = fmt.Sprintf("cache file has %d bytes (absent=%v); legit sizes:", len(data), absent)
			for _, l := range legit {
				rec.Detail += fmt.Sprintf(" %d", len(l.data))
			}
			return
		}
	}
	// recovery: the reloaded cache can save again and that loads
	if err := r.cch.Save(); err != nil {
		rec.Resave = err.Error()
		rec.Sig = "save-fails-after-" + rec.Kind
	} else if _, err := vNewCache(dir); err != nil {
		rec.Resave = "reload: " + err.Error()
		rec.Sig = "load-fails-after-recovery-save"
	}
}

func TestVerifC10Crash(t *testing.T) {
	out := os.Getenv("VERIF_OUT")
	if out == "" {
		t.Skip("VERIF_OUT not set")
	}
	if _, err := exec.LookPath("strace"); err != nil {
		t.Fatalf("strace not found: %v", err)
	}
	seed := int64(envInt("VERIF_SEED", 1))
	nh, k := envInt("VERIF_C10_HISTORIES", 2), envInt("VERIF_C10_SAVES", 3)
	maxKill := envInt("VERIF_C10_MAXKILL", 30)   // per save; 0 = all
	truncStep := envInt("VERIF_C10_TRUNCSTEP", 0) // 0 = a dozen offsets; else every truncStep bytes
	doENOSPC := envInt("VERIF_C10_ENOSPC", 0) == 1
	big := envInt("VERIF_C10_BIG", 0) == 1
	rf, _ := os.Create(filepath.Join(out, "c10_crash.jsonl"))
	defer rf.Close()
	rw := bufio.NewWriter(rf)
	defer rw.Flush()
	enc := json.NewEncoder(rw)
	var mu sync.Mutex
	id := 0
	emit := func(rec *crashRecord) {
		mu.Lock()
		rec.ID = id
		id++
		enc.Encode(rec)
		mu.Unlock()
	}
	base, err := os.MkdirTemp("", "c10crash")
	if err != nil {
		t.Fatal(err)
	}
	defer os.RemoveAll(base)
	sem := make(chan struct{}, 2*runtime.NumCPU())
	var wg sync.WaitGroup

	for h := 0; h < nh; h++ {
		g := newGen(seed*7919 + int64(h) + 1000)
		g.big = big && h == nh-1
		prev := filepath.Join(base, fmt.Sprintf("h%d_s0", h))
		os.MkdirAll(prev, 0o700)
		for s := 0; s < k; s++ {
			ops := g.genSave(s == 0)
			probes, keys := sortedKeys(g.probes), sortedKeys(g.keys)
			// reference run (under strace, nothing injected)
			ref := filepath.Join(base, fmt.Sprintf("h%d_s%d", h, s+1))
			if err := copyDir(prev, ref); err != nil {
				t.Fatal(err)
			}
			refdir := filepath.Join(ref, ".ref")
			os.MkdirAll(refdir, 0o700)
			rr := runChild(refdir, childParams{Dir: ref, Ops: ops, RefDir: refdir}, nil, true)
			rec := &crashRecord{History: h, Save: s, Kind: "reference", Status: rr.status, Matches: -1}
			if !strings.HasPrefix(rr.status, "done saveerrs=0") || rr.evs == nil {
				rec.Sig = "reference-run-failed"
				rec.Detail = rr.err + " " + rr.status
				rec.Ops = ops
				emit(rec)
				t.Fatalf("reference run failed: %s %s", rr.err, rr.status)
			}
			// legit snapshots, in order
			var legit []legitSnap
			for i := 0; i <= len(ops); i++ {
				data, err := os.ReadFile(filepath.Join(refdir, fmt.Sprintf("snap_%03d", i)))
				l := legitSnap{data: data, absent: err != nil}
				if len(legit) > 0 && legit[len(legit)-1].absent == l.absent && string(legit[len(legit)-1].data) == string(data) {
					continue
				}
				scratch := filepath.Join(refdir, "load")
				os.RemoveAll(scratch)
				os.MkdirAll(scratch, 0o700)
				if !l.absent {
					os.WriteFile(filepath.Join(scratch, "cache"), data, 0o644)
				}
				c, err := vNewCache(scratch)
				if err != nil {
					rec.Sig = "load-fails-after-complete-save"
					rec.LoadErr = err.Error()
					rec.Ops = ops
					emit(rec)
					t.Fatalf("a completely saved snapshot does not load: %v", err)
				}
				l.dump = dumpCache(c, probes, keys)
				legit = append(legit, l)
			}
			rec.NLegit = len(legit)
			rec.Bytes = len(legit[len(legit)-1].data)
			// skeleton of the explicit Save (last op) and in-place writes anywhere
			lastWin := len(ops) - 1
			rec.Skeleton = skeleton(rr.evs, ref, lastWin)
			for w := 0; w < len(ops); w++ {
				for _, o := range skeleton(rr.evs, ref, w) {
					if o == `ObsCreate "cache"` || o == `ObsWrite "cache"` || o == `ObsRemove "cache"` || strings.HasPrefix(o, `ObsRename "cache" `) {
						rec.InPlace = append(rec.InPlace, fmt.Sprintf("%s during %s", o, ops[w].Kind))
					}
				}
			}
			if len(rec.InPlace) > 0 {
				rec.Sig = "cache-file-modified-other-than-by-rename"
				rec.Ops = ops
			}
			emit(rec)

			// ---- kill points: every (syscall, n) of the op thread; windows first
			type point struct {
				name   string
				nth    int
				window string
				in     bool
			}
			var pts []point
			inj := map[string]bool{}
			for _, n := range injectSet {
				inj[n] = true
			}
			for _, e := range rr.evs {
				if inj[e.name] {
					pts = append(pts, point{e.name, e.nth, e.kind, e.window >= 0})
				}
			}
			sel := pts
			if maxKill > 0 && len(pts) > maxKill {
				var in, outw []point
				for _, p := range pts {
					if p.in {
						in = append(in, p)
					} else {
						outw = append(outw, p)
					}
				}
				// all points of the explicit Save window, then a spread of the others
				var saveW, rest []point
				for _, p := range in {
					if p.window == "save" || p.window == "set_policy" || p.window == "reset_policy" {
						saveW = append(saveW, p)
					} else {
						rest = append(rest, p)
					}
				}
				sel = saveW
				g.r.Shuffle(len(rest), func(i, j int) { rest[i], rest[j] = rest[j], rest[i] })
				for len(sel) < maxKill-2 && len(rest) > 0 {
					sel, rest = append(sel, rest[0]), rest[1:]
				}
				for i := 0; i < 2 && i < len(outw); i++ {
					sel = append(sel, outw[g.r.Intn(len(outw))])
				}
			}
			prevDir := prev
			for pi, p := range sel {
				wg.Add(1)
				sem <- struct{}{}
				go func(pi int, p point) {
					defer wg.Done()
					defer func() { <-sem }()
					w := filepath.Join(base, fmt.Sprintf("h%d_s%d_k%d", h, s, pi))
					copyDir(prevDir, w)
					tr := filepath.Join(w, ".ref")
					os.MkdirAll(tr, 0o700)
					cr := runChild(tr, childParams{Dir: w, Ops: ops, RefDir: tr}, []string{"-e", fmt.Sprintf("inject=%s:signal=KILL:when=%d", p.name, p.nth)}, true)
					rec := &crashRecord{History: h, Save: s, Kind: "kill", Syscall: p.name, Nth: p.nth, Window: p.window, Killed: cr.killed, Status: cr.status}
					if !cr.killed && !strings.HasPrefix(cr.status, "done") {
						rec.Detail = "child neither killed nor finished: " + cr.err
					}
					judge(w, legit, probes, keys, rec)
					if rec.Sig != "" {
						rec.Ops = ops
					}
					emit(rec)
					os.RemoveAll(w)
				}(pi, p)
			}

			// ---- ENOSPC on the n-th write
			if doENOSPC {
				nw := 0
				for _, e := range rr.evs {
					if e.name == "write" {
						nw++
					}
				}
				for n := 1; n <= nw; n++ {
					wg.Add(1)
					sem <- struct{}{}
					go func(n int) {
						defer wg.Done()
						defer func() { <-sem }()
						w := filepath.Join(base, fmt.Sprintf("h%d_s%d_e%d", h, s, n))
						copyDir(prevDir, w)
						tr := filepath.Join(w, ".ref")
						os.MkdirAll(tr, 0o700)
						cr := runChild(tr, childParams{Dir: w, Ops: ops, RefDir: tr}, []string{"-e", fmt.Sprintf("inject=write:error=ENOSPC:when=%d", n)}, true)
						rec := &crashRecord{History: h, Save: s, Kind: "enospc", Syscall: "write", Nth: n, Killed: cr.killed, Status: cr.status}
						judge(w, legit, probes, keys, rec)
						if rec.Sig != "" {
							rec.Ops = ops
						}
						emit(rec)
						os.RemoveAll(w)
					}(n)
				}
			}

			// ---- truncation: the file the explicit Save writes holds only the first k bytes
			target := ""
			for _, o := range rec.Skeleton {
				if strings.HasPrefix(o, "ObsCreate ") {
					q := strings.TrimPrefix(o, "ObsCreate ")
					target = strings.ReplaceAll(q[1:len(q)-1], `""`, `"`)
					break
				}
			}
			if target != "" && len(legit) >= 2 {
				newData, oldSnap := legit[len(legit)-1].data, legit[len(legit)-2]
				offs := map[int]bool{0: true, 1: true, len(newData) - 1: true, len(newData) / 2: true, len(newData) / 3: true, len(newData) / 7: true}
				if truncStep > 0 {
					for o := 0; o < len(newData); o += truncStep {
						offs[o] = true
					}
				} else {
					for i := 0; i < 6; i++ {
						offs[g.r.Intn(len(newData))] = true
					}
					for o := 4096; o < len(newData); o += 4096 * (1 + len(newData)/(4096*8)) {
						offs[o] = true
					}
				}
				var ol []int
				for o := range offs {
					if o >= 0 && o < len(newData) {
						ol = append(ol, o)
					}
				}
				sort.Ints(ol)
				pair := []legitSnap{oldSnap, legit[len(legit)-1]}
				for _, o := range ol {
					w := filepath.Join(base, fmt.Sprintf("h%d_s%d_t", h, s))
					os.RemoveAll(w)
					copyDir(prevDir, w)
					if oldSnap.absent {
						os.Remove(filepath.Join(w, "cache"))
					} else {
						os.WriteFile(filepath.Join(w, "cache"), oldSnap.data, 0o644)
					}
					os.WriteFile(filepath.Join(w, target), newData[:o], 0o644)
					rec := &crashRecord{History: h, Save: s, Kind: "truncate", Offset: o, Target: target, Bytes: len(newData)}
					judge(w, pair, probes, keys, rec)
					if rec.Sig != "" {
						rec.Ops = ops
					}
					emit(rec)
				}
			}
			wg.Wait()
			prev = ref
		}
	}
	wg.Wait()
}
