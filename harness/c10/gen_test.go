//go:build verif

// C10 harness, part 1: generated cache contents as lists of operations (JSON-serialisable so
// that a child process can replay one save of a history), and their application to a cache.
package cache

import (
	"encoding/json"
	"fmt"
	"math/rand"
	"sort"
	"strings"

	nri "github.com/containerd/nri/pkg/api"
	podresv1 "k8s.io/kubelet/pkg/apis/podresources/v1"

	"github.com/containers/nri-plugins/pkg/agent/podresapi"
	"github.com/containers/nri-plugins/pkg/kubernetes"
	"github.com/containers/nri-plugins/pkg/topology"
	"github.com/containers/nri-plugins/pkg/utils/cpuset"
)

// ---- a Cacheable policy entry with nested JSON (shape of the cpu controller's / TA policy's entries)

type vGrant struct {
	Pool      string            `json:"pool"`
	Exclusive string            `json:"exclusive,omitempty"`
	Milli     int               `json:"milli"`
	Mem       map[string]int64  `json:"mem,omitempty"`
	Nested    *vGrant           `json:"nested,omitempty"`
	List      []string          `json:"list"`
	Labels    map[string]string `json:"labels"`
}
type vAllocs map[string]*vGrant

func (a *vAllocs) Set(value interface{}) {
	switch v := value.(type) {
	case vAllocs:
		*a = v
	case *vAllocs:
		*a = *v
	}
}
func (a *vAllocs) Get() interface{} { return *a }

// ---- operations

type vOp struct {
	Kind   string              `json:"kind"`
	Pod    *nri.PodSandbox     `json:"pod,omitempty"`
	PodRes *podresv1.PodResources `json:"podres,omitempty"`
	Ctr    *nri.Container      `json:"ctr,omitempty"`
	Res    *nri.LinuxResources `json:"res,omitempty"`
	Hints  topology.Hints      `json:"hints,omitempty"`
	ID     string              `json:"id,omitempty"`
	Key    string              `json:"key,omitempty"`
	Val    string              `json:"val,omitempty"`
	N      int64               `json:"n,omitempty"`
	State  *int32              `json:"state,omitempty"`
}

type vGen struct {
	r      *rand.Rand
	npod   int
	nctr   int
	pods   map[string][]string // live pod id -> container names
	ctrs   map[string]string   // live container id -> pod id
	cnames map[string]string   // container id -> name
	keys   map[string]bool     // policy entry keys ever set
	probes map[string]bool     // label/annotation/tag/env keys ever used
	big    bool
}

func newGen(seed int64) *vGen {
	return &vGen{r: rand.New(rand.NewSource(seed)), pods: map[string][]string{}, ctrs: map[string]string{},
		cnames: map[string]string{}, keys: map[string]bool{}, probes: map[string]bool{}}
}

var vAlphabet = []string{"a", "b", "z", "0", "9", "-", "_", ".", "/", " ", "\"", "\\", "<", ">", "&", "'", ":", ",", "{", "}", "é", "日", "=", "$"}

func (g *vGen) str(max int) string {
	n := g.r.Intn(max + 1)
	var b strings.Builder
	for i := 0; i < n; i++ {
		b.WriteString(vAlphabet[g.r.Intn(len(vAlphabet))])
	}
	return b.String()
}

func (g *vGen) pick(xs ...string) string { return xs[g.r.Intn(len(xs))] }

func (g *vGen) strMap(prefix string, max int) map[string]string {
	switch g.r.Intn(6) {
	case 0:
		return nil
	case 1:
		return map[string]string{}
	}
	m := map[string]string{}
	for i, n := 0, 1+g.r.Intn(max); i < n; i++ {
		k := fmt.Sprintf("%s%d", prefix, g.r.Intn(6))
		if g.r.Intn(5) == 0 {
			k = prefix + g.str(4)
		}
		m[k] = g.str(8)
		g.probes[k] = true
	}
	return m
}

func (g *vGen) cpus() string {
	return g.pick("", "0", "0-3", "1,3,5", "0-1,4-7,12", "2-3", "0-63")
}

func (g *vGen) optI64() *nri.OptionalInt64 {
	switch g.r.Intn(5) {
	case 0:
		return nil
	case 1:
		return &nri.OptionalInt64{}
	case 2:
		return nri.Int64(-1)
	}
	return nri.Int64(g.r.Int63n(1 << 40))
}

func (g *vGen) optU64() *nri.OptionalUInt64 {
	switch g.r.Intn(5) {
	case 0:
		return nil
	case 1:
		return &nri.OptionalUInt64{}
	case 2:
		return nri.UInt64(uint64(1<<63) + uint64(g.r.Int63()))
	}
	return nri.UInt64(uint64(g.r.Int63n(262144)))
}

func (g *vGen) linuxResources() *nri.LinuxResources {
	if g.r.Intn(8) == 0 {
		return nil
	}
	res := &nri.LinuxResources{}
	if g.r.Intn(6) != 0 {
		res.Cpu = &nri.LinuxCPU{Shares: g.optU64(), Quota: g.optI64(), Period: g.optU64(), Cpus: g.cpus(), Mems: g.pick("", "0", "0-1", "1,3")}
		if g.r.Intn(4) == 0 {
			res.Cpu.Shares = nri.UInt64(uint64(2 + g.r.Intn(8192)))
			res.Cpu.Quota = nri.Int64(int64(1000 * g.r.Intn(400)))
			res.Cpu.Period = nri.UInt64(100000)
		}
	}
	if g.r.Intn(6) != 0 {
		res.Memory = &nri.LinuxMemory{Limit: g.optI64(), Swap: g.optI64(), Reservation: g.optI64()}
		if g.r.Intn(3) == 0 {
			res.Memory.Swappiness = g.optU64()
			res.Memory.DisableOomKiller = nri.Bool(g.r.Intn(2) == 0)
		}
	}
	if g.r.Intn(4) == 0 {
		res.HugepageLimits = []*nri.HugepageLimit{{PageSize: "2MB", Limit: uint64(g.r.Int63())}}
	}
	if g.r.Intn(4) == 0 {
		res.RdtClass = nri.String(g.pick("", "gold", "silver"))
	}
	if g.r.Intn(4) == 0 {
		res.BlockioClass = nri.String(g.pick("", "fast", "slow"))
	}
	if g.r.Intn(4) == 0 {
		res.Unified = g.strMap("memory.", 3)
	}
	if g.r.Intn(3) == 0 {
		res.Devices = []*nri.LinuxDeviceCgroup{{Allow: true, Type: "c", Major: nri.Int64(int64(g.r.Intn(300))), Minor: g.optI64(), Access: g.pick("rwm", "r", "rw")},
			{Allow: false, Access: "w"}}
	}
	return res
}

func (g *vGen) genPod() (*nri.PodSandbox, *podresv1.PodResources) {
	g.npod++
	id := fmt.Sprintf("pod%03d-%s", g.npod, strings.Repeat("f", 8))
	qos := g.pick("kubepods/besteffort/", "kubepods-burstable.slice/", "kubepods/", "")
	p := &nri.PodSandbox{
		Id: id, Name: fmt.Sprintf("p%d%s", g.npod, g.pick("", "-x", ".y")), Uid: fmt.Sprintf("uid-%d", g.npod),
		Namespace: g.pick("default", "kube-system", "", "ns-é"), Labels: g.strMap("l", 4), Annotations: g.strMap("a", 4),
		RuntimeHandler: g.pick("", "runc"), Pid: uint32(g.r.Intn(3) * 1000),
	}
	if qos != "" || g.r.Intn(2) == 0 {
		p.Linux = &nri.LinuxPodSandbox{CgroupParent: qos + "pod" + p.Uid}
		if qos == "" {
			p.Linux.CgroupParent = ""
		}
		if g.r.Intn(4) == 0 {
			p.Linux.PodOverhead = g.linuxResources()
			p.Linux.Namespaces = []*nri.LinuxNamespace{{Type: "network", Path: "/proc/1/ns/net"}}
		}
	}
	ann := func(k, v string) {
		if p.Annotations == nil {
			p.Annotations = map[string]string{}
		}
		p.Annotations[k] = v
		g.probes[k] = true
	}
	// annotations the cache interprets
	switch g.r.Intn(5) {
	case 0:
		ann(kubernetes.ResmgrKey(keyAffinity), "c0: [c1]\nc1: [c2, c0]\n")
	case 1:
		ann(kubernetes.ResmgrKey(keyAffinity), "c0:\n- match:\n    key: name\n    operator: In\n    values: [c1, c2]\n  weight: 5\n- scope:\n    key: pod/name\n    operator: Exists\n  match:\n    key: labels/l1\n    operator: Matches\n    values: [\"a*\"]\n  weight: 2000\n")
	case 2:
		ann(kubernetes.ResmgrKey(keyAntiAffinity), "c1: [c0]\n")
		ann(kubernetes.ResmgrKey(keyAffinity), "c2: [c0]\n")
	case 3:
		ann(kubernetes.ResmgrKey(keyAffinity), "not: [valid: yaml")
	}
	if g.r.Intn(3) == 0 {
		ann(TopologyHintsKey+g.pick("", "/pod", "/container.c0"), g.pick("false", "true", "mounts,devices", "pod-resources", "none", "bogus"))
	}
	if g.r.Intn(3) == 0 {
		ann(RDTClassKey+g.pick("", "/pod", "/container.c1"), g.pick("gold", "silver", ""))
	}
	if g.r.Intn(3) == 0 {
		ann(BlockIOClassKey+g.pick("", "/container.c0"), g.pick("fast", "slow"))
	}
	if g.r.Intn(3) == 0 {
		ann(PreserveCpuKey+g.pick("", "/container.c0"), g.pick("true", "false"))
		ann(PreserveMemoryKey+g.pick("", "/container.c1"), g.pick("true", "false"))
	}
	if g.r.Intn(3) == 0 {
		ann(MemoryTypeKey+g.pick("", "/container.c0", "/pod"), g.pick("dram", "dram,pmem", "hbm", "bogus"))
	}
	if g.r.Intn(4) == 0 {
		ann("allow."+TopologyHintsKey, "type: prefix\npaths:\n- /sys/devices\n")
		ann("deny."+TopologyHintsKey, "type: glob\npaths:\n- podresourceapi:vendor.com/dev1\n")
	}
	var pr *podresv1.PodResources
	if g.r.Intn(2) == 0 {
		pr = &podresv1.PodResources{Name: p.Name, Namespace: p.Namespace}
		for i := 0; i < 1+g.r.Intn(3); i++ {
			cr := &podresv1.ContainerResources{Name: fmt.Sprintf("c%d", i)}
			if g.r.Intn(4) != 0 {
				cr.CpuIds = []int64{0, int64(g.r.Intn(64))}
			}
			for d := 0; d < g.r.Intn(3); d++ {
				dev := &podresv1.ContainerDevices{ResourceName: fmt.Sprintf("vendor.com/dev%d", d), DeviceIds: []string{"d0", g.str(3)}}
				if g.r.Intn(4) != 0 {
					dev.Topology = &podresv1.TopologyInfo{Nodes: []*podresv1.NUMANode{{ID: int64(g.r.Intn(4))}, {ID: int64(4 + g.r.Intn(4))}}}
				}
				cr.Devices = append(cr.Devices, dev)
			}
			if g.r.Intn(3) == 0 {
				cr.Memory = []*podresv1.ContainerMemory{{MemoryType: "memory", Size_: uint64(g.r.Int63n(1 << 34)), Topology: &podresv1.TopologyInfo{Nodes: []*podresv1.NUMANode{{ID: 0}}}}}
			}
			pr.Containers = append(pr.Containers, cr)
		}
	}
	g.pods[id] = nil
	return p, pr
}

func (g *vGen) genCtr(podID string) *nri.Container {
	g.nctr++
	name := fmt.Sprintf("c%d", len(g.pods[podID]))
	id := fmt.Sprintf("ctr%04d%s", g.nctr, strings.Repeat("e", 6))
	c := &nri.Container{
		Id: id, PodSandboxId: podID, Name: name,
		State:  nri.ContainerState(g.r.Intn(4)),
		Labels: g.strMap("l", 4), Annotations: g.strMap("a", 3),
		Pid: uint32(g.r.Intn(2) * 4242),
	}
	if g.r.Intn(3) != 0 {
		c.Args = []string{"/bin/" + g.str(4), g.str(6), ""}
	} else if g.r.Intn(2) == 0 {
		c.Args = []string{}
	}
	if g.r.Intn(3) != 0 {
		c.Env = []string{"PATH=/bin", "E" + fmt.Sprint(g.r.Intn(4)) + "=" + g.str(5), "EMPTY=", "noequals"}
		g.probes["PATH"], g.probes["EMPTY"], g.probes["E1"] = true, true, true
	}
	for i := 0; i < g.r.Intn(4); i++ {
		m := &nri.Mount{Destination: g.pick("/data", "/etc/hosts", "/var/lib/x", "/dev/shm") + fmt.Sprint(i), Source: g.pick("/var/lib/kubelet/pods/x/volumes/v", "/tmp/"+g.str(3), "/sys/devices/x"), Type: g.pick("bind", "", "tmpfs")}
		if g.r.Intn(2) == 0 {
			m.Options = []string{"rbind", g.pick("ro", "rw")}
		}
		c.Mounts = append(c.Mounts, m)
	}
	if g.r.Intn(5) != 0 {
		c.Linux = &nri.LinuxContainer{Resources: g.linuxResources(), CgroupsPath: g.pick("", "/kubepods/pod1/"+id)}
		switch g.r.Intn(4) {
		case 0:
			c.Linux.OomScoreAdj = nri.Int(-997)
		case 1:
			c.Linux.OomScoreAdj = nri.Int(2 + g.r.Intn(990))
		case 2:
			c.Linux.OomScoreAdj = nri.Int(1000)
		}
		for i := 0; i < g.r.Intn(3); i++ {
			d := &nri.LinuxDevice{Path: fmt.Sprintf("/dev/d%d", i), Type: g.pick("c", "b"), Major: int64(g.r.Intn(300)), Minor: int64(g.r.Intn(3))}
			if g.r.Intn(2) == 0 {
				d.FileMode = nri.FileMode(0o660)
				d.Uid = nri.UInt32(uint32(g.r.Intn(2) * 1000))
			}
			if g.r.Intn(3) == 0 {
				d.Gid = nri.UInt32(0)
			}
			c.Linux.Devices = append(c.Linux.Devices, d)
		}
		if g.r.Intn(4) == 0 {
			c.Linux.Namespaces = []*nri.LinuxNamespace{{Type: "pid"}}
		}
	}
	if g.r.Intn(5) == 0 {
		c.Hooks = &nri.Hooks{Prestart: []*nri.Hook{{Path: "/bin/hook", Args: []string{"a"}, Timeout: nri.Int(3)}}}
	}
	if g.r.Intn(5) == 0 {
		c.Rlimits = []*nri.POSIXRlimit{{Type: "RLIMIT_NOFILE", Hard: 1 << 20, Soft: 1024}}
	}
	g.pods[podID] = append(g.pods[podID], name)
	g.ctrs[id] = podID
	g.cnames[id] = name
	return c
}

func (g *vGen) liveCtr() string {
	if len(g.ctrs) == 0 {
		return ""
	}
	ids := make([]string, 0, len(g.ctrs))
	for id := range g.ctrs {
		ids = append(ids, id)
	}
	sort.Strings(ids)
	return ids[g.r.Intn(len(ids))]
}

func (g *vGen) livePod() string {
	if len(g.pods) == 0 {
		return ""
	}
	ids := make([]string, 0, len(g.pods))
	for id := range g.pods {
		ids = append(ids, id)
	}
	sort.Strings(ids)
	return ids[g.r.Intn(len(ids))]
}

func (g *vGen) entryOp() vOp {
	types := []string{"cpuset", "cpusetmap", "strmap", "string", "bool", "int32", "uint32", "int64", "uint64", "int", "uint", "allocs"}
	t := types[g.r.Intn(len(types))]
	key := t + ":" + g.pick("k0", "k1", "allocations", "é")
	g.keys[key] = true
	var v interface{}
	switch t {
	case "cpuset":
		v = g.cpus()
	case "cpusetmap":
		v = map[string]string{"shared": g.cpus(), "reserved": g.cpus(), g.str(3): ""}
	case "strmap":
		m := g.strMap("k", 4)
		if m == nil {
			m = map[string]string{}
		}
		v = m
	case "string":
		v = g.str(12)
	case "bool":
		v = g.r.Intn(2) == 0
	case "int32":
		v = int32(g.r.Uint32())
	case "uint32":
		v = g.r.Uint32()
	case "int64":
		v = int64(g.r.Uint64())
	case "uint64":
		v = g.r.Uint64()
	case "int":
		v = int(g.r.Int63()) - (1 << 62)
	case "uint":
		v = uint(g.r.Uint64())
	case "allocs":
		a := vAllocs{}
		for i := 0; i < g.r.Intn(4); i++ {
			gr := &vGrant{Pool: g.pick("root", "socket #0", "NUMA node #1"), Exclusive: g.cpus(), Milli: g.r.Intn(4000), List: []string{}, Labels: map[string]string{}}
			if g.r.Intn(2) == 0 {
				gr.Mem = map[string]int64{"dram": g.r.Int63(), "pmem": 0}
				gr.Nested = &vGrant{Pool: g.str(5), List: []string{g.str(3), "x"}, Labels: map[string]string{"a": g.str(3)}}
			}
			a[fmt.Sprintf("ctr%d", i)] = gr
		}
		v = a
	}
	data, _ := json.Marshal(v)
	return vOp{Kind: "set_entry", Key: key, Val: string(data)}
}

// genSave generates the operations leading to (and including) one explicit Save.
func (g *vGen) genSave(first bool) []vOp {
	var ops []vOp
	n := 2 + g.r.Intn(6)
	if first {
		n += 3
	}
	if g.big && first {
		n = 260
	}
	for i := 0; i < n; i++ {
		k := g.r.Intn(22)
		if (first && i < 2) || (g.big && first && i%5 == 0) {
			k = 0
		} else if (first && i < 5) || (g.big && first) {
			k = 1
		}
		id := g.liveCtr()
		switch {
		case k == 0 || len(g.pods) == 0:
			p, pr := g.genPod()
			ops = append(ops, vOp{Kind: "insert_pod", Pod: p, PodRes: pr, N: int64(g.r.Intn(2))})
		case k <= 3 || id == "":
			op := vOp{Kind: "insert_ctr", Ctr: g.genCtr(g.livePod())}
			if g.r.Intn(3) == 0 {
				s := int32(g.r.Intn(6) - 1) // incl. Creating (-1) and Stale (4)
				op.State = &s
			}
			ops = append(ops, op)
		case k == 4:
			key := g.pick("t0", "t1", "prefer-isolated", g.str(3))
			g.probes[key] = true
			ops = append(ops, vOp{Kind: "set_tag", ID: id, Key: key, Val: g.str(6)})
		case k == 5:
			ops = append(ops, vOp{Kind: "del_tag", ID: id, Key: g.pick("t0", "t1")})
		case k == 6:
			ops = append(ops, vOp{Kind: "update_state", ID: id, N: int64(g.r.Intn(6) - 1)})
		case k == 7:
			ops = append(ops, vOp{Kind: g.pick("set_cpu_shares", "set_cpu_quota", "set_cpu_period", "set_mem_limit", "set_mem_swap"), ID: id,
				N: []int64{0, 2, 1024, 100000, -1, 1 << 33, 262144}[g.r.Intn(7)]})
		case k == 8:
			ops = append(ops, vOp{Kind: g.pick("set_cpuset_cpus", "set_cpuset_mems"), ID: id, Val: g.cpus()})
		case k == 9:
			ops = append(ops, vOp{Kind: g.pick("set_rdt", "set_blockio"), ID: id, Val: g.pick("gold", "", "x y")})
		case k == 10:
			r := g.linuxResources()
			if r == nil {
				r = &nri.LinuxResources{}
			}
			ops = append(ops, vOp{Kind: "set_res_updates", ID: id, Res: r})
		case k == 11:
			ops = append(ops, vOp{Kind: "get_affinity", ID: id})
		case k == 12:
			h := topology.Hints{}
			for i := 0; i < g.r.Intn(3); i++ {
				h[g.pick("/sys/devices/pci0", "podresourceapi:x", g.str(4))] = topology.Hint{Provider: g.str(4), CPUs: g.cpus(), NUMAs: g.pick("", "0", "0,1"), Sockets: g.pick("", "0")}
			}
			ops = append(ops, vOp{Kind: "set_fields", ID: id, Val: g.pick("", "/kubepods/x/"+id), N: []int64{-1, 0, 1 << 30}[g.r.Intn(3)], Res: g.linuxResources(), Hints: h})
		case k == 13:
			ops = append(ops, vOp{Kind: "delete_ctr", ID: id})
			delete(g.ctrs, id)
		case k == 14 && len(g.pods) > 1:
			pid := g.livePod()
			var cids []string
			for cid, p := range g.ctrs {
				if p == pid {
					cids = append(cids, cid)
				}
			}
			sort.Strings(cids)
			for _, cid := range cids {
				ops = append(ops, vOp{Kind: "delete_ctr", ID: cid})
				delete(g.ctrs, cid)
			}
			ops = append(ops, vOp{Kind: "delete_pod", ID: pid})
			delete(g.pods, pid)
		case k == 15:
			ops = append(ops, vOp{Kind: "set_policy", Val: g.pick("topology-aware", "balloons", "")})
		case k == 16 && g.r.Intn(4) == 0:
			ops = append(ops, vOp{Kind: "reset_policy"})
		case k == 17:
			ops = append(ops, vOp{Kind: "insert_mount", ID: id})
		default:
			ops = append(ops, g.entryOp())
		}
	}
	// deterministic order for multi-delete above
	return append(ops, vOp{Kind: "save"})
}

// ---- applying operations to a cache (in-package: a few fields are written directly)

func vImplicit(c Container, hasExplicit bool) *Affinity {
	if hasExplicit || c.GetName() != "c1" {
		return nil
	}
	return GlobalAffinity("tags/prefer-isolated", 7)
}

func vNewCache(dir string) (*cache, error) {
	c, err := NewCache(Options{CacheDir: dir})
	if err != nil {
		return nil, err
	}
	cch := c.(*cache)
	// what a policy does at start-up; not part of the persisted state
	cch.AddImplicitAffinities(map[string]ImplicitAffinity{"verif": vImplicit})
	cch.ConfigureRDTControl(true)
	cch.ConfigureBlockIOControl(true)
	return cch, nil
}

func entryObject(key, val string) interface{} {
	t := key[:strings.Index(key, ":")]
	un := func(p interface{}) {
		if err := json.Unmarshal([]byte(val), p); err != nil {
			panic(fmt.Sprintf("bad entry op %s=%s: %v", key, val, err))
		}
	}
	switch t {
	case "cpuset":
		var s string
		un(&s)
		return cpuset.MustParse(s)
	case "cpusetmap":
		var m map[string]string
		un(&m)
		r := map[string]cpuset.CPUSet{}
		for k, v := range m {
			r[k] = cpuset.MustParse(v)
		}
		return r
	case "strmap":
		var m map[string]string
		un(&m)
		return m
	case "string":
		var v string
		un(&v)
		return v
	case "bool":
		var v bool
		un(&v)
		return v
	case "int32":
		var v int32
		un(&v)
		return v
	case "uint32":
		var v uint32
		un(&v)
		return v
	case "int64":
		var v int64
		un(&v)
		return v
	case "uint64":
		var v uint64
		un(&v)
		return v
	case "int":
		var v int
		un(&v)
		return v
	case "uint":
		var v uint
		un(&v)
		return v
	case "allocs":
		a := vAllocs{}
		un(&a)
		return Cacheable(&a)
	}
	panic("unknown entry type " + t)
}

// applyOp returns an error only for Save failures (everything else mirrors what resmgr does:
// look the object up, skip if it is gone).
func applyOp(cch *cache, op vOp) error {
	var c *container
	if op.ID != "" && op.Kind != "delete_pod" {
		if cc, ok := cch.Containers[op.ID]; ok {
			c = cc
		} else if op.Kind != "delete_ctr" {
			return nil
		}
	}
	switch op.Kind {
	case "insert_pod":
		if op.PodRes != nil && op.N == 1 {
			// the agent's asynchronous fetch: delivered on a channel, received by GetPodResources
			ch := make(chan *podresapi.PodResources, 1)
			ch <- &podresapi.PodResources{PodResources: op.PodRes}
			cch.InsertPod(op.Pod, ch).GetPodResources()
		} else {
			p := cch.InsertPod(op.Pod, nil).(*pod)
			if op.PodRes != nil {
				p.setPodResources(&podresapi.PodResources{PodResources: op.PodRes}) // RefreshPods path
			}
		}
	case "insert_ctr":
		var opts []InsertContainerOption
		if op.State != nil {
			opts = append(opts, WithContainerState(ContainerState(*op.State)))
		}
		if _, ok := cch.Pods[op.Ctr.PodSandboxId]; !ok {
			return nil
		}
		if _, err := cch.InsertContainer(op.Ctr, opts...); err != nil {
			return nil
		}
	case "delete_ctr":
		cch.DeleteContainer(op.ID)
	case "delete_pod":
		cch.DeletePod(op.ID)
	case "set_tag":
		c.SetTag(op.Key, op.Val)
	case "del_tag":
		c.DeleteTag(op.Key)
	case "update_state":
		c.UpdateState(ContainerState(op.N))
	case "set_cpu_shares":
		c.SetCPUShares(op.N)
	case "set_cpu_quota":
		c.SetCPUQuota(op.N)
	case "set_cpu_period":
		c.SetCPUPeriod(op.N)
	case "set_mem_limit":
		c.SetMemoryLimit(op.N)
	case "set_mem_swap":
		c.SetMemorySwap(op.N)
	case "set_cpuset_cpus":
		c.SetCpusetCpus(op.Val)
	case "set_cpuset_mems":
		c.SetCpusetMems(op.Val)
	case "set_rdt":
		c.SetRDTClass(op.Val)
	case "set_blockio":
		c.SetBlockIOClass(op.Val)
	case "set_res_updates":
		if c.Ctr.GetLinux().GetResources() != nil { // mergeNRIResources derefs the original (C14 finding, not ours)
			c.SetResourceUpdates(op.Res)
		}
	case "get_affinity":
		c.GetAffinity()
	case "set_fields":
		c.CgroupDir = op.Val
		c.ToptierLimit = op.N
		c.Resources = op.Res
		if len(op.Hints) > 0 {
			c.TopologyHints = op.Hints
		}
	case "insert_mount":
		c.InsertMount(&Mount{Destination: "/x", Source: "/y"})
	case "set_policy":
		return cch.SetActivePolicy(op.Val)
	case "reset_policy":
		return cch.ResetActivePolicy()
	case "set_entry":
		cch.SetPolicyEntry(op.Key, entryObject(op.Key, op.Val))
	case "save":
		return cch.Save()
	default:
		panic("unknown op " + op.Kind)
	}
	return nil
}
