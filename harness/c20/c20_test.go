//go:build verif

// C20 harness: dumps the public conversion functions of pkg/kubernetes over their whole
// finite domains and the OOM-adjustment estimate table for a list of capacities.
package kubernetes_test

import (
	"time"
	"bufio"
	"encoding/json"
	"fmt"
	"os"
	"path/filepath"
	"strconv"
	"strings"
	"testing"

	k8s "github.com/containers/nri-plugins/pkg/kubernetes"
)

func TestVerifC20(t *testing.T) {
	out := os.Getenv("VERIF_OUT")
	if out == "" {
		t.Skip("VERIF_OUT not set")
	}
	// shares -> milliCPU over the whole cgroup range
	f, _ := os.Create(filepath.Join(out, "shares.txt"))
	w := bufio.NewWriter(f)
	for s := int64(0); s <= 262144+16; s++ {
		fmt.Fprintf(w, "%d %d\n", s, k8s.SharesToMilliCPU(s))
	}
	w.Flush()
	f.Close()
	// milliCPU -> shares, quota/period -> milliCPU
	f, _ = os.Create(filepath.Join(out, "milli.txt"))
	w = bufio.NewWriter(f)
	for m := int64(0); m <= 300000; m++ {
		q, p := k8s.MilliCPUToQuota(m)
		fmt.Fprintf(w, "%d %d %d %d %d\n", m, k8s.MilliCPUToShares(m), q, p, k8s.QuotaToMilliCPU(q, p))
	}
	w.Flush()
	f.Close()
	// arbitrary quota/period pairs
	if data, err := os.ReadFile(filepath.Join(out, "qp_in.txt")); err == nil {
		f, _ = os.Create(filepath.Join(out, "qp.txt"))
		w = bufio.NewWriter(f)
		for _, line := range strings.Split(strings.TrimSpace(string(data)), "\n") {
			fs := strings.Fields(line)
			if len(fs) != 2 {
				continue
			}
			q, _ := strconv.ParseInt(fs[0], 10, 64)
			p, _ := strconv.ParseInt(fs[1], 10, 64)
			fmt.Fprintf(w, "%d %d %d\n", q, p, k8s.QuotaToMilliCPU(q, p))
		}
		w.Flush()
		f.Close()
	}
	// estimate tables
	saved := k8s.GetMemoryCapacity()
	defer k8s.SetMemoryCapacity(saved)
	data, err := os.ReadFile(filepath.Join(out, "caps.txt"))
	if err != nil {
		t.Fatal(err)
	}
	f, _ = os.Create(filepath.Join(out, "caps.jsonl"))
	w = bufio.NewWriter(f)
	enc := json.NewEncoder(w)
	type rec struct {
		Cap    int64   `json:"cap"`
		Panic  bool    `json:"panic"`
		Msg    string  `json:"msg,omitempty"`
		Table  []int64 `json:"table,omitempty"`  // index a-1, a = 1..999; -1 = nil
		Back   []int64 `json:"back,omitempty"`   // MemReqToOomAdj(table[a])
		Lookup []int64 `json:"lookup,omitempty"` // OomAdjToMemReq(a, lim) for probes
	}
	hung := false
	for _, line := range strings.Fields(string(data)) {
		c, _ := strconv.ParseInt(line, 10, 64)
		r := rec{Cap: c}
		if hung {
			// a table construction that did not return is still spinning on the package's global capacity:
			// nothing run after it can be believed
			break
		}
		done := make(chan struct{})
		go func() {
			defer close(done)
			defer func() {
				if e := recover(); e != nil {
					r.Panic = true
					r.Msg = fmt.Sprint(e)
				}
			}()
			k8s.SetMemoryCapacity(c)
			tbl := k8s.CalculateOomAdjToMemReqEstimates()
			for a := int64(1); a <= 999; a++ {
				v, ok := tbl[a]
				if !ok {
					v = 0
				}
				r.Table = append(r.Table, v)
				r.Back = append(r.Back, k8s.MemReqToOomAdj(v))
			}
			// probes of the lookup function: (a, lim) -> value or -1
			for _, a := range []int64{-997, 0, 1, 2, 3, 4, 500, 998, 999, 1000, 1001} {
				for _, lim := range []int64{0, 1, c / 2, c, c + 1} {
					if p := k8s.OomAdjToMemReq(a, lim); p != nil {
						r.Lookup = append(r.Lookup, *p)
					} else {
						r.Lookup = append(r.Lookup, -1)
					}
				}
			}
		}()
		select {
		case <-done:
		case <-time.After(20 * time.Second):
			// the construction searches at most int(capacity/1000) steps per entry: for a huge capacity a wrong
			// start point means ~10^16 iterations
			hung = true
			r = rec{Cap: c, Panic: true, Msg: "timeout: SetMemoryCapacity / CalculateOomAdjToMemReqEstimates did not return within 20s"}
		}
		enc.Encode(&r)
		w.Flush()
	}
	w.Flush()
	f.Close()
}
