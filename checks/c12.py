"""C12: opt-outs are honoured -- preserved or unpinned resources are never touched."""
from fscheck import *
from fsoracle import parse_set, F

NS = 'resource-policy.nri.io'


def gen(chk, tier, zoo, paths):
    rng = chk.rng
    n = 24 if tier == 'quick' else 300
    scripts = []
    for policy in ('topology-aware', 'balloons'):
        for i in range(n):
            m = rng.choice(zoo)
            cfg = fsgen.ta_config(rng, m) if policy == 'topology-aware' else fsgen.bln_config(rng, m)
            k = rng.random()
            if k < 0.15:
                cfg['pinCPU'] = False
            elif k < 0.3:
                cfg['pinMemory'] = False
            if policy == 'balloons' and rng.random() < 0.4:
                cfg['preserve'] = dict(matchExpressions=[dict(key='name', operator='In', values=['ctr2', 'ctr3'])])
            if policy == 'balloons' and cfg.get('balloonTypes') and rng.random() < 0.4:
                cfg['balloonTypes'][0]['pinMemory'] = False
            s = fsgen.gen_history(rng, policy, m, paths[m['name']], nevents=rng.choice([30, 50, 70] if tier == 'quick' else [60, 100, 150]),
                                  profile='preserve', name='%s%04d' % (policy[:2], i), config=cfg,
                                  reconfig=rng.choice([0, 0.05]), sync=rng.choice([0, 0.04]), restart=rng.choice([0, 0.02]))
            s['_machine'] = m
            scripts.append(s)
    return scripts


def optouts(sc, rec, cfg):
    """containers opted out of CPU / memory pinning in this snapshot: id -> reason"""
    cpu, mem = {}, {}
    bl_of, bl = {}, {}
    if rec.get('bln'):
        for x in rec['bln']['balloons']:
            for l in x['members'].values():
                for c in l:
                    bl_of[c] = x
    prule = None
    if sc['policy'] == 'balloons' and cfg.get('preserve'):
        vals = cfg['preserve']['matchExpressions'][0]['values']
        prule = set(vals)
    for c in rec['cache']:
        cid = c['id']
        if c.get('preserve_cpu'):
            cpu[cid] = 'cpu.preserve'
        elif not cfg.get('pinCPU', False):
            cpu[cid] = 'pinCPU-off'
        elif prule and c['name'] in prule:
            cpu[cid] = 'balloons-preserve-rule'
        if c.get('preserve_mem'):
            mem[cid] = 'memory.preserve'
        elif not cfg.get('pinMemory', False) and not (cid in bl_of and bl_of[cid]['pin_memory'] is True):
            mem[cid] = 'pinMemory-off'
        elif cid in bl_of and bl_of[cid]['pin_memory'] is False:
            mem[cid] = 'balloon-type-pinMemory-off'
        elif prule and c['name'] in prule:
            mem[cid] = 'balloons-preserve-rule'
    return cpu, mem


def run(tier, seed, replay=None):
    chk = Check('C12', tier, seed)
    chk.assumptions += [
        'decision tables Optout_Model.v (applyGrant / updateSharedAllocations / pinCpuMem) are compared with the Set* calls observed on the (auto-instrumented) cache container in every request; the theorems are about these tables',
        'oracle inspects every adjustment/update/pushed update addressed to an opted-out container: cpus must be absent; mems absent or equal to what the container already had',
        'opt-out detection: effective cpu.preserve / memory.preserve annotations as the cache resolves them, balloons preserve rule, pinCPU/pinMemory globally and per balloon type',
    ]
    chk.prove('C12_Props')
    zoo, paths = prepare_machines(chk)
    binary = build(chk)
    if not binary:
        return chk.finish(rule='harness build failed')
    scripts = gen(chk, tier, zoo, paths)
    scripts = maybe_replay(chk, replay, scripts, zoo, paths)
    traces = run_histories(chk, binary, [{k: v for k, v in s.items() if not k.startswith('_')} for s in scripts])
    nfind = collections.Counter()
    ta_cases, bln_cases, moved_cases = [], [], []
    n_opt_events = 0
    for sc in scripts:
        recs = traces.get(sc['name']) or []
        told_mems = {}
        prev_cfg = sc['config']
        prev_rec = None
        after_rejected = False
        for rec, (cfg, _) in zip(recs, configs_along(sc, recs)):
            if rec['seq'] < 0:
                prev_rec = rec
                continue
            ev = sc['events'][rec['seq']]
            # a request is judged by the configuration in force while it ran; a Reconfigure by the new one if accepted
            use = cfg
            cpu, mem = optouts(sc, rec, use)
            if rec['op'] == 'Reconfigure':
                # containers whose opt-out status changed with this update are not opted out w.r.t. it
                cpu0, mem0 = optouts(sc, rec, prev_cfg)
                # (a rejected update is tried and then reverted: configuration-level opt-outs are ambiguous
                #  while it runs; annotation-level ones are not)
                cpu = {k: v for k, v in cpu.items() if v in ('cpu.preserve',)}
                mem = {k: v for k, v in mem.items() if v in ('memory.preserve',)}
            if cpu or mem:
                n_opt_events += 1
            fs = fsoracle.c12_findings(ev, rec, cpu, mem, told_mems)
            # calls: no cpuset / changed mems written to an opted-out container's cache entry either
            cache = {c['id']: c for c in rec['cache']}
            for call in rec.get('calls') or []:
                # (writing back the value the cache entry already holds -- the UpdateContainer handler does that for a request
                #  with identical resources -- touches nothing)
                before = {c['id']: c for c in (prev_rec['cache'] if prev_rec else [])}
                same = call[0] == 'SetCpusetCpus' and call[1] in before and fsoracle.fmt_set(fsoracle.parse_set(call[2])) == before[call[1]]['cpus']
                if call[0] == 'SetCpusetCpus' and not same and call[1] in cpu and cpu[call[1]] != 'pinCPU-off' and cache.get(call[1], {}).get('state') in ('created', 'running'):
                    fs.append(F('C12', 'cpu-preserved-never-told-cpus', 'cpuset-written-to-cpu-opt-out:' + cpu[call[1]],
                                '%s: SetCpusetCpus(%r) on CPU-opted-out container %s' % (rec['op'], call[2], call[1]), rec['seq']))
            # a rejected configuration update is tried before it is reverted: what the attempt wrote to the containers
            # (under the rejected configuration's pinning switches) stays pending and reaches the runtime with the next
            # request that flushes (known findings K9/K5). Configuration-level opt-outs are judged under that name until
            # the next request that re-applies every allocation.
            if rec['op'] == 'Reconfigure' and rec['reply']['class'] != 'ok':
                after_rejected = True
            elif rec['op'] in ('Reconfigure', 'Synchronize', 'Restart') and rec['reply']['class'] == 'ok':
                after_rejected = False
            if after_rejected:
                fs = [dict(f, sig=f['sig'] + ':after-rejected-update') if f['sig'].endswith(('pinCPU-off', 'pinMemory-off', 'balloon-type-pinMemory-off')) else f for f in fs]
            for f in fs:
                nfind[(f['prop'], f['sig'])] += 1
                chk.violation(f['sig'], 'C12 [%s] history %s event %d: %s' % (f['clause'], sc['name'], f['seq'], f['what']),
                              {k: v for k, v in replay_of(sc, f['seq']).items() if not k.startswith('_')})
            # decision-table cases: containers whose allocation was applied in this request
            if rec['reply']['class'] == 'ok' and rec['op'] in ('CreateContainer',):
                cid = ev['ctr']['id']
                c = cache.get(cid)
                if c and c['state'] in ('created', 'running'):
                    wc = any(k[0] == 'SetCpusetCpus' and k[1] == cid for k in rec['calls'] or [])
                    wm = any(k[0] == 'SetCpusetMems' and k[1] == cid for k in rec['calls'] or [])
                    b = lambda x: 'true' if x else 'false'
                    if sc['policy'] == 'topology-aware':
                        g = [g for g in (rec['ta']['grants'] or []) if g['id'] == cid]
                        if g:
                            ta_cases.append('({| ti_pin_cpu := %s; ti_pin_mem := %s; ti_cpu_preserve := %s; ti_mem_preserve := %s |}, %s, %s)' % (
                                b(cfg.get('pinCPU', False)), b(cfg.get('pinMemory', False)), b(g[0]['cputype'] == 'preserve'), b(g[0].get('mem_preserve')), b(wc), b(wm)))
                    else:
                        # the other containers whose memory nodes were written in this request (moved by the allocator)
                        for oid in sorted({k[1] for k in rec['calls'] or [] if k[0] == 'SetCpusetMems' and k[1] != cid}):
                            oc = cache.get(oid)
                            ox = [x for x in rec['bln']['balloons'] if any(oid in l for l in x['members'].values())]
                            if oc and ox:
                                tp = 'None' if ox[0]['pin_memory'] is None else 'Some %s' % b(ox[0]['pin_memory'])
                                moved_cases.append('{| bi_pin_cpu := %s; bi_pin_mem := %s; bi_type_pin_mem := %s; bi_mem_preserve := %s |}' % (
                                    b(cfg.get('pinCPU', False)), b(cfg.get('pinMemory', False)), tp, b(oc.get('preserve_mem'))))
                        x = [x for x in rec['bln']['balloons'] if any(cid in l for l in x['members'].values())]
                        if x:
                            tp = 'None' if x[0]['pin_memory'] is None else 'Some %s' % b(x[0]['pin_memory'])
                            bln_cases.append('({| bi_pin_cpu := %s; bi_pin_mem := %s; bi_type_pin_mem := %s; bi_mem_preserve := %s |}, %s, %s)' % (
                                b(cfg.get('pinCPU', False)), b(cfg.get('pinMemory', False)), tp, b(c.get('preserve_mem')), b(wc), b(wm)))
            prev_cfg = cfg
            prev_rec = rec
    p = os.path.join(chk.work, 'cases_optout.v')
    with open(p, 'w') as f:
        f.write('From Coq Require Import List. Import ListNotations.\nFrom NV Require Import Optout_Model.\n')
        f.write('Definition ta : list (ta_in * bool * bool) := [%s].\n' % ';\n'.join(ta_cases))
        f.write('Definition bl : list (bln_in * bool * bool) := [%s].\n' % ';\n'.join(bln_cases))
        f.write('Definition mv : list bln_in := [%s].\n' % ';\n'.join(moved_cases))
        f.write('Definition M := Eval vm_compute in (bad_cases ta_case_ok 0 ta, bad_cases bln_case_ok 0 bl ++ bad_cases bln_moved_case_ok 100000 mv).\nPrint M.\n')
    rc, out = coqc_file(p)
    body = parse_coq_print(out, 'M')
    if rc != 0 or body is None:
        chk.corr_broken('Optout_Model', 'coqc failed:\n' + out[-1500:])
    elif ''.join(body.split()) != '([],[])':
        chk.corr_broken('Optout_Model', 'decision table differs from the observed Set* calls: %s; first TA case %s' % (' '.join(body.split())[:300], (ta_cases or ['-'])[0]))
    nt = sum(1 for r in traces.values() if nontrivial_history(r))
    events = sum(len(r) for r in traces.values())
    chk.samples += [{'history': s['name'], 'policy': s['policy'], 'config': s['config']} for s in scripts[:1]] + [{'ta_case': (ta_cases or [''])[0]}, {'bln_case': (bln_cases or [''])[0]}]
    return chk.finish(
        rule='random histories under both policies with cpu.preserve / memory.preserve annotations at container, pod and bare level, balloons preserve rules, pinCPU/pinMemory off globally or per balloon type, coexisting with ordinary containers that shrink/grow shared sets, inflate/deflate balloons and widen zones; '
             'non-trivial as for C01; events_with_optouts counts requests during which at least one opted-out container was cached',
        evaluations=events, distinct=nt, traces=len(traces),
        extra_cov={'histories': len(traces), 'events': events, 'events_with_optouts': n_opt_events, 'decision_cases': len(ta_cases) + len(bln_cases), 'moved_container_cases': len(moved_cases),
                   'oracle_findings': {'%s/%s' % k: v for k, v in nfind.items()}})


WARM = []
