"""C07: memory allocator placement rules: fit, types, monotone moves, exact updates (libmem)."""
import libmem_common
from libmem_common import WARM


def run(tier, seed, replay=None):
    return libmem_common.run_check('C07', tier, seed, replay)
