"""C02: balloons -- balloons partition CPUs and confine their containers."""
from fscheck import *
from checks.c01 import gen_scripts


def run(tier, seed, replay=None):
    chk = Check('C02', tier, seed)
    chk.assumptions += [
        'model Bln_Model.v: CPU partition / shared idle / membership bookkeeping of the balloons policy, choice-parametric (CPUs picked by the cpu-tree allocator and balloons picked by the fill methods are inputs)',
        'tie: full-stack harness; every snapshot transition is decomposed into model operations whose guards (subset of free CPUs, subset of the balloon, idle and non-isolated shared CPUs, single membership) are checked by Coq, and the whole state incl. every pinned container is compared',
        'completeness of shared idle CPUs, min/max CPUs and balloons, size >= requests and CPU classes are checked by the oracle on every snapshot (spec-level, not part of the choice-parametric theorems)',
        'modelled not verified: cputree.go chooser, fill-method chain, load classes, hyperthread hiding (oracle accepts the one-thread-per-core projection)',
    ]
    chk.prove('C02_Props')
    zoo, paths = prepare_machines(chk)
    binary = build(chk)
    if not binary:
        return chk.finish(rule='harness build failed')
    scripts = gen_scripts(chk, tier, zoo, paths, policy='balloons')
    scripts = maybe_replay(chk, replay, scripts, zoo, paths)
    traces = run_histories(chk, binary, [{k: v for k, v in s.items() if not k.startswith('_')} for s in scripts])
    nfind = bln_oracle_pass(chk, scripts, traces, ('C02',))
    stats, bad = bln_correspondence(chk, traces, scripts)
    nt = sum(1 for r in traces.values() if nontrivial_history(r))
    events = sum(len(r) for r in traces.values())
    chk.samples += [{'history': s['name'], 'machine': s['_machine']['name'], 'config': s['config'], 'first_events': [e['op'] for e in s['events'][:12]]} for s in scripts[:2]]
    return chk.finish(
        rule='random structured NRI histories under random balloon-type configurations (min/max CPUs and balloons, namespaces, match expressions, groupBy, preferNew/Spreading/PerNamespace, shareIdleCPUsInSame, hideHyperthreads, cpuClass, reserved/available sets) on 10 synthetic machines (the corpus of recorded histories is replayed first, 3 copies each); '
             'non-trivial = >=2 live containers at once, >=1 inflated balloon with members, >=1 release and >=1 request that changed another container',
        evaluations=events, distinct=nt, traces=stats['traces'],
        extra_cov={'histories': len(traces), 'events': events, 'model_ops': dict(stats),
                   'oracle_findings': {'%s/%s' % k: v for k, v in nfind.items()}})


WARM = []
