"""C17: configuration precedence -- node-specific over group/default, always (pkg/agent)."""
import os, json, hashlib, itertools
from vlib import *

HARNESS = {'pkg/agent/zz_verif_c17_test.go': '/verif/harness/c17/c17_test.go'}


def key(c):
    return (c['uid'], c['gen'], c['name'], c['valid'], c['accept'])


def coherent(cfgs):
    for a in cfgs:
        for b in cfgs:
            if a['uid'] == b['uid'] and a['gen'] == b['gen'] and a['gen'] != 0 and key(a) != key(b):
                return False
    return True


def base_table():
    """The 14-event alphabet of the exhaustive sweep: 6 configurations per stream + deletions.
    Node-specific and group resources are different resources (different uids, different names)."""
    base = [dict(uid=1, gen=1, valid=True, accept=True, plain=False),    # a configuration
            dict(uid=1, gen=2, valid=True, accept=True, plain=False),    # its next generation
            dict(uid=2, gen=1, valid=True, accept=True, plain=True),     # another resource, same generation, no Validate method
            dict(uid=3, gen=1, valid=False, accept=True, plain=False),   # fails validation
            dict(uid=4, gen=0, valid=True, accept=True, plain=False),    # generation 0 (read from a file)
            dict(uid=5, gen=3, valid=True, accept=False, plain=False)]   # valid, rejected by the plugin (non-fatal)
    cfgs, alpha = [], []
    for b in base:
        cfgs.append(dict(b, name=0))
        alpha.append([0, len(cfgs)])
    for i, b in enumerate(base):
        cfgs.append(dict(b, uid=b['uid'] + 8, name=2 if i == 2 else 1))
        alpha.append([1, len(cfgs)])
    alpha += [[0, 0], [1, 0]]
    return dict(cfgs=cfgs, alpha=alpha, coherent=coherent(cfgs), seqs=[], sweeps=[])


def random_table(rng, want_coherent):
    n = rng.randint(3, 10)
    cfgs, seen, vers = [], set(), set()
    while len(cfgs) < n:
        c = dict(uid=rng.randint(1, 4), gen=rng.choice([0, 1, 1, 2, 3]), name=rng.randint(0, 3),
                 valid=rng.random() < 0.75, accept=rng.random() < 0.8, plain=rng.random() < 0.3)
        if key(c) in seen:
            continue
        if want_coherent and c['gen'] != 0 and (c['uid'], c['gen']) in vers:
            c['uid'] = 5 + len(cfgs)
        seen.add(key(c))
        vers.add((c['uid'], c['gen']))
        cfgs.append(c)
    alpha = [[0, 0], [1, 0]]
    for i in range(n):
        r = rng.random()
        if r < 0.45 or r > 0.9:
            alpha.append([0, i + 1])
        if r >= 0.45:
            alpha.append([1, i + 1])
    return dict(cfgs=cfgs, alpha=alpha, coherent=coherent(cfgs), seqs=[], sweeps=[])


def random_seq(rng, t, maxlen):
    n = rng.randint(1, maxlen)
    seq = []
    for _ in range(n):
        r = rng.random()
        if seq and r < 0.15:
            seq.append(seq[-1])                       # immediate re-delivery
        elif seq and r < 0.25:
            seq.append(rng.choice(seq))               # re-delivery of something older
        elif r < 0.45:
            seq.append(rng.randint(0, 1) if t['alpha'][0][1] == 0 else rng.choice([len(t['alpha']) - 2, len(t['alpha']) - 1]))
        else:
            seq.append(rng.randrange(len(t['alpha'])))
    return seq


def nontrivial(t, seq):
    """agent sequence rule of DESIGN A.4: both streams present and at least one deletion"""
    evs = [t['alpha'][i] for i in seq]
    return any(e[0] == 0 for e in evs) and any(e[0] == 1 for e in evs) and any(e[1] == 0 for e in evs)


def coq_cfg(c):
    return '{| uid := %d; gen := %d; name := %d; valid := %s; accept := %s |}' % (
        c['uid'], c['gen'], c['name'], coq_bool(c['valid']), coq_bool(c['accept']))


def nlist(xs):
    return '[' + ';'.join(str(int(x)) for x in xs) + ']'


def case_header(t):
    return ('From Coq Require Import NArith List Bool. Import ListNotations.\nFrom NV Require Import C17_Model.\nOpen Scope N_scope.\n'
            'Definition tbl : list cfg := [%s].\n' % ';\n  '.join(coq_cfg(c) for c in t['cfgs']) +
            'Definition alpha : list (bool * N) := [%s].\n' % ';'.join('(%s,%d)' % (coq_bool(a[0] == 1), a[1]) for a in t['alpha']))


def explicit(t, seq):
    out = []
    for i in seq:
        g, p = t['alpha'][i]
        out.append({'stream': 'group' if g else 'node', 'event': 'deleted' if p == 0 else 'added/modified',
                    'config': None if p == 0 else {k: v for k, v in t['cfgs'][p - 1].items()}})
    return out


def run(tier, seed, replay=None):
    chk = Check('C17', tier, seed)
    rng = chk.rng
    chk.assumptions += [
        "model scope: updateNodeConfig/updateGroupConfig/updateConfig/patchConfigStatus/sameConfigVersion of pkg/agent/agent.go; a configuration is (uid, generation, name, Validate()==nil, notify callback returns nil)",
        "not modelled: the select loop of Agent.Start (Added/Modified -> update(obj), Deleted -> update(nil); validated by one scripted 8-event scenario through the real loop with the real file watch and a fake group watch, compared with direct calls), watch re-opening, a.configure(), fatal=true from the notify callback (process exit)",
        "coherence assumption of the history theorems: objects with equal uid and equal non-zero generation are identical (API server guarantee); refuted without it (C17_delivered_is_effective_refuted_incoherent)",
        "correspondence: in-package Go harness (harness/c17) calls the real update functions with fake objects, a recording notify callback and a recording ConfigInterface; compares nodeCfg/groupCfg/currentCfg and every notify/PatchStatus call after every step",
    ]
    chk.prove('C17_Props')

    # ---------------- inputs
    tables = []
    t0 = base_table()
    if replay:
        r = json.load(open(replay))['replay']
        t0 = r['table']
        t0['seqs'], t0['sweeps'] = [r['seq']], []
    elif tier == 'quick':
        t0['sweeps'] = [dict(prefix=[], depth=3)]
    else:
        t0['sweeps'] = [dict(prefix=[], depth=1)] + [dict(prefix=[i, j], depth=3)
                                                      for i in range(len(t0['alpha'])) for j in range(len(t0['alpha']))]
    tables.append(t0)
    if not replay:
        nt, ns, ml = (8, 40, 40) if tier == 'quick' else (60, 100, 60)
        for k in range(nt):
            t = random_table(rng, want_coherent=(k % 4 != 3))
            t['seqs'] = [random_seq(rng, t, ml) for _ in range(ns)]
            tables.append(t)
        # the base alphabet with long random sequences, too
        tb = base_table()
        tb['seqs'] = [random_seq(rng, tb, ml) for _ in range(ns)]
        tables.append(tb)
    with open(os.path.join(chk.work, 'c17_in.json'), 'w') as f:
        json.dump(tables, f)

    rc, out, dt = go_test('./pkg/agent/', HARNESS, '^TestVerifC17(Dispatch)?$', env={'VERIF_OUT': chk.work}, timeout=900 if tier != 'quick' else 240)
    outp = os.path.join(chk.work, 'c17_out.jsonl')
    dispp = os.path.join(chk.work, 'c17_dispatch.json')
    disp = json.load(open(dispp)) if os.path.exists(dispp) else None
    if not os.path.exists(outp) or disp is None or (rc != 0 and (disp['ok'] or disp.get('skipped'))):
        chk.corr_broken('harness', 'go test failed:\n' + out[-3000:])
        return chk.finish(rule='harness failed')
    recs = [json.loads(l) for l in open(outp)]

    # ---------------- the same events through the real Agent.Start loop (file watch + fake group watch)
    if disp.get('skipped'):
        chk.assumptions.append('Agent.Start dispatch scenario skipped: ' + disp['skipped'])
    elif not disp['ok']:
        chk.violation('start-loop-dispatch-differs', 'watch events dispatched by Agent.Start do not act like the update functions: ' + disp.get('what', ''),
                      {'scenario': disp['steps']})

    # ---------------- oracle verdicts (computed in Go on the agent's calls)
    nseq = nsweepseq = 0
    allv = sorted(((v['step'], i, j) for i, r in enumerate(recs) for j, v in enumerate(r.get('viols', []))))
    for _, i, j in allv:   # shortest failing histories first: finish() keeps the first replay per signature
        r, v = recs[i], recs[i]['viols'][j]
        t = tables[r['table']]
        pre = v['seq'][:v['step'] + 1]
        chk.violation(v['sig'], '%s; events: %s' % (v['what'], json.dumps(explicit(t, pre))),
                      {'table': {'cfgs': t['cfgs'], 'alpha': t['alpha'], 'coherent': t['coherent']}, 'seq': pre,
                       'events': explicit(t, pre), 'calls_per_step': v['calls_per_step'][:v['step'] + 1]})
    for r in recs:
        t = tables[r['table']]
        if r.get('err'):
            chk.corr_broken('harness', 'harness error in table %d %s %d: %s' % (r['table'], r['kind'], r['index'], r['err']))
        if r['kind'] == 'seq':
            nseq += 1
        else:
            nsweepseq += len(r['codes'])

    # ---------------- correspondence
    files = []
    for ti, t in enumerate(tables):
        rs = [r for r in recs if r['table'] == ti and r['kind'] == 'seq']
        if rs:
            p = os.path.join(chk.work, 'cases_seq_%03d.v' % ti)
            with open(p, 'w') as f:
                f.write(case_header(t))
                f.write('Definition cases : list (list N * list N) := [%s].\n' %
                        ';\n  '.join('(%s,%s)' % (nlist(t['seqs'][r['index']]), nlist(r['codes'])) for r in rs))
                f.write('Definition M := Eval vm_compute in seq_mismatches tbl alpha 0 cases.\nPrint M.\n')
            files.append(('table %d: %d explicit sequences' % (ti, len(rs)), p, ti))
        rs = [r for r in recs if r['table'] == ti and r['kind'] == 'sweep']
        PER = 7
        for k in range(0, len(rs), PER):
            p = os.path.join(chk.work, 'cases_sweep_%03d_%03d.v' % (ti, k // PER))
            with open(p, 'w') as f:
                f.write(case_header(t))
                items = []
                for r in rs[k:k + PER]:
                    sw = t['sweeps'][r['index']]
                    items.append('(%s, sweep_mismatch tbl alpha %s %d %s)' % (nlist(sw['prefix']), nlist(sw['prefix']), sw['depth'], nlist(r['codes'])))
                f.write('Definition R : list (list N * option (N * N * N)) := [%s].\n' % ';\n  '.join(items))
                f.write('Definition M := Eval vm_compute in filter (fun x => match snd x with None => false | Some _ => true end) R.\nPrint M.\n')
            files.append(('table %d: sweeps %d..' % (ti, k), p, ti))
    results = coq_eval_many([p for _, p, _ in files])
    for (nm, p, ti), (rc, out) in zip(files, results):
        body = parse_coq_print(out, 'M')
        if rc != 0 or body is None:
            chk.corr_broken(nm, 'coqc failed on %s:\n%s' % (p, out[-1500:]))
        elif body.replace(' ', '') != '[]':
            chk.corr_broken(nm, 'model and implementation differ (case/prefix, step, model code, observed code): %s (%s)' % (body[:600], p))

    # ---------------- coverage (measured)
    distinct = set()
    lens = {}
    for ti, t in enumerate(tables):
        th = hashlib.sha1(json.dumps([t['cfgs'], t['alpha']], sort_keys=True).encode()).hexdigest()
        for s in t['seqs']:
            lens[len(s)] = lens.get(len(s), 0) + 1
            if nontrivial(t, s):
                distinct.add(th + ':' + ','.join(map(str, s)))
        for sw in t['sweeps']:
            na = len(t['alpha'])
            for d in range(sw['depth'] + 1):
                for suf in itertools.product(range(na), repeat=d):
                    s = list(sw['prefix']) + list(suf)
                    lens[len(s)] = lens.get(len(s), 0) + 1
                    if nontrivial(t, s):
                        distinct.add(th + ':' + ','.join(map(str, s)))
    ex = [r for r in recs if r['kind'] == 'seq'][:3]
    for r in ex:
        t = tables[r['table']]
        chk.samples.append({'events': explicit(t, t['seqs'][r['index']][:6]), 'observation_codes': r['codes'][:6], 'notifications_total': r['notifs']})
    maxd = max(len(sw['prefix']) + sw['depth'] for sw in t0['sweeps']) if t0['sweeps'] else 0
    return chk.finish(
        rule='ALL event sequences up to length %d over the 14-event alphabet (6 configurations per stream incl. next generation, other uid, invalid, generation 0, '
             'rejected-by-plugin; 2 deletions) + random sequences (length <= %s) over random alphabets (a quarter of them incoherent: same uid+generation, different content). '
             'Non-trivial = both streams present and at least one deletion; distinct = hash of (table, sequence)' % (maxd, 40 if tier == 'quick' else 60),
        evaluations=nseq + nsweepseq, distinct=len(distinct), traces=nseq + nsweepseq,
        extra_cov={'exhaustive': True, 'exhaustive_depth': maxd, 'sweep_sequences': nsweepseq, 'random_sequences': nseq,
                   'length_histogram': {str(k): v for k, v in sorted(lens.items())}, 'tables': len(tables),
                   'incoherent_tables': sum(1 for t in tables if not t['coherent']), 'coq_case_files': len(files)})


WARM = [('./pkg/agent/', HARNESS)]
