"""C04: memory pinning follows the allocator and never oversubscribes a zone."""
from fscheck import *
from fsoracle import parse_set, F


def gen(chk, tier, zoo, paths):
    rng = chk.rng
    n = 24 if tier == 'quick' else 300
    extra = [machines.build('2s-pmem-hbm', 2, 1, 1, 4, 2, extra=[('pmem', 0, 16384), ('pmem', 1, 16384), ('hbm', 0, 2048)], mem_mb={0: 4096, 1: 2048}),
             machines.build('1s-2n-movable', 1, 1, 2, 4, 2, extra=[('pmem', 0, 8192)], movable_only=(2,), mem_mb={0: 2048, 1: 6144})]
    for m in extra:
        p = os.path.join(chk.work, 'm', m['name'] + '.json')
        machines.dump(m, p)
        paths[m['name']] = p
    zoo = zoo + extra + extra
    scripts = []
    for policy in ('topology-aware', 'balloons'):
        for i in range(n):
            m = rng.choice(zoo)
            s = fsgen.gen_history(rng, policy, m, paths[m['name']], nevents=rng.choice([30, 50, 70] if tier == 'quick' else [60, 100, 150]),
                                  profile=rng.choice(['mem', 'fill', 'mempres', 'mempres']), name='%s%04d' % (policy[:2], i),
                                  reconfig=rng.choice([0, 0.04]), sync=rng.choice([0, 0.03]), restart=rng.choice([0, 0.02]))
            s['_machine'] = m
            scripts.append(s)
    return scripts


def widening_findings(sc, recs, cfgs):
    """every container whose assigned zone changed in a request is told the new zone in the same request"""
    out = []
    prev = None
    for rec, (cfg, _) in zip(recs, cfgs):
        snap = rec.get('ta') or rec.get('bln')
        if not snap:
            continue
        users = snap['libmem'].get('users') or {}
        if prev is not None and rec['op'] not in ('Restart', 'Setup') and rec['reply']['class'] == 'ok':
            rep = rec['reply']
            told = {u['id']: u.get('mems') for u in ([rep['adjust']] if rep.get('adjust') else []) + (rep.get('updates') or []) + (rep.get('pushed') or [])}
            cache = {c['id']: c for c in rec['cache']}
            pin = cfg.get('pinMemory', False)
            for cid, z in users.items():
                c = cache.get(cid)
                if cid in prev and prev[cid] != z and c and c['state'] in ('created', 'running') and pin and not c.get('preserve_mem'):
                    if rec.get('bln'):
                        bl = [x for x in snap['balloons'] if any(cid in l for l in x['members'].values())]
                        if bl and bl[0]['pin_memory'] is False:
                            continue
                    want = set(z)
                    got = parse_set(told.get(cid)) if told.get(cid) else None
                    if got != want:
                        out.append(F('C04', 'widening-delivered', 'zone-change-not-delivered',
                                     '%s: zone of %s changed %s -> %s but the reply tells it %s' % (rec['op'], cid, prev[cid], z, told.get(cid)), rec['seq']))
        prev = dict(users)
    return out


def run(tier, seed, replay=None):
    chk = Check('C04', tier, seed)
    chk.assumptions += [
        'model Mem_Model.v: the policies\' pinning glue over an abstract allocator; the allocator contract (returned updates = exactly the changed assignments, only for existing ids) is C07\'s theorem updates_exact',
        'fit of in-use zones is C07 fit_inuse_partial; the full-strength "every node set" clause is refuted (K1) and reappears here with the signature oversubscribed-set-not-an-in-use-zone',
        'tie: full-stack harness on NUMA layouts with DRAM/PMEM/HBM, CPU-less and movable-only nodes, memory limits sized to drive zones into overcommit; snapshots of the policies\' allocator (AssignedZone, zone usage/capacity of in-use zones and their unions) vs cpuset.mems in cache and replies',
    ]
    chk.prove('C04_Props')
    zoo, paths = prepare_machines(chk)
    binary = build(chk)
    if not binary:
        return chk.finish(rule='harness build failed')
    scripts = gen(chk, tier, zoo, paths)
    scripts = maybe_replay(chk, replay, scripts, zoo, paths)
    traces = run_histories(chk, binary, [{k: v for k, v in s.items() if not k.startswith('_')} for s in scripts])
    nfind = collections.Counter()
    snaps = []
    moved = 0
    for sc in scripts:
        recs = traces.get(sc['name']) or []
        cfgs = configs_along(sc, recs)
        fs = widening_findings(sc, recs, cfgs)
        prevu = None
        for rec, (cfg, _) in zip(recs, cfgs):
            all_f = fsoracle.ta_state_findings(rec, cfg, sc['_machine']) if rec.get('ta') else fsoracle.bln_state_findings(rec, cfg, sc['_machine'])
            fs += [f for f in all_f if f['prop'] == 'C04']
            snap = rec.get('ta') or rec.get('bln')
            if snap:
                users = snap['libmem'].get('users') or {}
                if prevu is not None:
                    moved += sum(1 for k, z in users.items() if k in prevu and prevu[k] != z)
                prevu = dict(users)
                if cfg.get('pinMemory', False):
                    cache = {c['id']: c for c in rec['cache']}
                    managed = {g['id'] for g in (snap.get('grants') or [])} if rec.get('ta') else {c for x in snap['balloons'] for l in x['members'].values() for c in l}
                    nopin = set()
                    if rec.get('bln'):
                        nopin = {c for x in snap['balloons'] if x['pin_memory'] is False for l in x['members'].values() for c in l}
                    if rec.get('ta'):
                        nopin = {g['id'] for g in (snap['grants'] or []) if g.get('mem_preserve')}
                    for cid in managed - nopin:
                        c = cache.get(cid)
                        if c and c['state'] in ('created', 'running') and not c.get('preserve_mem'):
                            snaps.append((sc['name'], rec['seq'], cid, sorted(parse_set(c['mems'])), users.get(cid)))
        for f in fs:
            nfind[(f['prop'], f['sig'])] += 1
            chk.violation(f['sig'], 'C04 [%s] history %s event %d: %s' % (f['clause'], sc['name'], f['seq'], f['what']),
                          {k: v for k, v in replay_of(sc, f['seq']).items() if not k.startswith('_')})
    # correspondence in Coq: told = assigned on every snapshot
    nl = lambda l: '[%s]' % ';'.join(map(str, l))
    shards = 16
    per = max(1, (len(snaps) + shards - 1) // shards)
    files = []
    for k in range(0, len(snaps), per):
        p = os.path.join(chk.work, 'cases_mem_%02d.v' % (k // per))
        with open(p, 'w') as f:
            f.write('From Coq Require Import List. Import ListNotations.\nFrom NV Require Import Mem_Model.\nOpen Scope nat_scope.\n')
            f.write('Definition cs : list (nat * list nat * option (list nat)) := [%s].\n' % ';\n'.join(
                '(%d, %s, %s)' % (i, nl(t), 'Some ' + nl(a) if a is not None else 'None') for i, (_, _, _, t, a) in enumerate(snaps[k:k + per])))
            f.write('Definition M := Eval vm_compute in snap_ok cs.\nPrint M.\n')
        files.append((k, p))
    for (k, p), (rc, out) in zip(files, coq_eval_many([p for _, p in files])):
        body = parse_coq_print(out, 'M')
        if rc != 0 or body is None:
            chk.corr_broken('Mem_Model/' + os.path.basename(p), 'coqc failed:\n' + out[-1500:])
        elif body.strip() != '[]':
            idx = [int(x) for x in re.findall(r'\d+', body)][:3]
            chk.corr_broken('Mem_Model', 'told mems differ from the assigned zone: %s' % [snaps[k + i][:3] for i in idx])
    nt = sum(1 for r in traces.values() if nontrivial_history(r))
    events = sum(len(r) for r in traces.values())
    chk.samples += [{'history': s['name'], 'policy': s['policy'], 'machine': s['_machine']['name']} for s in scripts[:2]] + [dict(zip(('history', 'event', 'container', 'told', 'assigned'), snaps[0]))] if snaps else []
    return chk.finish(
        rule='random histories under both policies on layouts with DRAM/PMEM/HBM, CPU-less and movable-only nodes, memory limits from 1% to 170% of a node; non-trivial as for C01; zone_moves counts assignments changed by another container\'s request',
        evaluations=events, distinct=nt, traces=len(traces),
        extra_cov={'histories': len(traces), 'events': events, 'told_vs_assigned_checked': len(snaps), 'zone_moves': moved,
                   'oracle_findings': {'%s/%s' % k: v for k, v in nfind.items()}})


WARM = []
