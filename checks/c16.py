"""C16: hardware discovery is faithful and the topology-aware pool tree is well-formed on every machine."""
import os, json, hashlib, shutil, re
from concurrent.futures import ThreadPoolExecutor
from vlib import *
import vlib
import c16_gen as G

PREP = os.path.join(BUILD, 'c16_prep')
FIXDIR = os.path.join(BUILD, 'c16_fixtures')
TA = 'cmd/plugins/topology-aware/policy'


def _prep():
    os.makedirs(PREP, exist_ok=True)
    out = {}
    for pkg, tag in (('topologyaware', 'ta'), ('sysfs_test', 'sy')):
        for src in ('/verif/harness/common/sysfsgen.go', '/verif/harness/c16/c16_dump.go'):
            dst = os.path.join(PREP, '%s_%s' % (tag, os.path.basename(src)))
            s = open(src).read().replace('package PKGNAME', 'package ' + pkg)
            if not os.path.exists(dst) or open(dst).read() != s:
                with open(dst, 'w') as f:
                    f.write(s)
            out[(tag, os.path.basename(src))] = dst
    return out


_P = _prep()
OV_POOLS = {TA + '/zz_verif_c16_pools_test.go': '/verif/harness/c16/c16_pools_test.go',
            TA + '/zz_verif_c16_dump_test.go': _P[('ta', 'c16_dump.go')],
            TA + '/zz_verif_c16_sysfsgen_test.go': _P[('ta', 'sysfsgen.go')]}
OV_SYSFS = {'pkg/sysfs/zz_verif_c16_sysfs_test.go': '/verif/harness/c16/c16_sysfs_test.go',
            'pkg/sysfs/zz_verif_c16_dump_test.go': _P[('sy', 'c16_dump.go')],
            'pkg/sysfs/zz_verif_c16_sysfsgen_test.go': _P[('sy', 'sysfsgen.go')]}

SIG_F11 = 'child-mems-not-subset:memless-cpu-node'   # fixed by 1a43202; raised again if the defect is reintroduced
SIG_F13 = 'getcaches-empty'                          # fixed by a76c733


def fixtures():
    """Extract the repo's recorded sysfs tarballs once (cached by content hash). -> [(name, sysdir)]"""
    res = []
    specs = [('pkg/sysfs/test-data-sample1.tar.xz', 'J', [('sample1', 'sample1/sys')]),
             ('pkg/sysfs/test-data-sample2.tar.xz', 'J', [('sample2', 'sample2/sys')]),
             (TA + '/testdata/sysfs.tar.bz2', 'j', [('desktop', 'sysfs/desktop/sys'), ('server', 'sysfs/server/sys'),
                                                   ('4-socket-server-nosnc', 'sysfs/4-socket-server-nosnc/sys')])]
    for rel, flag, members in specs:
        src = os.path.join(vlib.REPO, rel)
        if not os.path.exists(src):
            continue
        h = hashlib.sha1(open(src, 'rb').read()).hexdigest()[:12]
        d = os.path.join(FIXDIR, h)
        if not os.path.exists(os.path.join(d, '.done')):
            shutil.rmtree(d, ignore_errors=True)
            os.makedirs(d)
            rc, out, _ = sh(['tar', '-C', d, '-x' + flag + 'f', src], timeout=300)
            if rc != 0:
                log('fixture extraction failed: ' + out[-500:])
                continue
            open(os.path.join(d, '.done'), 'w').write('ok')
        for name, sub in members:
            if os.path.isdir(os.path.join(d, sub)):
                res.append((name, os.path.join(d, sub)))
    return res


# ---------------------------------------------------------------- small helpers

def parse_cpuset(s):
    """k8s-style cpuset.Parse; None when malformed."""
    s = s.strip()
    if s == '':
        return []
    out = set()
    for part in s.split(','):
        m = re.fullmatch(r'(\d+)(?:-(\d+))?', part.strip())
        if not m:
            return None
        a = int(m.group(1))
        b = int(m.group(2)) if m.group(2) is not None else a
        if b < a:
            return None
        out.update(range(a, b + 1))
    return sorted(out)


def parse_milli(s):
    m = re.fullmatch(r'(-?\d+)(m?)', s)
    if not m:
        return None
    return int(m.group(1)) * (1 if m.group(2) else 1000)


def cfg_term(c):
    av, rs = c['avail'], c['reserved']
    if av is None:
        a = 'AvAbsent'
    elif av.startswith('cpuset:'):
        l = parse_cpuset(av[7:])
        a = 'AvBad' if l is None else '(AvSet %s)' % G.zl(l)
    else:
        a = 'AvQuantity'
    if rs is None:
        r = 'RsAbsent'
    elif rs.startswith('cpuset:'):
        l = parse_cpuset(rs[7:])
        r = 'RsBad' if l is None else '(RsSet %s)' % G.zl(l)
    else:
        q = parse_milli(rs)
        r = 'RsBad' if q is None else '(RsMilli %s)' % G.zv(q)
    return 'mkCfg %s %s' % (a, r)


KIND = {'virtual node': 'KVirtual', 'socket': 'KSocket', 'die': 'KDie', 'numa node': 'KNuma'}


def pool_key(p):
    return '(%s, %s, %s)' % (KIND[p['kind']], G.zv(p['physpkg']), G.zv(p['physid']))


def pool_term(p, byname):
    par = 'None' if p['parent'] == '' else 'Some %s' % pool_key(byname[p['parent']])
    return 'mkPool %s (%s) %d %s %s %s %s %s %s %s' % (pool_key(p), par, p['depth'], G.zl(p['hwcpus']), G.zl(p['isolated']), G.zl(p['reserved']),
                                                    G.zl(p['sharable']), G.zl(p['dram']), G.zl(p['pmem']), G.zl(p['hbm']))


def view_for_coq(d):
    dd = json.loads(json.dumps(d))
    for n in dd['nodes']:
        if n['memerr']:
            n['memtotal'], n['memfree'] = 0, 1      # encodes "MemoryInfo() failed" (free > total)
    return G.coq_view(dd)


# ---------------------------------------------------------------- oracle (a): discovery vs ground truth

def py_machine_wf(m):
    """Does the ground truth promise a successful discovery?"""
    for n in m['nodes']:
        if not n['cpus'] and not n['has_memory']:
            return False
        if n['memfree'] > n['memtotal']:
            return False
    dram = [n for n in m['nodes'] if n['cpus']]
    special = [n for n in m['nodes'] if not n['cpus'] and n['has_memory']]
    if special:
        if not dram:
            return False
        cnt = len(dram) - len([n for n in m['nodes'] if not n['has_memory']])
        if cnt <= 0:
            return False
        if sum(n['memtotal'] * 1024 for n in dram) // cnt == 0:
            return False
    return True


def expected_memtype(m, n):
    if n['cpus']:
        return 0
    dram = [x for x in m['nodes'] if x['cpus']]
    cnt = len(dram) - len([x for x in m['nodes'] if not x['has_memory']])
    avg = sum(x['memtotal'] * 1024 for x in dram) // cnt
    return 2 if n['memtotal'] * 1024 < avg else 1


def oracle_sysfs_truth(chk, m, rec):
    name = m['name']
    def bad(sig, what):
        chk.violation(sig, '%s: %s' % (name, what), {'machine': {k: v for k, v in m.items() if not k.startswith('_')}})
    wf = py_machine_wf(m)
    if rec['panic']:
        return bad('discovery-panics', 'DiscoverSystemAt panics: ' + rec.get('msg', ''))
    if rec['err']:
        if wf:
            bad('discovery-fails', 'DiscoverSystemAt fails on a well-formed machine: ' + rec.get('msg', ''))
        return
    if not wf:
        return   # discovery succeeded on a machine the ground truth calls ill-formed: nothing promised
    d = rec['sys']
    cpus = {c['id']: c for c in m['cpus']}
    if d['cpuids'] != sorted(cpus):
        bad('cpuids', 'CPUIDs %s != %s' % (d['cpuids'], sorted(cpus)))
    online = sorted(i for i, c in cpus.items() if c['online'])
    if d['online'] != online or d['offlined'] != sorted(set(cpus) - set(online)) or d['isolated'] != sorted(i for i, c in cpus.items() if c['isolated']):
        bad('online-offline-isolated', 'online/offlined/isolated sets differ: %s %s %s' % (d['online'], d['offlined'], d['isolated']))
    for o in d['cpus']:
        c = cpus.get(o['id'])
        if c is None:
            continue
        if o['online'] != c['online'] or o['isolated'] != c['isolated'] or o['node'] != c['node']:
            bad('cpu-flags', 'cpu %d online/isolated/node differ' % o['id'])
        if c['online']:
            exp = (c['pkg'], c['die'], c['cluster'], c['core'], sorted(c['threads']))
            got = (o['pkg'], o['die'], o['cluster'], o['core'], o['threads'])
            if exp != got:
                bad('cpu-topology', 'cpu %d (pkg,die,cluster,core,threads) %s != %s' % (o['id'], got, exp))
            ec = [(ca['level'], G.CACHE_KIND[ca['type']], ca['id'], G.size_k(ca['size']), sorted(ca['cpus'])) for ca in c['caches']]
            gc = [(ca['level'], ca['kind'], ca['id'], ca['size'], ca['cpus']) for ca in o['caches']]
            if ec != gc:
                bad('cpu-caches', 'cpu %d caches %s != %s' % (o['id'], gc, ec))
        else:
            if (o['pkg'], o['die'], o['cluster'], o['core'], o['threads'], o['caches']) != (0, 0, 0, 0, [], []):
                bad('offline-cpu-not-default', 'offline cpu %d has topology data %s' % (o['id'], (o['pkg'], o['die'], o['core'], o['threads'])))
    nodes = {n['id']: n for n in m['nodes']}
    if d['nodeids'] != sorted(nodes):
        bad('nodeids', 'NodeIDs %s != %s' % (d['nodeids'], sorted(nodes)))
    for o in d['nodes']:
        n = nodes.get(o['id'])
        if n is None:
            continue
        on_node = [c for c in m['cpus'] if c['online'] and c['node'] == n['id']]
        exp = (sorted(n['cpus']), n['distance'], False, n['memtotal'] * 1024, n['memfree'] * 1024, (n['memtotal'] - n['memfree']) * 1024, n['normal'])
        got = (o['cpus'], o['distance'], o['memerr'], o['memtotal'], o['memfree'], o['memused'], o['normal'])
        if exp != got:
            bad('node-attrs', 'node %d (cpus,distance,meminfo,normal) %s != %s' % (o['id'], got, exp))
        if o['memtype'] != expected_memtype(m, n):
            bad('node-memtype', 'node %d memory type %d, expected %d' % (o['id'], o['memtype'], expected_memtype(m, n)))
        if on_node and (o['pkg'], o['die']) != (on_node[0]['pkg'], on_node[0]['die']):
            bad('node-pkg-die', 'node %d package/die %s, its CPUs say %s' % (o['id'], (o['pkg'], o['die']), (on_node[0]['pkg'], on_node[0]['die'])))
    pk = {}
    for c in m['cpus']:
        if c['online']:
            pk.setdefault(c['pkg'], []).append(c)
    if d['pkgids'] != sorted(pk):
        bad('pkgids', 'PackageIDs %s != %s' % (d['pkgids'], sorted(pk)))
    for o in d['pkgs']:
        cs = pk.get(o['id'], [])
        exp = (sorted(c['id'] for c in cs), sorted({c['die'] for c in cs}), sorted({c['node'] for c in cs}))
        if exp != (o['cpus'], o['dieids'], o['nodes']):
            bad('pkg-attrs', 'package %d (cpus,dies,nodes) %s != %s' % (o['id'], (o['cpus'], o['dieids'], o['nodes']), exp))
        for dd in o['dies']:
            ds = [c for c in cs if c['die'] == dd['id']]
            if (sorted(c['id'] for c in ds), sorted({c['node'] for c in ds})) != (dd['cpus'], dd['nodes']):
                bad('die-attrs', 'package %d die %d cpus/nodes differ' % (o['id'], dd['id']))


def oracle_sysfs_self(chk, rec):
    """Accessor self-consistency (also for the recorded fixture trees, which have no ground truth)."""
    name = rec['name']
    if rec['err'] or rec['panic']:
        if rec['kind'] == 'fixture':
            chk.violation('fixture-discovery-fails', '%s: discovery of a recorded sysfs tree fails: %s' % (name, rec.get('msg', '')), {'fixture': name})
        return
    d = rec['sys']
    def bad(sig, what):
        chk.violation(sig, '%s: %s' % (name, what), {'tree': name})
    cpus = {c['id']: c for c in d['cpus']}
    nodes = {n['id']: n for n in d['nodes']}
    pkgs = {p['id']: p for p in d['pkgs']}
    if d['cpuids'] != sorted(set(d['cpuids'])) or sorted(cpus) != d['cpuids'] or d['cpuset'] != d['cpuids']:
        bad('self:cpuids', 'CPUIDs not sorted/unique or CPU()/CPUSet() disagree')
    if sorted(set(d['online']) | set(d['offlined'])) != d['present'] or set(d['online']) & set(d['offlined']):
        bad('self:online-offlined', 'online + offlined != present')
    if d['sockets'] != len(d['pkgids']) or sorted(pkgs) != d['pkgids']:
        bad('self:packages', 'SocketCount/PackageIDs/Package() disagree')
    getcaches_empty = 0
    for c in d['cpus']:
        if c['online'] != (c['id'] in d['online']) or c['isolated'] != (c['id'] in d['isolated']):
            bad('self:cpu-flags', 'cpu %d Online()/Isolated() disagree with the sets' % c['id'])
        if c['getcaches'] != len(c['caches']):
            if c['getcaches'] == 0:
                getcaches_empty += 1
            else:
                bad('self:getcaches', 'cpu %d len(GetCaches()) = %d, CacheCount() = %d' % (c['id'], c['getcaches'], len(c['caches'])))
        if not c['online']:
            continue
        p = pkgs.get(c['pkg'])
        if p is None or c['id'] not in p['cpus']:
            bad('self:cpu-in-package', 'online cpu %d not in Package(%d).CPUSet()' % (c['id'], c['pkg']))
        else:
            dd = [x for x in p['dies'] if x['id'] == c['die']]
            if not dd or c['id'] not in dd[0]['cpus'] or c['node'] not in dd[0]['nodes'] or c['node'] not in p['nodes']:
                bad('self:cpu-in-die', 'online cpu %d not in its die / node not listed in die+package' % c['id'])
        n = nodes.get(c['node'])
        if n is None or c['id'] not in n['cpus']:
            bad('self:cpu-in-node', 'online cpu %d not in Node(%d).CPUSet()' % (c['id'], c['node']))
        if c['id'] not in c['threads']:
            bad('self:threads', 'cpu %d not in its own ThreadCPUSet' % c['id'])
        for t in c['threads']:
            o = cpus.get(t)
            if o is None or (o['pkg'], o['die'], o['core'], o['node'], o['threads']) != (c['pkg'], c['die'], c['core'], c['node'], c['threads']):
                bad('self:threads', 'thread siblings %d/%d disagree on package/die/core/node/threads' % (c['id'], t))
        lv = [ca['level'] for ca in c['caches']]
        if lv != sorted(lv):
            bad('self:cache-order', 'cpu %d caches not ordered by level' % c['id'])
        for ca in c['caches']:
            if c['id'] not in ca['cpus']:
                bad('self:cache-shared', 'cpu %d not in the shared set of its own L%d cache' % (c['id'], ca['level']))
            for t in ca['cpus']:
                o = cpus.get(t)
                if o is None or not any((x['level'], x['kind'], x['id'], x['cpus'], x['size']) == (ca['level'], ca['kind'], ca['id'], ca['cpus'], ca['size']) for x in o['caches']):
                    bad('self:cache-shared', 'cache L%d id %d of cpu %d is not seen identically by cpu %d' % (ca['level'], ca['id'], c['id'], t))
    if getcaches_empty:
        chk.violation(SIG_F13, '%s: GetCaches() returns an empty slice for %d CPUs whose CacheCount() > 0' % (name, getcaches_empty), {'tree': name})
    for p in d['pkgs']:
        if p['cpus'] != sorted(c['id'] for c in d['cpus'] if c['online'] and c['pkg'] == p['id']):
            bad('self:package-cpus', 'Package(%d).CPUSet() != online CPUs with that PackageID' % p['id'])
        if p['dieids'] != [x['id'] for x in p['dies']] or sorted(i for x in p['dies'] for i in x['cpus']) != p['cpus']:
            bad('self:dies', 'package %d dies do not partition its CPUs' % p['id'])
    seen = []
    for n in d['nodes']:
        seen += n['cpus']
        if len(n['distance']) != len(d['nodes']):
            bad('self:distance-len', 'node %d distance vector has %d entries for %d nodes' % (n['id'], len(n['distance']), len(d['nodes'])))
        if not n['memerr'] and n['memused'] != n['memtotal'] - n['memfree']:
            bad('self:meminfo', 'node %d MemUsed != MemTotal - MemFree' % n['id'])
        if n['cpus']:
            own = {(cpus[c]['pkg'], cpus[c]['die']) for c in n['cpus'] if c in cpus}
            if own != {(n['pkg'], n['die'])}:
                bad('self:node-pkg-die', 'node %d PackageID/DieID %s, its CPUs say %s' % (n['id'], (n['pkg'], n['die']), sorted(own)))
            if n['memtype'] != 0:
                bad('self:memtype', 'CPU-bearing node %d typed %d' % (n['id'], n['memtype']))
    if sorted(seen) != d['online']:
        bad('self:nodes-partition', 'node CPU sets do not partition the online CPUs')


# ---------------------------------------------------------------- oracle (b): pool tree clauses

def closest_cpu_dram(d, s):
    cand = [n for n in d['nodes'] if n['id'] != s['id'] and n['memtype'] == 0 and n['cpus'] and n['id'] < len(s['distance'])]
    if not cand:
        return []
    md = min(s['distance'][n['id']] for n in cand)
    return [n for n in cand if s['distance'][n['id']] == md]


def expected_outcome(d, cfg):
    """-> 'ok' | 'reject' | 'either' predicted from the configuration rules, independent of the model."""
    nodes = d['nodes']
    for a in nodes:
        for b in nodes:
            da = a['distance'][b['id']] if b['id'] < len(a['distance']) else -1
            db = b['distance'][a['id']] if a['id'] < len(b['distance']) else -1
            if da != db:
                topo_bad = True
                break
        else:
            continue
        break
    else:
        topo_bad = False
    av, rs = cfg['avail'], cfg['reserved']
    if av is None:
        allowed = sorted(set(d['cpuids']) - set(d['offlined']))
    elif av.startswith('cpuset:'):
        allowed = parse_cpuset(av[7:])
        if allowed is None:
            return 'reject'
    else:
        return 'reject'
    iso = set(d['isolated']) & set(allowed)
    if rs is None:
        return 'reject'
    if rs.startswith('cpuset:'):
        r = parse_cpuset(rs[7:])
        if r is None or not r or set(r) - set(allowed):
            return 'reject'
        ri = set(r) & iso
        if ri and (ri != set(r) or len(ri) > 1):
            return 'reject'
        return 'reject' if topo_bad else 'ok'
    q = parse_milli(rs)
    if q is None:
        return 'reject'
    cnt = int((q + 999) / 1000) if q + 999 >= 0 else -int((-(q + 999)) / 1000)
    frm = set(allowed) - iso
    if cnt <= 0 or cnt > len(frm):
        return 'reject'
    if not frm <= set(d['online']):
        return 'either'      # the allocator may or may not manage with CPUs it does not know
    return 'reject' if topo_bad else 'ok'


def oracle_pools(chk, name, d, res, stats, machine=None):
    cfg = res['cfg']
    rp = {'tree': name, 'cfg': cfg}
    if machine is not None:
        rp['machine'] = {k: v for k, v in machine.items() if not k.startswith('_')}
    def bad(sig, what):
        chk.violation(sig, '%s %s: %s' % (name, json.dumps(cfg), what), rp)
    exp = expected_outcome(d, cfg)
    if res['outcome'] == 'panic':
        return bad('setup-panics', 'policy.Setup panics: ' + res.get('msg', ''))
    if res['outcome'] == 'reject':
        if res['stage'] == 'other':
            bad('setup-fails-elsewhere', 'Setup fails outside checkConstraints/checkHWTopology: ' + res.get('msg', ''))
        elif exp == 'ok':
            bad('setup-rejects-valid-config', 'a valid configuration is rejected: ' + res.get('msg', ''))
        return
    if exp == 'reject':
        bad('setup-accepts-invalid-config', 'an invalid configuration is accepted')
        return
    stats['accepted'] += 1
    pools = res['pools']
    by = {p['name']: p for p in pools}
    allowed, reserved, isolated = set(res['allowed']), set(res['preserved']), set(res['pisolated'])
    cpus_of = lambda p: set(p['isolated']) | set(p['reserved']) | set(p['sharable'])
    mems_of = lambda p: set(p['dram']) | set(p['pmem']) | set(p['hbm'])
    nodes = {n['id']: n for n in d['nodes']}
    has_mem = lambda n: n['memerr'] or n['memtotal'] > 0
    # --- accepted reservation
    if not reserved or not reserved <= allowed:
        bad('reserved-not-in-allowed', 'reserved %s not a non-empty subset of allowed' % sorted(reserved))
    if isolated != set(d['isolated']) & allowed:
        bad('isolated-set', 'policy isolated set %s != sys.Isolated() & allowed' % sorted(isolated))
    excluded = bool(reserved & isolated)          # a reserved cpuset that is itself kernel-isolated: outside the property
    if cfg['reserved'] and not cfg['reserved'].startswith('cpuset:'):
        q = parse_milli(cfg['reserved'])
        if len(reserved) != (q + 999) // 1000 or excluded:
            bad('reserved-by-quantity', 'reserved %s for quantity %s (must be %d non-isolated CPUs)' % (sorted(reserved), cfg['reserved'], (q + 999) // 1000))
    if excluded:
        stats['excluded_isolated_reserved'] += 1
    # --- single tree
    roots = [p for p in pools if p['parent'] == '']
    if len(roots) != 1 or roots[0]['name'] != res['root'] or len(by) != len(pools) or res['nodes_by_name'] != len(pools):
        bad('not-a-single-tree', 'roots %s, %d pools, %d names' % ([p['name'] for p in roots], len(pools), len(by)))
        return
    root = roots[0]
    for p in pools:
        if p['parent']:
            q = by.get(p['parent'])
            if q is None or q['depth'] + 1 != p['depth'] or p['name'] not in q['children']:
                bad('broken-parent-link', 'pool %s: parent %s missing / depth / child list inconsistent' % (p['name'], p['parent']))
                return
        elif p['depth'] != 0:
            bad('broken-parent-link', 'root depth %d' % p['depth'])
        for c in p['children']:
            if c not in by or by[c]['parent'] != p['name']:
                bad('broken-parent-link', 'pool %s lists child %s whose parent differs' % (p['name'], c))
    # --- shape: levels present iff needed
    if (root['kind'] == 'virtual node') != (d['sockets'] > 1):
        bad('shape:virtual-root', 'virtual root present=%s with %d sockets' % (root['kind'] == 'virtual node', d['sockets']))
    exp_pools = set()
    if d['sockets'] > 1:
        exp_pools.add(('virtual node', -1, -1))
    for pk in d['pkgs']:
        exp_pools.add(('socket', -1, pk['id']))
        if len(pk['dieids']) > 1:
            for dd in pk['dies']:
                exp_pools.add(('die', pk['id'], dd['id']))
                if len(dd['nodes']) > 1:
                    for nid in dd['nodes']:
                        if has_mem(nodes[nid]):
                            exp_pools.add(('numa node', -1, nid))
        elif len(pk['nodes']) > 1:
            for nid in pk['nodes']:
                if has_mem(nodes[nid]):
                    exp_pools.add(('numa node', -1, nid))
    got_pools = {(p['kind'], p['physpkg'], p['physid']) for p in pools}
    if got_pools != exp_pools:
        bad('shape:levels', 'pools %s, expected %s' % (sorted(got_pools - exp_pools), sorted(exp_pools - got_pools)))
    # --- CPUs
    for p in pools:
        cp = cpus_of(p)
        i, r, s = set(p['isolated']), set(p['reserved']), set(p['sharable'])
        if (i & s) or (r & s) or ((i & r) and not excluded):
            bad('supply-not-disjoint', 'pool %s isolated/reserved/sharable overlap' % p['name'])
        if cp != set(p['hwcpus']) & allowed:
            bad('supply-union', 'pool %s supply %s != pool CPUs & allowed %s' % (p['name'], sorted(cp), sorted(set(p['hwcpus']) & allowed)))
        if i != set(p['hwcpus']) & isolated or r != set(p['hwcpus']) & allowed & reserved:
            bad('supply-classes', 'pool %s isolated/reserved are not the pool\'s share of the policy sets' % p['name'])
        if (p['free_isolated'], p['free_reserved'], p['free_sharable']) != (p['isolated'], p['reserved'], p['sharable']):
            bad('supply-free', 'pool %s free supply differs from the total right after Setup' % p['name'])
        if p['parent']:
            if not cp <= cpus_of(by[p['parent']]):
                bad('child-cpus-not-subset', 'pool %s CPUs not inside parent %s' % (p['name'], p['parent']))
        ch = [by[c] for c in p['children']]
        for a in range(len(ch)):
            for b in range(a + 1, len(ch)):
                if cpus_of(ch[a]) & cpus_of(ch[b]):
                    bad('siblings-overlap', 'pools %s and %s share CPUs' % (ch[a]['name'], ch[b]['name']))
    if not (allowed & set(d['online'])) <= cpus_of(root):
        bad('root-misses-available', 'available CPUs %s not in the root' % sorted((allowed & set(d['online'])) - cpus_of(root)))
    # --- memory
    if mems_of(root) != {n['id'] for n in d['nodes'] if has_mem(n)}:
        bad('root-memory', 'root memory set %s != nodes with memory' % sorted(mems_of(root)))
    for p in pools:
        for k, t in (('dram', 0), ('pmem', 1), ('hbm', 2)):
            if any(nodes[i]['memtype'] != t for i in p[k]):
                bad('memset-type', 'pool %s %s set holds a node of another type' % (p['name'], k))
        if p['parent']:
            extra = mems_of(p) - mems_of(by[p['parent']])
            if extra:
                narrow = all(nodes[i]['cpus'] and not nodes[i]['memerr'] and nodes[i]['memtotal'] == 0 for i in extra)
                chk.violation(SIG_F11 if narrow else 'child-mems-not-subset',
                              '%s %s: pool %s memory nodes %s not in parent %s (%s)' % (name, json.dumps(cfg), p['name'], sorted(extra), p['parent'], sorted(mems_of(by[p['parent']]))), rp)
                stats['f11_hits'] += 1
    for s in d['nodes']:
        if s['memtype'] in (1, 2) and has_mem(s) and not s['cpus']:
            close = closest_cpu_dram(d, s)
            stats['special_nodes'] += 1
            for p in pools:
                want = p is root or any(set(c['cpus']) & set(p['hwcpus']) for c in close)
                if (s['id'] in mems_of(p)) != want:
                    bad('special-mem-attach', 'CPU-less node %d (closest CPU-bearing DRAM %s) %s pool %s' % (
                        s['id'], [c['id'] for c in close], 'missing from' if want else 'wrongly attached to', p['name']))
    # --- GetTopologyZones agrees with the pools
    zs = {z['name']: z for z in res['zones']}
    if set(zs) != set(by):
        bad('zones', 'GetTopologyZones names differ from the pools')
    for z in res['zones']:
        p = by.get(z['name'])
        if p is None:
            continue
        a = z['attrs']
        if z['parent'] != p['parent'] or z['type'] != p['kind'] or parse_cpuset(a.get('memory set', '')) != sorted(mems_of(p)) \
           or parse_cpuset(a.get('shared cpuset', '')) != p['sharable'] or parse_cpuset(a.get('reserved cpuset', '')) != p['reserved'] \
           or parse_cpuset(a.get('isolated cpuset', '')) != p['isolated']:
            bad('zones', 'zone %s attributes differ from the pool' % z['name'])


# ---------------------------------------------------------------- the check

HDR = ('From Coq Require Import ZArith List Bool String.\nFrom NV Require Import C16_Model.\nImport ListNotations.\n'
       'Open Scope Z_scope.\nOpen Scope list_scope.\n')


def run(tier, seed, replay=None):
    chk = Check('C16', tier, seed)
    rng = chk.rng
    chk.assumptions += [
        'discovery model = assembly logic over typed file contents (sysfs_struct); the string layer is modelled for cpulist / integer-vector files only and tied by evaluating the codecs on the raw file contents of every tree',
        'sysfs trees of the generated machines are written by harness/common/sysfsgen.go (the kernel\'s sysfs layout is mimicked, not verified); the machine JSON is the ground truth',
        'scoring, allocation and the CPU allocator are not modelled: a reservation given as a quantity enters the pool model as a choice whose contract (subset of allowed minus isolated, requested size) is checked on every run and is C08\'s theorem',
        'Go runtime / library (filepath.Glob, strconv, maps, sort) trusted; cpufreq/EPP/SST/core-kind/cluster data is discovered but not part of the model',
    ]
    chk.prove('C16_Props')
    W = chk.work

    # ---------------- inputs
    nrand, ncfg = (9, 4) if tier == 'quick' else (340, 7)
    machines = G.fixed_machines()
    for i in range(nrand):
        machines.append(G.gen_machine(rng, 'r%d' % i, max_cpus=40 if tier == 'quick' else 64))
    rp = {}
    if replay:
        rp = json.load(open(replay)).get('replay', {})
        if 'machine' in rp:
            mm = rp['machine']
            mm['name'] = 'replay'
            machines.insert(0, mm)
    fx = fixtures()
    cases = []
    with open(os.path.join(W, 'machines.txt'), 'w') as g:
        for m in machines:
            p = os.path.join(W, 'm_%s.json' % m['name'])
            G.dump(m, p)
            g.write(p + '\n')
            cfgs = [dict(avail=a, reserved=r) for a, r in G.gen_cfgs(rng, m, ncfg)]
            if replay and m['name'] == 'replay' and 'cfg' in rp:
                cfgs.insert(0, rp['cfg'])
            cases.append(dict(name=m['name'], machine=p, fixture='', cfgs=cfgs))
    with open(os.path.join(W, 'fixtures.txt'), 'w') as g:
        for name, d in fx:
            g.write('%s %s\n' % (name, d))
            cases.append(dict(name='fixture:' + name, machine='', fixture=d,
                              cfgs=[dict(avail=None, reserved='750m'), dict(avail=None, reserved='cpuset:0'), dict(avail=None, reserved='2'),
                                    dict(avail='cpuset:0-7', reserved='cpuset:1'), dict(avail='cpuset:2-15', reserved='3'),
                                    dict(avail=None, reserved=None)]))
    with open(os.path.join(W, 'pool_cases.jsonl'), 'w') as f:
        for c in cases:
            f.write(json.dumps(c) + '\n')

    # ---------------- run the real implementation (both harnesses in parallel)
    with ThreadPoolExecutor(max_workers=2) as ex:
        f1 = ex.submit(go_test, './pkg/sysfs/', OV_SYSFS, '^TestVerifC16Sysfs$', {'VERIF_OUT': W}, 420)
        f2 = ex.submit(go_test, './' + TA + '/', OV_POOLS, '^TestVerifC16Pools$', {'VERIF_OUT': W}, 900)
        (rc1, out1, dt1), (rc2, out2, dt2) = f1.result(), f2.result()
    log('harness: sysfs %.1fs, pools %.1fs' % (dt1, dt2))
    if rc1 != 0 or not os.path.exists(os.path.join(W, 'sysfs.jsonl')):
        chk.corr_broken('harness-sysfs', 'go test failed:\n' + out1[-3000:])
    if rc2 != 0 or not os.path.exists(os.path.join(W, 'pools.jsonl')):
        chk.corr_broken('harness-pools', 'go test failed:\n' + out2[-3000:])
    if chk.broken and any(k == 'correspondence' for k, _, _ in chk.broken):
        return chk.finish(rule='harness failed')
    srecs = [json.loads(l) for l in open(os.path.join(W, 'sysfs.jsonl'))]
    precs = [json.loads(l) for l in open(os.path.join(W, 'pools.jsonl'))]
    bym = {m['name']: m for m in machines}

    # ---------------- oracle
    stats = dict(accepted=0, excluded_isolated_reserved=0, f11_hits=0, special_nodes=0)
    for r in srecs:
        if r['kind'] == 'gen':
            oracle_sysfs_truth(chk, bym[r['name']], r)
        oracle_sysfs_self(chk, r)
    nsetups, nrej = 0, 0
    shapes = set()
    for r in precs:
        if r['err']:
            continue
        for res in r['results']:
            nsetups += 1
            nrej += res['outcome'] == 'reject'
            oracle_pools(chk, r['name'], r['sys'], res, stats, bym.get(r['name']))
            if res['outcome'] == 'ok':
                shapes.add((r['name'], tuple(sorted((p['kind'], p['depth']) for p in res['pools'])), tuple(res['allowed']), tuple(res['preserved'])))

    # ---------------- correspondence: the model evaluated by the kernel on the same inputs
    files = []          # (label, path, kind)
    SH = 3 if tier == 'quick' else 6
    gen = [r for r in srecs if r['kind'] == 'gen']
    for k in range(0, len(gen), SH):
        p = os.path.join(W, 'cases_sysfs_%03d.v' % (k // SH))
        with open(p, 'w') as f:
            f.write(HDR)
            items = []
            for j, r in enumerate(gen[k:k + SH]):
                i = k + j
                f.write('Definition m%d := %s.\n' % (i, G.coq_machine(bym[r['name']])))
                if r['err'] or r['panic']:
                    items.append('(%d, m%d, None)' % (i, i))
                else:
                    f.write('Definition o%d := %s.\n' % (i, view_for_coq(r['sys'])))
                    items.append('(%d, m%d, Some o%d)' % (i, i, i))
            f.write('Definition M := Eval vm_compute in sysfs_mismatches [%s].\nPrint M.\n' % '; '.join(items))
        files.append(('discovery model, machines %d..' % k, p, 'sysfs'))
    # codec layer: raw file contents vs parsed sets
    ncodec = 0
    codec_items_c, codec_items_v = [], []
    for r in srecs:
        if not r.get('sys'):
            continue
        d = r['sys']
        cpu = {c['id']: c for c in d['cpus']}
        node = {n['id']: n for n in d['nodes']}
        for raw in r.get('raw', []):
            k, key, idx, s = raw['kind'], raw['key'], raw['idx'], raw['raw']
            val = None
            if k in ('cpu/online',):
                val = d['online']
            elif k == 'cpu/isolated':
                val = d['isolated']
            elif k == 'cpu/possible':
                val = d['possible']
            elif k == 'cpu/present':
                val = d['present']
            elif k == 'core_cpus_list' and cpu[key]['online']:
                val = cpu[key]['threads']
            elif k == 'shared_cpu_list' and idx < len(cpu[key]['caches']):
                val = None if r['kind'] == 'fixture' and idx > 0 and False else cpu[key]['caches'][idx]['cpus']
            elif k == 'cpulist':
                val = node[key]['cpus']
            elif k == 'distance':
                codec_items_v.append((s, node[key]['distance']))
                continue
            if val is not None:
                codec_items_c.append((s, val))
    # de-duplicate (thousands of identical strings on the big fixtures)
    codec_items_c = sorted(set((s, tuple(v)) for s, v in codec_items_c))
    codec_items_v = sorted(set((s, tuple(v)) for s, v in codec_items_v))
    ncodec = len(codec_items_c) + len(codec_items_v)
    CS = 400
    for k in range(0, max(len(codec_items_c), len(codec_items_v)), CS):
        p = os.path.join(W, 'cases_codec_%03d.v' % (k // CS))
        with open(p, 'w') as f:
            f.write(HDR)
            f.write('Definition M := Eval vm_compute in codec_mismatches\n [%s]\n [%s].\nPrint M.\n' % (
                ';\n  '.join('(%s%%string, %s)' % (coq_str(s), G.zl(v)) for s, v in codec_items_c[k:k + CS]),
                ';\n  '.join('(%s%%string, %s)' % (coq_str(s), G.zl(v)) for s, v in codec_items_v[k:k + CS])))
        files.append(('string codecs %d..' % k, p, 'codec'))
    # pools
    npoolcases = 0
    for k, r in enumerate(precs):
        if r['err'] or not r['results']:
            continue
        p = os.path.join(W, 'cases_pools_%03d.v' % k)
        with open(p, 'w') as f:
            f.write(HDR)
            f.write('Definition v := %s.\n' % view_for_coq(r['sys']))
            items = []
            for i, res in enumerate(r['results']):
                if res['outcome'] == 'panic' or (res['outcome'] == 'reject' and res['stage'] == 'other'):
                    continue      # the oracle already reported it
                if res['outcome'] == 'ok':
                    by = {q['name']: q for q in res['pools']}
                    obs = '(ObsOk (mkCpusets %s %s %s) [%s])' % (G.zl(res['allowed']), G.zl(res['pisolated']), G.zl(res['preserved']),
                                                               ';\n    '.join(pool_term(q, by) for q in res['pools']))
                    choice = '(Some %s)' % G.zl(res['preserved'])
                else:
                    obs = '(ObsRej %s)' % ('RejTopology' if res['stage'] == 'topology' else 'RejConstraints')
                    choice = 'None'
                    # a topology rejection happens after a successful reservation: give the model one
                    if res['stage'] == 'topology' and res['cfg']['reserved'] and not res['cfg']['reserved'].startswith('cpuset:'):
                        choice = '(Some [0])'
                items.append('(%d, v, %s, %s,\n   %s)' % (i, cfg_term(res['cfg']), choice, obs))
                npoolcases += 1
            f.write('Definition cases := [%s].\n' % ';\n  '.join(items))
            # mem_filter = true: the code after fix 1a43202 (F11)
            f.write('Definition M := Eval vm_compute in pools_mismatches true cases.\nPrint M.\n')
            f.write('Definition G := Eval vm_compute in pools_guard_failures cases.\nPrint G.\n')
        files.append(('pool model, %s' % r['name'], p, 'pools'))
    results = coq_eval_many([p for _, p, _ in files])
    nonhier, allocbad = 0, []
    for (name, p, kind), (rc, out) in zip(files, results):
        body = parse_coq_print(out, 'M')
        if rc != 0 or body is None:
            chk.corr_broken(name, 'coqc failed on %s:\n%s' % (p, out[-1500:]))
            continue
        if kind in ('sysfs', 'codec'):
            if body != '[]':
                chk.corr_broken(name, 'model and implementation differ: %s (%s)' % (body[:600], p))
            continue
        g = parse_coq_print(out, 'G')
        if body != '[]':
            chk.corr_broken(name, 'pool model and implementation differ: %s (%s)' % (body[:600], p))
        if g != '[]':
            if re.search(r'\[[^\]]*\b2\b[^\]]*\]\)', g):
                allocbad.append((name, g, p))
            nonhier += 1
    for name, g, p in allocbad[:3]:
        chk.corr_broken(name, 'CPU allocator contract broken for a reservation by quantity: %s (%s)' % (g[:300], p))
    chk.cov['views_outside_hier_domain'] = nonhier

    # ---------------- evidence
    ok_gen = [r for r in gen if r.get('sys')]
    def feats(m):
        return (len({c['pkg'] for c in m['cpus']}), len({(c['pkg'], c['die']) for c in m['cpus']}), len(m['nodes']), len(m['cpus']),
                sum(1 for c in m['cpus'] if not c['online']), sum(1 for c in m['cpus'] if c['isolated']),
                sum(1 for n in m['nodes'] if n['cpus'] and not n['has_memory']), sum(1 for n in m['nodes'] if not n['cpus']))
    distinct_m = {feats(m) for m in machines if len(m['nodes']) > 1 or len({c['pkg'] for c in m['cpus']}) > 1}
    chk.samples += [{'machine': machines[0]['name'], 'features(pkgs,dies,nodes,cpus,offline,isolated,memless,cpuless)': feats(machines[0]),
                     'cfgs': cases[0]['cfgs'][:3]},
                    {'pools_of': precs[0]['name'], 'cfg': precs[0]['results'][0]['cfg'] if precs[0]['results'] else None,
                     'pools': [(q['name'], q['parent'], q['dram']) for q in (precs[0]['results'][0]['pools'] if precs[0]['results'] else [])]}]
    return chk.finish(
        rule='machines: %d fixed shapes + %d random (packages x dies x SNC nodes, asymmetric core counts, permuted node / sparse package+die ids, offline '
             '(single CPUs, a whole node, a whole package), isolated, memory-less CPU nodes, CPU-less PMEM/HBM nodes, movable-only, hybrid, hierarchical/random/tied/asymmetric '
             'distance matrices) + %d recorded sysfs trees; per machine %d+ available/reserved settings (cpuset and quantity forms incl. rejected ones). '
             'distinct_nontrivial = distinct (machine, pool-tree shape, allowed, reserved) combinations among ACCEPTED setups on machines with more than one pool-relevant level, '
             'plus distinct multi-node machine feature vectors' % (len(G.fixed_machines()), nrand, len(fx), ncfg),
        evaluations=len(srecs) + nsetups + ncodec, distinct=len(shapes) + len(distinct_m), traces=len(files),
        extra_cov={'machines_generated': len(machines), 'fixture_trees': len(fx), 'discoveries': len(srecs), 'discovery_errors': sum(1 for r in srecs if r['err']),
                   'setups': nsetups, 'setups_rejected': nrej, 'setups_accepted': stats['accepted'], 'pool_model_cases': npoolcases,
                   'codec_strings': ncodec, 'special_nodes_checked': stats['special_nodes'], 'f11_hits': stats['f11_hits'],
                   'excluded_isolated_reserved': stats['excluded_isolated_reserved'], 'coq_case_files': len(files)})


WARM = [('./pkg/sysfs/', OV_SYSFS), ('./' + TA + '/', OV_POOLS)]
