"""C09: no leaks -- releasing everything restores the pristine state."""
from fscheck import *
from checks.c01 import oracle_pass


def gen(chk, tier, zoo, paths):
    rng = chk.rng
    n = 24 if tier == 'quick' else 300
    scripts = []
    for policy in ('topology-aware', 'balloons'):
        for i in range(n):
            m = rng.choice(zoo)
            s = fsgen.gen_history(rng, policy, m, paths[m['name']], nevents=rng.choice([20, 40, 60] if tier == 'quick' else [40, 80, 120]),
                                  profile=rng.choice(['mixed', 'fill', 'mem']), name='%s%04d' % (policy[:2], i),
                                  reconfig=rng.choice([0, 0.05, 0.1]), sync=rng.choice([0, 0.05]), restart=rng.choice([0, 0.04]), drain=False)
            # drain with configuration updates / resynchronisations arriving while stopped containers are still cached
            w = fsgen.World(rng, policy, m, 'mixed')
            evs = s['events']
            live = {}
            pods = {}
            for e in evs:
                if e['op'] == 'CreateContainer':
                    live[e['ctr']['id']] = 'live'
                elif e['op'] == 'StopContainer':
                    live[e['ctr']['id']] = 'stopped'
                elif e['op'] == 'RemoveContainer':
                    live.pop(e['ctr']['id'], None)
                elif e['op'] == 'RunPodSandbox':
                    pods[e['pod']['id']] = 1
                elif e['op'] == 'RemovePodSandbox':
                    pods.pop(e['pod']['id'], None)
                elif e['op'] == 'Synchronize':
                    listed = {c['id']: c for c in e['ctrs']}
                    live = {k: ('stopped' if listed[k]['state'] == 'stopped' else 'live') for k in live if k in listed}
                    for c in listed:
                        live.setdefault(c, 'stopped' if listed[c]['state'] == 'stopped' else 'live')
                    pods = {p['id']: 1 for p in e['pods']}
            cur_cfg = s['config']
            for e in evs:
                if e['op'] == 'Reconfigure' and e.get('tag') == 'new':
                    cur_cfg = e['config']
            for cid, st in list(live.items()):
                if st == 'live':
                    evs.append(dict(op='StopContainer', ctr=dict(id=cid)))
            k = rng.random()
            if k < 0.4:
                evs.append(dict(op='Reconfigure', config='__CURRENT__', tag='same'))
            elif k < 0.6:
                bad = rng.choice(fsgen.ta_bad_configs(m) if policy == 'topology-aware' else fsgen.bln_bad_configs(m))
                evs.append(dict(op='Reconfigure', config=bad[1], tag='bad:' + bad[0]))
            elif k < 0.8:
                evs.append(dict(op='Synchronize', pods=[dict(id=p) for p in pods], ctrs=[dict(id=c, state='stopped') for c in live], tag='stopped-listed'))
            for cid in list(live):
                evs.append(dict(op='RemoveContainer', ctr=dict(id=cid)))
            for p in list(pods):
                evs.append(dict(op='StopPodSandbox', pod=dict(id=p)))
                evs.append(dict(op='RemovePodSandbox', pod=dict(id=p)))
            evs[-1]['tag'] = 'quiescent'
            s['_machine'] = m
            scripts.append(s)
    return scripts


def run(tier, seed, replay=None):
    chk = Check('C09', tier, seed)
    chk.assumptions += [
        'policy-level theorems are corollaries of the TA_Model / Bln_Model invariants (C01-C03); the memory allocator part is C06 (release removes exactly that allocation)',
        'pristine is compared up to balloon instance renumbering and CPU identity (the code may keep other CPUs for the pre-created balloons)',
        'tie: full-stack histories ending in a drain phase with configuration updates / synchronisations injected between StopContainer and RemoveContainer; GetTopologyZones and snapshots at start vs at quiescence',
    ]
    chk.prove('C09_Props')
    zoo, paths = prepare_machines(chk)
    binary = build(chk)
    if not binary:
        return chk.finish(rule='harness build failed')
    scripts = gen(chk, tier, zoo, paths)
    scripts = maybe_replay(chk, replay, scripts, zoo, paths)
    traces = run_histories(chk, binary, [{k: v for k, v in s.items() if not k.startswith('_')} for s in scripts])
    ta = [s for s in scripts if s['policy'] == 'topology-aware']
    bl = [s for s in scripts if s['policy'] == 'balloons']
    nfind = oracle_pass(chk, ta, traces, ('C09',), pristine=True)
    nfind.update(bln_oracle_pass(chk, bl, traces, ('C09',), pristine=True))
    nq = sum(1 for r in traces.values() if r and r[-1].get('tag') == 'quiescent')
    st1, _ = ta_correspondence(chk, {s['name']: traces[s['name']] for s in ta if s['name'] in traces}, scripts=ta)
    st2, _ = bln_correspondence(chk, {s['name']: traces[s['name']] for s in bl if s['name'] in traces}, bl)
    nt = sum(1 for r in traces.values() if nontrivial_history(r))
    events = sum(len(r) for r in traces.values())
    chk.samples += [{'history': s['name'], 'policy': s['policy'], 'machine': s['_machine']['name'], 'last_events': [(e['op'], e.get('tag')) for e in s['events'][-8:]]} for s in (ta[:1] + bl[:1])]
    return chk.finish(
        rule='random histories under both policies (failed requests, updates, synchronisations, reconfigurations, restarts) followed by a drain: stop all, inject identical/rejected configuration or a synchronisation listing the stopped containers, remove all; '
             'non-trivial as for C01; every history ends quiescent',
        evaluations=events, distinct=nt, traces=st1['traces'] + st2['traces'],
        extra_cov={'histories': len(traces), 'quiescent_states_checked': nq, 'events': events,
                   'oracle_findings': {'%s/%s' % k: v for k, v in nfind.items()}})


WARM = []
