"""C14: no request or annotation can crash a plugin."""
from fscheck import *
import random
from fsoracle import F

SIDE = [('memory-qos', './cmd/plugins/memory-qos/', 'mq_test.go', '^TestVerifC14MemoryQos$'),
        ('memtierd', './cmd/plugins/memtierd/', 'mt_test.go', '^TestVerifC14Memtierd$'),
        ('sgx-epc', './cmd/plugins/sgx-epc/', 'sgx_test.go', '^TestVerifC14Sgx$')]


def side_overlays(name, pkg, fn):
    d = pkg[2:]
    return {d + 'zz_verif_c14_test.go': os.path.join(VERIF, 'harness', 'c14', fn),
            d + 'zz_verif_c14_common_test.go': fullstack.pkgcopy(os.path.join(VERIF, 'harness', 'c14', 'common.go'), 'main', 'c14_common_%s_test.go' % name)}


def probe_events(k):
    """a valid request sequence appended to every fuzzed history: the plugin must still serve it"""
    pod = dict(id='probe-p%d' % k, name='probe%d' % k, ns='default', uid='probe-uid-%d' % k, qos='BestEffort', annotations={}, labels={})
    ctr = dict(id='probe-c%d' % k, pod=pod['id'], name='probe', state='created', annotations={}, labels={}, res=dict(shares=2, period=100000, quota=None, memlimit=None), oomadj=1000)
    return [dict(op='RunPodSandbox', pod=pod, tag='probe'), dict(op='CreateContainer', ctr=ctr, tag='probe'), dict(op='StartContainer', ctr=dict(id=ctr['id']), tag='probe'),
            dict(op='StopContainer', ctr=dict(id=ctr['id']), tag='probe'), dict(op='RemoveContainer', ctr=dict(id=ctr['id']), tag='probe'),
            dict(op='StopPodSandbox', pod=dict(id=pod['id']), tag='probe'), dict(op='RemovePodSandbox', pod=dict(id=pod['id']), tag='probe')]


def run(tier, seed, replay=None):
    chk = Check('C14', tier, seed)
    chk.assumptions += [
        'PARTIAL: the theorem covers the modelled lookup/dereference skeleton of the resource manager handlers (Nil_Model.v); panic-freedom of arbitrary Go code is not a statement an executable model carries',
        'the rest is differential fuzzing: a malformed event stream (unknown / forgotten ids, duplicated and out-of-order lifecycle events, junk values for every annotation key the plugins interpret, absent optional sub-messages, pods without Linux section, listings with containers whose pod is missing) drives the real handlers of both resource policies and of memory-qos, memtierd and sgx-epc (with and without configuration) under recover(); any panic is a violation with the event sequence as replay',
        'the model predicts the reply class (ok / error / decided by the policy) of every resmgr event from the set of known pods and containers; a class the model does not allow breaks the correspondence',
        'after every fuzzed history a valid probe sequence must be served successfully',
    ]
    chk.prove('C14_Props')
    zoo, paths = prepare_machines(chk)
    binary = build(chk)
    if not binary:
        return chk.finish(rule='harness build failed')
    rng = chk.rng
    n = 24 if tier == 'quick' else 400
    scripts = []
    for policy in ('topology-aware', 'balloons'):
        for i in range(n):
            m = rng.choice(zoo)
            s = fsgen.gen_history(rng, policy, m, paths[m['name']], nevents=rng.choice([40, 60, 80]), profile='light', name='%s%04d' % (policy[:2], i),
                                  malformed=rng.choice([0.3, 0.5]), reconfig=rng.choice([0, 0.05]), sync=0.02, restart=rng.choice([0, 0.02]), drain=True)
            s['events'] += probe_events(i)
            s['_machine'] = m
            scripts.append(s)
    # deterministic part: every structured junk value once in each of the two container-affinity annotations
    # (the fuzzer above meets each of them only now and then)
    for policy in ('topology-aware', 'balloons'):
        m = zoo[1]
        w = fsgen.World(random.Random(seed), policy, m, 'light')
        cfg0 = fsgen.ta_config(random.Random(seed), m) if policy == 'topology-aware' else fsgen.bln_config(random.Random(seed), m)
        for key in ('affinity', 'anti-affinity'):
            for v in fsgen.YJUNK:
                pod = w.new_pod(qos='Burstable', ns='default')
                pod['annotations'][fsgen.NS + '/' + key] = v
                w.run_pod(pod)
                c = w.new_ctr(pod, name='ctr0', milli=100, mem=0)
                w.create(c)
                w.events[-1]['tag'] = 'junk-affinity'
                w.stop(c); w.remove(c); w.stop_pod(pod); w.remove_pod(pod)
        sc = dict(name='%sjunk' % policy[:2], machine=paths[m['name']], policy=policy, config=cfg0, events=w.events + probe_events(9000), _machine=m)
        scripts.append(sc)
    if replay and 'events' in (json.load(open(replay)).get('replay') or {}):
        scripts = maybe_replay(chk, replay, scripts, zoo, paths)
    traces = run_histories(chk, binary, [{k: v for k, v in s.items() if not k.startswith('_')} for s in scripts])
    nfind = collections.Counter()
    kinds = collections.Counter()
    def viol(sc, f):
        nfind[(f['prop'], f['sig'])] += 1
        chk.violation(f['sig'], 'C14 [%s] history %s event %d: %s' % (f['clause'], sc['name'], f['seq'], f['what']),
                      {k: v for k, v in replay_of(sc, f['seq']).items() if not k.startswith('_')})
    cases = []
    for sc in scripts:
        recs = traces.get(sc['name']) or []
        ids, pids = {}, {}
        cid = lambda c: ids.setdefault(c, len(ids))
        pid = lambda p: pids.setdefault(p, len(pids))
        items = []
        skip_model = False
        for rec in recs:
            if rec['seq'] < 0:
                continue
            ev = sc['events'][rec['seq']]
            cls = rec['reply']['class']
            kinds[(rec['op'], ev.get('tag') or '', cls)] += 1
            if cls == 'panic':
                msg = rec['reply'].get('msg', '')
                frame = next((l.strip() for l in msg.split('\n') if REPO + '/' in l and 'zz_verif' not in l and '/verif/' not in l), msg.split('\n')[0])
                frame = re.sub(r' \+0x[0-9a-f]+', '', frame)
                frame = re.sub(r':\d+$', '', frame.replace(REPO + '/', ''))
                viol(sc, F('C14', 'handlers-never-panic', 'panic:%s:%s' % (rec['op'], frame), '%s panics: %s' % (rec['op'], msg.split('\n')[0][:200]), rec['seq']))
            if ev.get('tag') == 'probe' and cls != 'ok':
                viol(sc, F('C14', 'refused-request-harmless', 'probe-refused:' + rec['op'], 'valid %s after the fuzzed history is answered %s: %s' % (rec['op'], cls, rec['reply'].get('msg', '')[:200]), rec['seq']))
            # model events
            op = rec['op']
            oc = {'ok': 'OOk', 'err': 'OErr', 'panic': 'OPanic'}[cls]
            if op == 'RunPodSandbox':
                items.append('(NRunPod %d, %s)' % (pid(ev['pod']['id']), oc))
            elif op == 'StopPodSandbox':
                items.append('(NStopPod %d, %s)' % (pid(ev['pod']['id']), oc))
            elif op == 'RemovePodSandbox':
                items.append('(NRemovePod %d, %s)' % (pid(ev['pod']['id']), oc))
            elif op == 'CreateContainer':
                items.append('(NCreate %d %d, %s)' % (cid(ev['ctr']['id']), pid(ev['ctr'].get('pod', '?')), oc))
            elif op == 'StartContainer':
                items.append('(NStart %d, %s)' % (cid(ev['ctr']['id']), oc))
            elif op == 'UpdateContainer':
                items.append('(NUpdate %d %s, %s)' % (cid(ev['ctr']['id']), 'false' if ev.get('nilres') else 'true', oc))
            elif op == 'StopContainer':
                items.append('(NStop %d, %s)' % (cid(ev['ctr']['id']), oc))
            elif op == 'RemoveContainer':
                items.append('(NRemove %d, %s)' % (cid(ev['ctr']['id']), oc))
            elif op == 'Synchronize':
                items.append('(NSync [%s] [%s], %s)' % (';'.join(str(pid(p['id'])) for p in ev['pods']), ';'.join('(%d,%d)' % (cid(c['id']), pid(c.get('pod', '?'))) for c in ev['ctrs']), oc))
            elif op == 'Reconfigure':
                items.append('(NReconfigure, %s)' % oc)
            elif op == 'Restart':
                break    # the model has no persistence; stop comparing this history here
        cases.append((sc['name'], '[%s]' % '; '.join(items)))
    shards = 8
    per = max(1, (len(cases) + shards - 1) // shards)
    files = []
    for k in range(0, len(cases), per):
        p = os.path.join(chk.work, 'cases_nil_%02d.v' % (k // per))
        with open(p, 'w') as f:
            f.write('From Coq Require Import List. Import ListNotations.\nFrom stdpp Require Import gmap.\nFrom NV Require Import Nil_Model.\nOpen Scope nat_scope.\n')
            f.write('Definition M := Eval vm_compute in [%s].\nPrint M.\n' % ';\n'.join('ncheck n0 0 %s' % t for _, t in cases[k:k + per]))
        files.append((k, p))
    for (k, p), (rc, out) in zip(files, coq_eval_many([p for _, p in files])):
        body = parse_coq_print(out, 'M')
        if rc != 0 or body is None:
            chk.corr_broken('Nil_Model/' + os.path.basename(p), 'coqc failed:\n' + out[-1500:])
            continue
        for (name, _), it in zip(cases[k:k + per], split_top(body.strip()[1:-1])):
            if it.strip() != 'None':
                chk.corr_broken('Nil_Model:' + name, 'history %s: reply class of event %s is not what the lookup skeleton allows' % (name, it.strip()))
    # side plugins
    nside = 0
    side_kinds = collections.Counter()
    ncases = 2000 if tier == 'quick' else 20000
    for name, pkg, fn, test in SIDE:
        outp = os.path.join(chk.work, 'side_%s.jsonl' % name)
        rc, out, dt = go_test(pkg, side_overlays(name, pkg, fn), test, env={'VERIF_OUT_FILE': outp, 'VERIF_SEED': str(seed), 'VERIF_N': str(ncases)}, timeout=300)
        if rc != 0 or not os.path.exists(outp):
            chk.corr_broken('side-harness:' + name, 'go test failed:\n' + out[-2000:])
            continue
        seen = set()
        for line in open(outp):
            r = json.loads(line)
            nside += 1
            side_kinds[(r['plugin'], r['handler'], r['kind'])] += 1
            if r['kind'] == 'panic':
                where = re.sub(r':\d+', '', r['where'].split(': ')[0])
                sig = 'panic:%s:%s:%s' % (r['plugin'], r['handler'], where)
                if sig not in seen:
                    seen.add(sig)
                chk.violation(sig, 'C14 [handlers-never-panic] %s %s panics at %s' % (r['plugin'], r['handler'], r['where'][:200]),
                              {'plugin': r['plugin'], 'handler': r['handler'], 'config': r['config'], 'input': json.loads(r['input']), 'seed': seed, 'case': r['case']})
                nfind[('C14', sig)] += 1
    nt = sum(1 for r in traces.values() if nontrivial_history(r))
    events = sum(len(r) for r in traces.values())
    chk.samples += [{'history': s['name'], 'policy': s['policy'], 'malformed_events': [(e['op'], e.get('tag')) for e in s['events'] if e.get('tag') and e['tag'] != 'probe'][:6]} for s in scripts[:2]]
    return chk.finish(
        rule='fuzzed NRI histories (30-50% malformed events of 14 kinds) under both resource policies, each followed by a valid probe sequence; side plugins: random configuration (absent, empty, junk, valid) x pod annotations with junk values x containers with absent optional sub-messages; '
             'distinct_nontrivial counts histories with >=2 live containers, an allocation, a release and a cross-container update',
        evaluations=events + nside, distinct=nt, traces=len(traces),
        extra_cov={'histories': len(traces), 'resmgr_events': events, 'side_plugin_calls': nside,
                   'reply_classes': {'/'.join(k): v for k, v in sorted(kinds.items()) if k[1]}, 'side_classes': {'/'.join(k): v for k, v in sorted(side_kinds.items())},
                   'oracle_findings': {'%s/%s' % k: v for k, v in nfind.items()}})


WARM = []
