"""C19: match expressions, affinity weight clamp and balloon-type selection follow their documented semantics."""
import os, json, re, itertools
from vlib import *
import machines

HS = os.path.join(VERIF, 'harness')
OPS = ['Equals', 'NotEqual', 'In', 'NotIn', 'Exists', 'NotExist', 'AlwaysTrue', 'Matches', 'MatchesNot', 'MatchesAny', 'MatchesNone']
DUALS = [('In', 'NotIn'), ('Matches', 'MatchesNot'), ('MatchesAny', 'MatchesNone'), ('Exists', 'NotExist')]
BALLOON_KEY = 'balloon.balloons.resource-policy.nri.io'
CUTOFF = 1000   # the documented range of affinity weights (docs/resource-policy/policy/topology-aware.md)
VALID_SEPS = [',', ';', ':', '=', '-', '_', '|', ' ', '+', '@', '%', '~']
BAD_SEPS = ['a', 'Z', '5', '/', '.']


def pkgcopy(src, pkg, name):
    os.makedirs(os.path.join(BUILD, 'gen'), exist_ok=True)
    dst = os.path.join(BUILD, 'gen', name)
    s = open(src).read().replace('package PKGNAME', 'package ' + pkg)
    if not os.path.exists(dst) or open(dst).read() != s:
        open(dst, 'w').write(s)
    return dst


def overlays_expr():
    return {'pkg/resmgr/cache/zz_verif_c19_test.go': os.path.join(HS, 'c19', 'expr_test.go'),
            'pkg/resmgr/cache/zz_verif_c19_common_test.go': pkgcopy(os.path.join(HS, 'c19', 'common.go'), 'cache_test', 'c19_common_cache_test.go')}


def overlays_bln():
    P = 'cmd/plugins/balloons/policy/'
    return {P + 'zz_verif_c19_test.go': os.path.join(HS, 'c19', 'balloons_test.go'),
            P + 'zz_verif_c19_common_test.go': pkgcopy(os.path.join(HS, 'c19', 'common.go'), 'balloons', 'c19_common_balloons_test.go'),
            P + 'zz_verif_c19_sysfsgen_test.go': pkgcopy(os.path.join(HS, 'common', 'sysfsgen.go'), 'balloons', 'c19_sysfsgen_balloons_test.go')}


# ------------------------------------------------------------------ generators

NAMESPACES = ['kube-system', 'default', 'ns1', 'ns2', 'monitoring', 'prod-a', 'prod-b', 'kube-public', 'a/b']
NAMES = ['web', 'db', 'redis-0', 'redis-1', 'c0', 'sidecar', 'x', 'a*b', 'web-7f', 'db.main', '*']
LABEL_KEYS = ['app', 'tier', 'io.kubernetes.container.name', 'example.com/role', 'a/b/c', 'x', 'a.b', 'k-1']
LABEL_VALS = ['web', 'db', 'frontend', 'backend', '', 'v1', 'a:b', 'x,y', '*', 'high prio']
CGROUPS = ['/kubepods/besteffort/podX', '/kubepods/burstable/podX', '/kubepods/podX', '']
SIMPLE_KEYS = ['name', 'namespace', 'id', 'uid', 'qosclass', 'pod/name', 'pod/namespace', 'pod/id', 'pod/uid', 'pod/qosclass',
               'labels/app', 'labels/tier', 'labels/example.com/role', 'labels/a/b/c', 'tags/x', 'tags/app', 'pod/labels/app',
               'pod/labels/example.com/role', 'pod/labels/a.b', 'labels/io.kubernetes.container.name', 'labels/k-1']
ODD_KEYS = ['', 'pod', 'labels', 'tags', 'labels/', 'pod/', 'foo', 'name/x', 'pod//name', '/name', '//name', 'name/', './name',
            'pod/../name', 'labels/a/../app', 'pod/tags/x', 'pod/pod/name', 'pod/foo', 'Name', 'labels//app', 'pod/labels',
            'name/.', '.', '..', 'pod/./name', 'labels/app/', 'qosclass/', 'pod/name/x', 'tags', ':', ':a', ':ab', ':a:', 'id/uid']


def rstr(rng, n=None):
    n = rng.randint(0, 6) if n is None else n
    return ''.join(rng.choice('abcxyz019-._/:*?,; =A') for _ in range(n))


def rmap(rng, keys, vals):
    return {rng.choice(keys): rng.choice(vals) for _ in range(rng.randint(0, 4))}


def fake_val(rng, kind, depth):
    r = rng.random()
    if kind == 'str':
        if r < 0.8:
            return {'t': 'str', 's': rng.choice(NAMES + NAMESPACES + LABEL_VALS + ['Burstable', 'Guaranteed', 'BestEffort'])}
        return rng.choice([{'t': 'err'}, {'t': 'nil'}, {'t': 'named', 's': 'Burstable'}, {'t': 'int'},
                           {'t': 'map', 'm': {'x': 'y'}}, {'t': 'str', 's': rstr(rng)}])
    if kind == 'map':
        if r < 0.8:
            return {'t': 'map', 'm': rmap(rng, LABEL_KEYS + ['', 'a/../app'], LABEL_VALS)}
        return rng.choice([{'t': 'nilmap'}, {'t': 'err'}, {'t': 'str', 's': 'notamap'}, {'t': 'nil'}])
    if kind == 'obj':
        if r < 0.8 and depth > 0:
            return {'t': 'obj', 'o': fake_obj(rng, depth - 1)}
        return rng.choice([{'t': 'err'}, {'t': 'str', 's': 'notanobj'}, {'t': 'nil'}])


def fake_obj(rng, depth=2):
    f = {}
    for k in ('name', 'namespace', 'id', 'uid', 'qosclass'):
        if rng.random() < 0.8:
            f[k] = fake_val(rng, 'str', depth)
    for k in ('labels', 'tags'):
        if rng.random() < 0.85:
            f[k] = fake_val(rng, 'map', depth)
    if rng.random() < 0.85:
        f['pod'] = fake_val(rng, 'obj', depth)
    if rng.random() < 0.15:
        f[''] = fake_val(rng, 'str', depth)
    if rng.random() < 0.15:
        f['.'] = fake_val(rng, 'str', depth)
    if rng.random() < 0.2:
        f['foo'] = fake_val(rng, rng.choice(['str', 'map', 'obj']), depth)
    d = rng.choice([{'t': 'err'}] * 6 + [{'t': 'nil'}, {'t': 'str', 's': 'anything'}, {'t': 'map', 'm': {'app': 'web', 'x': '1'}}])
    return {'fields': f, 'default': d}


def real_subject(rng, kind='real', ns=None, anns=None, cname=None):
    pod = {'name': rng.choice(NAMES) + rng.choice(['', '-0', '-abc']), 'namespace': ns if ns is not None else rng.choice(NAMESPACES),
           'uid': 'uid-%d' % rng.randint(0, 99), 'labels': rmap(rng, LABEL_KEYS, LABEL_VALS) if rng.random() < 0.85 else None,
           'annotations': anns or {}, 'cgroup': rng.choice(CGROUPS)}
    s = {'kind': kind, 'pod': pod}
    if kind == 'real':
        s['ctr'] = {'name': cname or rng.choice(NAMES), 'labels': rmap(rng, LABEL_KEYS, LABEL_VALS) if rng.random() < 0.85 else None,
                    'tags': rmap(rng, ['x', 'app', 'a/b'], LABEL_VALS)}
    return s


def value_pool(subjects):
    pool = set()

    def walk(o):
        for v in list(o['fields'].values()) + [o['default']]:
            if v['t'] == 'str':
                pool.add(v.get('s', ''))
            elif v['t'] == 'map':
                pool.update((v.get('m') or {}).values())
            elif v['t'] == 'obj':
                walk(v['o'])
    for s in subjects:
        if s['kind'] == 'fake':
            walk(s['obj'])
        else:
            pool.update([s['pod']['name'], s['pod']['namespace'], s['pod']['uid']])
            pool.update((s['pod']['labels'] or {}).values())
            if 'ctr' in s:
                pool.add(s['ctr']['name'])
                pool.update((s['ctr']['labels'] or {}).values())
                pool.update((s['ctr']['tags'] or {}).values())
    pool.update(['Burstable', 'Guaranteed', 'BestEffort'])
    return sorted(pool)


def globify(rng, v):
    if not v:
        return rng.choice(['*', '?', ''])
    r = rng.random()
    i = rng.randint(0, len(v))
    if r < 0.25:
        return v[:i] + '*'
    if r < 0.45:
        return '*' + v[i:]
    if r < 0.6:
        j = rng.randint(0, len(v) - 1)
        return v[:j] + '?' + v[j + 1:]
    if r < 0.75:
        j = rng.randint(i, len(v))
        return v[:i] + '*' + v[j:]
    if r < 0.85:
        return '*' + v[i:i + 2] + '*'
    if r < 0.9:
        return v
    return rng.choice(['*', '**', '?*', '*?', '[a-z]*', 'a\\*', '[', v + '*?'])


def gen_expr_input(tier, rng):
    nf, nr, nfam = (40, 24, 60) if tier == 'quick' else (100, 50, 200)
    subjects = [{'kind': 'fake', 'obj': fake_obj(rng)} for _ in range(nf)]
    subjects += [real_subject(rng) for _ in range(nr)]
    subjects += [real_subject(rng, 'realpod') for _ in range(max(3, nr // 4))]
    pool = value_pool(subjects)
    fams = []   # (key, values, joint structure or None)
    keys = []
    for k in SIMPLE_KEYS:
        keys.append((k, None))
    for k in ODD_KEYS:
        keys.append((k, None))
    for _ in range(nfam):
        subs = [rng.choice(SIMPLE_KEYS + (['foo', 'pod'] if rng.random() < 0.2 else [])) for _ in range(rng.randint(1, 4))]
        r = rng.random()
        if r < 0.55:
            ks, vs = rng.choice(VALID_SEPS), rng.choice(VALID_SEPS)
            if any(ks in s for s in subs):
                ks = '|'
            keys.append((':' + ks + vs + ks.join(subs), {'ksep': ks, 'vsep': vs, 'subkeys': subs}))
        elif r < 0.8:
            keys.append((':' + ':'.join(subs), {'ksep': ':', 'vsep': ':', 'subkeys': subs}))
        else:   # not both valid separators: falls back to ':' / ':' on everything after the first ':'
            ks, vs = rng.choice(BAD_SEPS + VALID_SEPS), rng.choice(BAD_SEPS)
            keys.append((':' + ks + vs + ks.join(subs), None))
    rng.shuffle(keys)
    # every sub-key of a joint key also gets its own family (the oracle needs its value)
    need = {s for _, j in keys if j for s in j['subkeys']}
    have = set()
    chosen = []
    quota = nfam
    for k, j in keys:
        if len(chosen) < quota or (k in need and k not in have):
            chosen.append((k, j))
            have.add(k)
    for k in sorted(need - have):
        chosen.append((k, None))
    exprs, meta = [], []
    for fi, (k, j) in enumerate(chosen):
        nv = rng.choice([0, 1, 1, 1, 2, 3, 5])
        vals = []
        for _ in range(nv):
            base = rng.choice(pool)
            if j and rng.random() < 0.7:
                base = j['vsep'].join(rng.choice(pool + ['']) for _ in j['subkeys'])
            r = rng.random()
            vals.append(base if r < 0.45 else globify(rng, base) if r < 0.85 else '*' if r < 0.93 else rstr(rng))
        ops = list(OPS)
        if rng.random() < 0.3:
            ops.append(rng.choice(['Foo', '', 'in', 'equals', 'NotExists']))
        if k in need and k not in SIMPLE_KEYS[:6] and rng.random() < 0.5 and tier == 'quick':
            ops = ['Exists', 'NotExist', 'Equals']
        for o in ops:
            exprs.append({'key': k, 'op': o, 'values': vals})
            meta.append({'fam': fi, 'joint': j})
    weights = []
    edge = [0, 1, -1, 5, -5, 999, 1000, 1001, -999, -1000, -1001, 5000, -5000, 2 ** 31 - 1, -2 ** 31, -2 ** 31 + 1, 123456789]
    for anti in (False, True):
        weights.append({'anti': anti, 'weights': edge})
        for _ in range(2 if tier == 'quick' else 40):
            weights.append({'anti': anti, 'weights': [rng.choice([rng.randint(-1200, 1200), rng.randint(-2 ** 31, 2 ** 31 - 1), rng.choice(edge)])
                                                      for _ in range(rng.randint(1, 8))]})
    return {'subjects': subjects, 'exprs': exprs, 'weights': weights}, meta


TYPE_NAMES = ['a', 'b', 'web', 'db', 'batch', 'reserved', 'default']
NS_PATTERNS = ['ns1', 'ns2', 'ns*', '*', 'kube-*', '?s1', 'prod-?', 'default', 'monitoring', 'mon*', 'kube-system', 'prod-*', 'a/*', '*/b', 'x', 'n*1', '*-?']
EXOTIC_PATTERNS = ['[', 'ns[12]', 'kube\\-system', '[a-z]*']   # outside the modelled glob fragment: oracle/correspondence skip them
BLN_KEYS = ['name', 'namespace', 'pod/name', 'labels/app', 'pod/labels/app', 'pod/labels/tier', 'tags/x', 'qosclass', 'pod/qosclass',
            ':pod/namespace:name', ':,=namespace,labels/app']


def gen_bln_input(tier, rng):
    ncfg, nctr = (60, 32) if tier == 'quick' else (300, 60)
    ctrs = []
    for i in range(nctr):
        ns = NAMESPACES[i % len(NAMESPACES)] if i < 2 * len(NAMESPACES) else rng.choice(NAMESPACES)
        cname = rng.choice(['c0', 'web', 'db', 'sidecar'])
        anns = {}
        r = rng.random()
        if r < 0.4:
            for suffix in ('', '/pod', '/container.' + cname, '/container.' + rng.choice(['other', 'c0', 'web'])):
                if rng.random() < 0.4:
                    anns[BALLOON_KEY + suffix] = rng.choice(TYPE_NAMES + ['nosuch', ''])
            if rng.random() < 0.3:
                anns['unrelated.io/key'] = 'a'
        ctrs.append(real_subject(rng, 'real', ns=ns, anns=anns, cname=cname))
    pool = value_pool(ctrs)
    cfgs = []
    for k in range(ncfg):
        n = rng.choice([0, 1, 2, 2, 3, 3, 4, 6])
        names = rng.sample(TYPE_NAMES, min(n, len(TYPE_NAMES)))
        r = rng.random()
        if n and r < 0.04:
            names[rng.randrange(n)] = ''
        elif n > 1 and r < 0.09:
            names[0] = names[-1]
        types = []
        for nm in names:
            t = {'name': nm}
            if rng.random() < 0.55:
                t['namespaces'] = [rng.choice(NS_PATTERNS) for _ in range(rng.randint(1, 3))]
                if rng.random() < 0.04:
                    t['namespaces'].append(rng.choice(EXOTIC_PATTERNS))
            if rng.random() < 0.5:
                es = []
                for _ in range(rng.randint(1, 2)):
                    key = rng.choice(BLN_KEYS)
                    op = rng.choice(OPS)
                    nv = {'Equals': 1, 'NotEqual': 1, 'Matches': 1, 'MatchesNot': 1, 'Exists': 0, 'NotExist': 0, 'AlwaysTrue': 0}.get(op, rng.randint(0, 3))
                    if rng.random() < 0.03:
                        nv = 2 if nv == 1 else 0 if op in ('Equals', 'Matches') else nv   # rejected by Config.Validate
                    vals = []
                    for _ in range(nv):
                        v = rng.choice(pool)
                        g = globify(rng, v) if op.startswith('Matches') and rng.random() < 0.6 else v
                        vals.append(g if glob_ok(g) or rng.random() < 0.05 else '*')
                    es.append({'key': key, 'operator': op, 'values': vals})
                t['matchExpressions'] = es
            types.append(t)
        cfg = {'balloonTypes': types}
        r = rng.random()
        if r < 0.35:
            cfg['reservedPoolNamespaces'] = [rng.choice(NS_PATTERNS) for _ in range(rng.randint(1, 2))]
        elif r < 0.45:
            cfg['reservedPoolNamespaces'] = []
        cfgs.append(cfg)
    return {'configs': cfgs, 'containers': ctrs, 'land': True}


# ------------------------------------------------------------------ Coq printing

def cstr(s):
    return coq_str(s)


def cstrs(l):
    return '[' + ';'.join(cstr(x) for x in (l or [])) + ']'


def cval(v):
    t = v['t']
    if t == 'str':
        return 'VStr ' + cstr(v.get('s', ''))
    if t in ('map', 'nilmap'):
        m = v.get('m') or {}
        return 'VMap [' + ';'.join('(%s,%s)' % (cstr(k), cstr(m[k])) for k in sorted(m)) + ']'
    if t == 'obj':
        return 'VObj (%s)' % cobj(v['o'])
    if t == 'err':
        return 'VErr'
    return 'VOther'


def cobj(o):
    return 'obj_of [' + ';'.join('(%s,%s)' % (cstr(k), cval(o['fields'][k])) for k in sorted(o['fields'])) + '] (' + cval(o['default']) + ')'


def cop(op):
    return op if op in OPS else '(OpUnknown %s)' % cstr(op)


def cexpr(key, op, vals):
    return '(Expr %s %s %s)' % (cstr(key), cop(op), cstrs(vals))


def glob_ok(p):
    return '[' not in p and '\\' not in p


def ascii_ok(*ss):
    return all(ord(ch) < 128 and ch >= ' ' for s in ss for ch in s)


HDR = ('From Coq Require Import ZArith NArith List Bool String Ascii.\nImport ListNotations.\nFrom NV Require Import C19_Model.\n'
       'Open Scope string_scope.\n')


def glob_re(p):
    out = ''
    for ch in p:
        out += '[^/]*' if ch == '*' else '[^/]' if ch == '?' else re.escape(ch)
    return re.compile('^' + out + '$', re.S)


def spec_glob(p, name):
    return glob_re(p).match(name) is not None


# ------------------------------------------------------------------ the check

def run(tier, seed, replay=None):
    chk = Check('C19', tier, seed)
    rng = chk.rng
    chk.assumptions += [
        "modelled, not verified: filepath.Match and path.Clean are section variables of every theorem (the theorems hold for any such functions); for the correspondence they are instantiated by Gallina implementations (Match: literal bytes, '*', '?', ASCII; Clean: full) that are themselves compared with the Go standard library on every case through Evaluate/KeyValue",
        "subjects: an Evaluable is modelled as a total function from keys to {string, map, Evaluable, error, other}; what the real cache pods/containers return from EvalKey is probed by the harness and printed into the cases (not assumed)",
        "correspondence: Go harnesses harness/c19 (external test of pkg/resmgr/cache, in-package test of cmd/plugins/balloons/policy on a synthetic sysfs) + this script's Coq printer; generated strings are printable ASCII",
        "balloon types are modelled by name, matchExpressions and namespaces only; CPU sizing of balloons is outside this property",
    ]
    chk.prove('C19_Props')
    if tier == 'thorough' and not chk.broken:
        rc, out, _ = sh('coqchk -silent -o -Q theories NV NV.C19_Props', cwd=COQ, timeout=1200)
        ok = rc == 0 and 'Axioms: <none>' in out
        chk.obligations.append(('coqchk:C19_Props', ok))
        if not ok:
            chk.broken.append(('proof', 'coqchk C19_Props', out[-1500:]))
    log('C19: proofs checked at %.1fs' % (time.time() - chk.t0))

    # ---------------- inputs
    if replay:
        rp = json.load(open(replay))['replay']
        ein, meta = rp.get('expr_in', {'subjects': [], 'exprs': [], 'weights': []}), rp.get('meta', [])
        bin_ = rp.get('bln_in', {'configs': [], 'containers': [], 'land': True})
        if len(meta) != len(ein['exprs']):
            meta = [{'fam': 0, 'joint': None} for _ in ein['exprs']]
    else:
        ein, meta = gen_expr_input(tier, rng)
        bin_ = gen_bln_input(tier, rng)
    json.dump(ein, open(os.path.join(chk.work, 'c19_expr_in.json'), 'w'))
    json.dump(bin_, open(os.path.join(chk.work, 'c19_bln_in.json'), 'w'))
    machines.dump(machines.zoo()[0], os.path.join(chk.work, 'machine.json'))

    with ThreadPoolExecutor(max_workers=2) as ex:
        f1 = ex.submit(go_test, './pkg/resmgr/cache/', overlays_expr(), '^TestVerifC19Expr$', {'VERIF_OUT': chk.work}, 240)
        f2 = ex.submit(go_test, './cmd/plugins/balloons/policy/', overlays_bln(), '^TestVerifC19Balloons$', {'VERIF_OUT': chk.work}, 240)
        (rc1, out1, _), (rc2, out2, _) = f1.result(), f2.result()
    log('C19: harnesses done at %.1fs' % (time.time() - chk.t0))
    eo, bo = os.path.join(chk.work, 'c19_expr_out.jsonl'), os.path.join(chk.work, 'c19_bln_out.jsonl')
    if rc1 != 0 or not os.path.exists(eo):
        chk.corr_broken('harness-expr', 'go test failed:\n' + out1[-3000:])
    if rc2 != 0 or not os.path.exists(bo):
        chk.corr_broken('harness-balloons', 'go test failed:\n' + out2[-3000:])
    if chk.broken and any(k == 'correspondence' and n.startswith('harness') for k, n, _ in chk.broken):
        return chk.finish(rule='harness failed')

    files = []
    stats = {}
    n_eval, distinct = expr_part(chk, ein, meta, eo, files, stats)
    n_w = weights_part(chk, ein, eo, files, stats)
    n_b, distinct_b = bln_part(chk, bin_, bo, files, stats)

    log('C19: oracle done, %d case files at %.1fs' % (len(files), time.time() - chk.t0))
    results = coq_eval_many([p for _, p in files])
    log('C19: correspondence evaluated at %.1fs' % (time.time() - chk.t0))
    for (name, p), (rc, out) in zip(files, results):
        body = parse_coq_print(out, 'M')
        if rc != 0 or body is None:
            chk.corr_broken(name, 'coqc failed on %s:\n%s' % (p, out[-1500:]))
        elif body.replace(' ', '') not in ('[]', 'nil'):
            chk.corr_broken(name, 'model and implementation differ on cases %s (%s)' % (body[:300], p))

    return chk.finish(
        rule='an expression evaluation is one (expression, subject) pair run through the real Validate+Evaluate+KeyValue; it counts as '
             'distinct non-trivial when the pair is distinct, the expression validates and its key resolves on that subject (the operator '
             'really compares a value); a balloon choice is one (configuration, container) pair on an accepted configuration, counted '
             'when distinct; weights are counted per parsed affinity entry',
        evaluations=n_eval + n_w + n_b, distinct=distinct + distinct_b, traces=len(files), extra_cov=stats)


def expr_part(chk, ein, meta, eo, files, stats):
    subjects, exprs = ein['subjects'], ein['exprs']
    probes, cases, nilrec = {}, [], None
    for line in open(eo):
        r = json.loads(line)
        if r['type'] == 'probe':
            probes[r['s']] = r['obj']
        elif r['type'] == 'case':
            cases.append(r)
        elif r['type'] == 'nil':
            nilrec = r
    sobj = [s['obj'] if s['kind'] == 'fake' else probes.get(i) for i, s in enumerate(subjects)]

    def rep(r, extra=None, same_fam=False):
        d = {'expr_in': {'subjects': [subjects[r['s']]], 'exprs': [exprs[r['e']]], 'weights': []}, 'observed': r,
             'meta': [{'fam': 0, 'joint': meta[r['e']]['joint']}]}
        for i, x in enumerate(extra or []):
            d['expr_in']['exprs'].append(x)
            d['meta'].append({'fam': 0 if same_fam else i + 1, 'joint': meta[r['e']]['joint'] if same_fam else None})
        return d

    if nilrec and nilrec['valid'] != 'F':
        chk.violation('validate-nil', 'Validate() on a nil expression: %s (an error is expected)' % nilrec['valid'], {'expr_in': {'subjects': [], 'exprs': [], 'weights': []}})
    by = {(r['s'], r['e']): r for r in cases}
    kv = {}
    for r in cases:
        kv[(r['s'], exprs[r['e']]['key'])] = (r['val'], r['ok'])
    # ---- oracle
    fam = {}
    for j, x in enumerate(exprs):
        fam.setdefault((meta[j]['fam'], x['key'], tuple(x['values'])), {})[x['op']] = j
    hist = {}
    for r in cases:
        x = exprs[r['e']]
        hist[x['op'] if x['op'] in OPS else 'unknown'] = hist.get(x['op'] if x['op'] in OPS else 'unknown', 0) + 1
        if r['valid'] == 'P':
            chk.violation('validate-panics', 'Validate panics on %r' % x, rep(r))
        if r['kvpanic']:
            chk.violation('keyvalue-panics', 'KeyValue(%r) panics' % x['key'], rep(r))
        if r['valid'] == 'T' and r['eval'] == 'P':
            chk.violation('validated-expression-panics', 'expression %r passes Validate but Evaluate panics' % x, rep(r))
        if not r['refsame']:
            chk.violation('evalref-differs', 'EvalRef(%r) differs from KeyValue' % x['key'], rep(r))
        if r['eval'] == 'P' or r['kvpanic']:
            continue
        ev, val, ok, vs, op = r['eval'] == 'T', r['val'], r['ok'], x['values'], x['op']
        exp = None
        if op == 'Exists':
            exp = ok
        elif op == 'NotExist':
            exp = not ok
        elif op == 'AlwaysTrue':
            exp = True
        elif op in ('In', 'NotIn') and '*' not in vs:   # the value "*" is an undocumented wildcard: left to the model
            exp = (ok and val in vs) != (op == 'NotIn')
        elif op == 'Equals' and vs and vs[0] != '*':
            exp = ok and val == vs[0]
        elif op == 'NotEqual' and vs:
            exp = (not ok) or val != vs[0]
        elif op in ('Matches', 'MatchesNot') and vs and glob_ok(vs[0]):
            exp = (ok and spec_glob(vs[0], val)) != (op == 'MatchesNot')
        elif op in ('MatchesAny', 'MatchesNone') and all(glob_ok(v) for v in vs):
            exp = (ok and any(spec_glob(v, val) for v in vs)) != (op == 'MatchesNone')
        if exp is not None and exp != ev:
            chk.violation('operator-semantics-' + op, '%r on a subject whose key value is (%r, %s) evaluates to %s' % (x, val, ok, ev), rep(r))
    for (fi, key, vals), ops in fam.items():
        for a, b in DUALS:
            if a in ops and b in ops:
                for i in range(len(subjects)):
                    ra, rb = by.get((i, ops[a])), by.get((i, ops[b]))
                    if not ra or not rb or 'P' in (ra['eval'], rb['eval']):
                        continue
                    if ra['eval'] == rb['eval']:
                        chk.violation('not-negations-%s-%s' % (a, b), '%s and %s both evaluate to %s for key %r values %r' % (a, b, ra['eval'], key, list(vals)),
                                      rep(ra, [exprs[ops[b]]], True))
    njoint = 0
    for j, x in enumerate(exprs):
        jt = meta[j]['joint']
        if not jt or x['op'] != 'Exists':
            continue
        for i in range(len(subjects)):
            r = by.get((i, j))
            subs = [kv.get((i, s)) for s in jt['subkeys']]
            if not r or r['kvpanic'] or any(s is None for s in subs):
                continue
            njoint += 1
            expv, expok = jt['vsep'].join(s[0] for s in subs), any(s[1] for s in subs)
            if (r['val'], r['ok']) != (expv, expok):
                chk.violation('joint-key-value', 'joint key %r evaluates to (%r, %s), its sub-keys %r to %r' % (x['key'], r['val'], r['ok'], jt['subkeys'], subs),
                              rep(r, [{'key': s, 'op': 'Exists', 'values': []} for s in jt['subkeys']]))
    # documented keys resolve on real cache objects (docs/resource-policy/policy/topology-aware.md, "The supported keys are")
    nreal = 0
    for i, s in enumerate(subjects):
        if s['kind'] == 'fake' or sobj[i] is None:
            continue
        nreal += 1
        o = sobj[i]
        pod = o if s['kind'] == 'realpod' else (o['fields'].get('pod') or {}).get('o')
        docs = [('', o, ['name', 'namespace', 'qosclass', 'id'] + (['uid'] if s['kind'] == 'realpod' else []))]
        if s['kind'] == 'real' and pod:
            docs.append(('pod/', pod, ['name', 'namespace', 'qosclass', 'id', 'uid']))
        for pref, ob, ks in docs:
            for k in ks:
                if ob['fields'].get(k, ob['default'])['t'] != 'str':
                    chk.violation('documented-key-unresolvable:' + ('pod/' if ob is pod else '') + k,
                                  'the documented key %r of a real cache %s does not evaluate to a string (EvalKey returns a %s), so it never resolves' %
                                  (pref + k, 'container' if s['kind'] == 'real' else 'pod', ob['fields'].get(k, ob['default'])['t']),
                                  {'expr_in': {'subjects': [s], 'exprs': [{'key': pref + k, 'op': 'Exists', 'values': []}], 'weights': []}})
    # ---- correspondence
    NSH = max(16, (len(cases) + 1499) // 1500)
    skipped = 0
    lines = [[] for _ in range(NSH)]
    edefs = [{} for _ in range(NSH)]
    for n, r in enumerate(cases):
        x = exprs[r['e']]
        if sobj[r['s']] is None or r['kvpanic'] or r['valid'] == 'P':
            skipped += 1
            continue
        if x['op'].startswith('Matches') and not all(glob_ok(v) for v in x['values']):
            skipped += 1
            continue
        if not ascii_ok(x['key'], x['op'], r['val'], *x['values']):
            skipped += 1
            continue
        ev = {'T': 'Some true', 'F': 'Some false', 'P': 'None'}[r['eval']]
        edefs[r['e'] % NSH].setdefault(r['e'], 'Definition e%d : expr := %s.\n' % (r['e'], cexpr(x['key'], x['op'], x['values'])))
        lines[r['e'] % NSH].append('ECase %d%%N e%d s%d %s (%s) (%s,%s)' % (n, r['e'], r['s'],
                                                                         coq_bool(r['valid'] == 'T'), ev, cstr(r['val']), coq_bool(r['ok'])))
    sdefs = ''.join('Definition s%d : subject := %s.\n' % (i, cobj(o)) for i, o in enumerate(sobj) if o is not None)
    for k in range(NSH):
        if not lines[k]:
            continue
        p = os.path.join(chk.work, 'cases_expr_%03d.v' % k)
        with open(p, 'w') as f:
            f.write(HDR + sdefs + ''.join(edefs[k][j] for j in sorted(edefs[k])))
            f.write('Definition cs : list ecase := [\n%s].\n' % ';\n'.join(lines[k]))
            f.write('Definition M := Eval vm_compute in e_mismatches cs.\nPrint M.\n')
        files.append(('expressions shard %d' % k, p))
    distinct = len({(json.dumps(sobj[r['s']], sort_keys=True), json.dumps(exprs[r['e']], sort_keys=True)) for r in cases
                    if r['valid'] == 'T' and r['ok'] and r['eval'] != 'P'})
    stats.update({'expr_cases': len(cases), 'expr_cases_in_coq': sum(len(l) for l in lines), 'expr_cases_not_in_coq': skipped,
                  'expressions': len(exprs), 'subjects': len(subjects), 'real_cache_subjects': nreal, 'op_histogram': hist,
                  'eval_true': sum(1 for r in cases if r['eval'] == 'T'), 'eval_false': sum(1 for r in cases if r['eval'] == 'F'),
                  'eval_panic_unvalidated': sum(1 for r in cases if r['eval'] == 'P'), 'validated': sum(1 for r in cases if r['valid'] == 'T'),
                  'key_resolved': sum(1 for r in cases if r['ok']), 'joint_key_checks': njoint})
    for r in cases[:3000:997]:
        chk.samples.append({'expr': exprs[r['e']], 'subject_kind': subjects[r['s']]['kind'], 'valid': r['valid'], 'eval': r['eval'], 'keyvalue': [r['val'], r['ok']]})
    return len(cases), distinct


def wrap32(z):
    return (z + 2 ** 31) % 2 ** 32 - 2 ** 31


def weights_part(chk, ein, eo, files, stats):
    recs = [json.loads(l) for l in open(eo) if '"type":"weights"' in l]
    n, rows = 0, []
    for r in recs:
        wc = ein['weights'][r['k']]
        rp = {'expr_in': {'subjects': [], 'exprs': [], 'weights': [wc]}, 'observed': r}
        if 'panic' in r or r.get('err'):
            chk.violation('affinity-parse-fails', 'a well-formed affinity annotation with weights %r is rejected: %r' % (wc['weights'], r), rp)
            continue
        if len(r['obs']) != len(wc['weights']) or r['obs'] != r['obs_ctr']:
            chk.violation('affinity-entries-lost', 'weights %r parsed as %r / %r' % (wc['weights'], r['obs'], r['obs_ctr']), rp)
            continue
        for w, o in zip(wc['weights'], r['obs']):
            n += 1
            if not -CUTOFF <= o <= CUTOFF:
                chk.violation('weight-not-clamped', 'user weight %d (anti=%s) becomes %d, outside [-1000,1000]' % (w, wc['anti'], o), rp)
            elif w != 0 and abs(w) <= CUTOFF and o != (-w if wc['anti'] else w):
                chk.violation('weight-changed', 'in-range user weight %d (anti=%s) becomes %d' % (w, wc['anti'], o), rp)
            elif abs(w) > CUTOFF and w != -2 ** 31 and o != (CUTOFF if (w > 0) != wc['anti'] else -CUTOFF):
                chk.violation('weight-clamp-wrong-side', 'user weight %d (anti=%s) becomes %d' % (w, wc['anti'], o), rp)
            rows.append('(%d%%N,%s,%s,%s)' % (len(rows), coq_bool(wc['anti']), zlit(w) + '%Z', zlit(o) + '%Z'))
    p = os.path.join(chk.work, 'cases_weights.v')
    with open(p, 'w') as f:
        f.write(HDR)
        f.write('Definition cs : list (N * bool * Z * Z) := [%s].\n' % ';'.join(rows))
        f.write('Definition M := Eval vm_compute in w_mismatches cs.\nPrint M.\n')
    files.append(('affinity weights', p))
    stats['weights'] = n
    return n


def bln_part(chk, bin_, bo, files, stats):
    cfgs, ctrs = bin_['configs'], bin_['containers']
    cinfo, cfgrec, choices = {}, {}, []
    for line in open(bo):
        r = json.loads(line)
        if r['type'] == 'ctr':
            cinfo[r['c']] = r
        elif r['type'] == 'cfg':
            cfgrec[r['k']] = r
        elif r['type'] == 'choice':
            choices.append(r)

    def rep(k, c, obs=None):
        return {'bln_in': {'configs': [cfgs[k]], 'containers': [ctrs[c]], 'land': True}, 'observed': obs}
    # ---- oracle
    for c, info in cinfo.items():
        anns, cname = ctrs[c]['pod']['annotations'] or {}, ctrs[c]['ctr']['name']
        exp = None
        for key in (BALLOON_KEY + '/container.' + cname, BALLOON_KEY + '/pod', BALLOON_KEY):
            if key in anns:
                exp = anns[key]
                break
        if (info['ann'], info['ann_ok']) != (exp or '', exp is not None):
            chk.violation('effective-balloon-annotation', 'container %r with annotations %r: effective balloon annotation is (%r, %s)' % (cname, anns, info['ann'], info['ann_ok']),
                          {'bln_in': {'configs': [], 'containers': [ctrs[c]], 'land': False}})
    nland = 0
    for r in choices:
        k, c = r['k'], r['c']
        cr, info = cfgrec[k], cinfo[c]
        defs = cr['defs']
        names = [d['name'] for d in defs]
        user_names = [t.get('name', '') for t in cfgs[k].get('balloonTypes', [])]
        ns = info['ns']
        if r['res'] == 'panic' or 'P' in r['exprmatch']:
            chk.violation('choose-panics', 'chooseBalloonDef panics (configuration passed Config.Validate)', rep(k, c, r))
            continue

        def ns_match(pats):
            return any(glob_ok(p) and spec_glob(p, ns) for p in (pats or []))
        if info['ann_ok']:
            exp = ('ok', info['ann']) if info['ann'] in names else ('err', '')
            why = 'annotation %r' % info['ann']
        else:
            exp, why = None, ''
            for d, em in zip(defs, r['exprmatch']):
                if em == 'T' or ns_match(d['namespaces']):
                    exp, why = ('ok', d['name']), 'first matching type in order %r' % names
                    break
                if not all(glob_ok(p) for p in (d['namespaces'] or [])):
                    exp, why = 'undetermined', ''   # a pattern outside the oracle's glob fragment decides
                    break
            if exp is None:
                exp, why = ('ok', 'default'), 'no type matches'
        if exp != 'undetermined' and (r['res'], r['name']) != exp:
            sig = 'annotated-type' if info['ann_ok'] else 'first-match-in-order' if why.startswith('first') else 'default-type'
            chk.violation('balloon-choice-' + sig, 'container in namespace %r (%s): chosen %r/%s, expected %r by %s' % (ns, info['name'], r['name'], r['res'], exp, why), rep(k, c, r))
        # kube-system and the configured reserved namespaces match the reserved type
        rns = cfgs[k].get('reservedPoolNamespaces')
        if ns == 'kube-system' or ns_match(rns):
            rd = [d for d in defs if d['name'] == 'reserved']
            if not rd or not ns_match(rd[0]['namespaces']):
                chk.violation('reserved-namespace-not-matched', 'namespace %r (reservedPoolNamespaces %r) does not match the reserved type %r' % (ns, rns, rd), rep(k, c, r))
            elif 'reserved' not in user_names and not info['ann_ok'] and (r['res'], r['name']) != ('ok', 'reserved'):
                chk.violation('reserved-namespace-not-reserved', 'container in namespace %r lands in %r, not in the implicit reserved type' % (ns, r['name']), rep(k, c, r))
        if 'landed' in r and not r['landed'].startswith('!'):
            nland += 1
            if r['res'] != 'ok' or r['landed'] != r['name']:
                chk.violation('landed-elsewhere', 'container allocated into a balloon of type %r, chooseBalloonDef said %r/%s' % (r['landed'], r['name'], r['res']), rep(k, c, r))
        elif r.get('landed') == '!panic':
            chk.violation('allocate-panics', 'AllocateResources panics', rep(k, c, r))
    # ---- correspondence
    def cdef(t):
        return 'BDef %s [%s] %s' % (cstr(t.get('name', '')), ';'.join(cexpr(e['key'], e['operator'], e.get('values')) for e in t.get('matchExpressions', [])),
                                    cstrs(t.get('namespaces')))

    def copts(cfg):
        r = cfg.get('reservedPoolNamespaces')
        return 'BOpts [%s] %s' % (';'.join(cdef(t) for t in cfg.get('balloonTypes', [])), 'None' if r is None else '(Some %s)' % cstrs(r))

    def cfg_supported(cfg):
        pats = list(cfg.get('reservedPoolNamespaces') or [])
        for t in cfg.get('balloonTypes', []):
            pats += t.get('namespaces') or []
            for e in t.get('matchExpressions', []):
                if e['operator'].startswith('Matches'):
                    pats += e.get('values') or []
        return all(glob_ok(p) for p in pats)
    NSH = max(8, (len(choices) + 299) // 300)
    lines = [[] for _ in range(NSH)]
    used_cfg = [set() for _ in range(NSH)]
    bych = {}
    for r in choices:
        bych.setdefault(r['k'], []).append(r)
    skipped = 0
    nid = 0
    for k, cfg in enumerate(cfgs):
        cr = cfgrec.get(k)
        if cr is None or 'parse_err' in cr:
            chk.corr_broken('balloons-config', 'configuration %d was not processed by the harness: %r' % (k, cr))
            continue
        if not cfg_supported(cfg):
            skipped += len(bych.get(k, [])) or 1
            continue
        ok = bool(cr.get('validate_ok') and cr.get('setup_ok'))
        sh = k % NSH
        used_cfg[sh].add(k)
        rows = bych.get(k, []) if ok else [{'c': 0, 'res': 'err', 'name': ''}]
        for r in rows:
            c = r['c']
            info = cinfo[c]
            anns = ctrs[c]['pod']['annotations'] or {}
            obs = r['name'] if r['res'] == 'ok' else '!' if r['res'] == 'panic' else ''
            lines[sh].append('BCase %d%%N o%d [%s] %s c%d %s %s %s' % (
                k * 1000 + c, k, ';'.join('(%s,%s)' % (cstr(a), cstr(anns[a])) for a in sorted(anns)), cstr(ctrs[c]['ctr']['name']), c,
                cstr(info['ns']), coq_bool(ok), cstr(obs)))
            nid += 1
    cdefs = ''.join('Definition c%d : subject := %s.\n' % (c, cobj(info['obj'])) for c, info in sorted(cinfo.items()))
    for sh in range(NSH):
        if not lines[sh]:
            continue
        p = os.path.join(chk.work, 'cases_bln_%03d.v' % sh)
        with open(p, 'w') as f:
            f.write(HDR + cdefs)
            for k in sorted(used_cfg[sh]):
                f.write('Definition o%d : bopts := %s.\n' % (k, copts(cfgs[k])))
            f.write('Definition cs : list bcase := [\n%s].\n' % ';\n'.join(lines[sh]))
            f.write('Definition M := Eval vm_compute in b_mismatches cs.\nPrint M.\n')
        files.append(('balloon choice shard %d' % sh, p))
    okc = [k for k, cr in cfgrec.items() if cr.get('setup_ok')]
    res_hist = {}
    for r in choices:
        key = r['name'] if r['res'] == 'ok' else r['res']
        res_hist[key] = res_hist.get(key, 0) + 1
    stats.update({'balloon_configs': len(cfgs), 'balloon_configs_accepted': len(okc), 'balloon_containers': len(ctrs), 'balloon_choices': len(choices),
                  'balloon_cases_in_coq': nid, 'balloon_cases_not_in_coq': skipped, 'balloon_landed_checked': nland, 'balloon_choice_histogram': res_hist,
                  'balloon_by_annotation': sum(1 for r in choices if cinfo[r['c']]['ann_ok'])})
    for r in choices[:2000:701]:
        chk.samples.append({'config': cfgs[r['k']], 'namespace': cinfo[r['c']]['ns'], 'annotation': cinfo[r['c']]['ann'] if cinfo[r['c']]['ann_ok'] else None,
                            'chosen': r['name'], 'res': r['res'], 'landed': r.get('landed')})
    distinct = len({(json.dumps(cfgs[r['k']], sort_keys=True), json.dumps(ctrs[r['c']], sort_keys=True)) for r in choices})
    return len(choices), distinct


WARM = [('./pkg/resmgr/cache/', overlays_expr()), ('./cmd/plugins/balloons/policy/', overlays_bln())]
