"""C15: request processing is serialized; concurrent delivery is race-free.

proof      C15_Props.v: generic theorems about lock/access skeletons (all handler sets, all schedules)
tie        tools/locks2coq regenerates Gen/Gen_Locks.v (skeletons of the real handlers) from the source;
           the theorems' hypotheses (well_locked / fetch_obligation / one_section) are evaluated on it in Coq
search     harness/c15: the real resmgr driven from N goroutines under the Go race detector; a race report
           is attributed to the handler whose frame lies outside a locked region of the extracted skeleton
"""
import os, json, re, collections
from vlib import *
import vlib, machines, c15_race

import c15_gen
from c15_gen import LOCKS_JSON

c15_gen.register()

HARNESS_SRC = '/verif/harness/c15/c15_test.go'
SYSFSGEN_SRC = '/verif/harness/common/sysfsgen.go'


def overlays(work):
    os.makedirs(work, exist_ok=True)
    gen = os.path.join(work, 'sysfsgen_resmgr_test.go')
    src = open(SYSFSGEN_SRC).read().replace('package PKGNAME', 'package resmgr')
    if not os.path.exists(gen) or open(gen).read() != src:
        with open(gen, 'w') as f:
            f.write(src)
    return {'pkg/resmgr/zz_verif_c15_test.go': HARNESS_SRC, 'pkg/resmgr/zz_verif_sysfsgen_test.go': gen}


# ---------------------------------------------------------------- attribution of race reports

class Skeletons:
    def __init__(self, path):
        d = json.load(open(path))
        self.handlers = d['handlers']
        self.fetch, self.reader = d['fetch'], d['reader']
        self.notes = d.get('notes', [])

    def entry(self, frames):
        """-> (handler, line, held): the frame of an extracted entry function that decides whether the pipeline lock
        is held.  Innermost first; a frame whose line is covered by a step of the skeleton decides (a frame inside a
        local closure such as reconfigure's apply() is not: the call site further out is)."""
        cands = []
        for fn, file, line in frames:
            for h in self.handlers:
                if file.endswith('/' + h['file']) and h['line'] <= line <= h['end']:
                    cands.append((h, line))
        for h, line in cands:
            for s in h['steps']:
                # inlined steps (updateConfig <- reconfigure) carry the callee's lines: only match in the callee itself
                if not (s['line'] <= line <= s['end']) or s.get('why', '').startswith('inlined '):
                    continue
                if s['kind'] == 'Spawn':
                    # a frame inside the body of a goroutine started by the handler: the goroutine's own lock state counts
                    for b in s.get('body', []):
                        if b['line'] <= line <= b['end']:
                            return h, line, (False if b['kind'] == 'Lock' else b['held'])
                    if s['line'] < line:      # (the go statement itself is the handler's, the rest is the goroutine's)
                        return h, line, False
                    continue
                return h, line, (False if s['kind'] == 'Lock' else s['held'])
        if cands:
            h, line = cands[-1]
            held = False     # the state after the last non-deferred step above the line
            for s in sorted((s for s in h['steps'] if not s.get('deferred')), key=lambda s: s['line']):
                if s['end'] < line and not s.get('why', '').startswith('inlined '):
                    if s['kind'] == 'Lock':
                        held = True
                    elif s['kind'] == 'Unlock':
                        held = False
            return h, line, held
        return None, None, None


def short(fn):
    return fn.split('/')[-1]


def classify(rep, sk):
    """-> (signature, what)"""
    stacks = rep['accesses'][:2]
    info = []
    for st in stacks:
        fr = st['frames']
        h, line, held = sk.entry(fr)
        top = short(fr[0][0]) if fr else '?'
        fetch = any('goFetchPodResources.func' in f[0] for f in fr)
        agent = any('GoGetPodResources.func' in f[0] for f in fr)
        harness = (h is None) and any('zz_verif_c15_test.go' in f[1] for f in fr)
        info.append(dict(top=top, handler=h['name'] if h else None, line=line, held=held, fetch=fetch, agent=agent,
                         harness=harness, getres=any(f[0].endswith('(*pod).GetPodResources') for f in fr)))
    unlocked = sorted({i['handler'] for i in info if i['handler'] and i['held'] is False})
    desc = ' vs '.join('%s[%s%s]' % (i['top'], (i['handler'] + ':%d' % i['line']) if i['handler'] else ('fetch-goroutine' if i['fetch'] else 'agent-goroutine' if i['agent'] else 'harness' if i['harness'] else '?'),
                                     '' if i['held'] is None else (',locked' if i['held'] else ',UNLOCKED')) for i in info)
    if unlocked:
        return ['unlocked-access:%s' % h for h in unlocked], desc
    if any(i['fetch'] for i in info):
        other = [i for i in info if not i['fetch']]
        if other and other[0]['getres']:
            return ['fetch-channel-after-spawn:goFetchPodResources'], desc
        return ['fetch-result-unsynchronized:goFetchPodResources'], desc
    tops = sorted(i['top'] for i in info)
    return ['race-under-lock:%s|%s' % tuple(tops)], desc


def trim(rep):
    return [{'kind': a['kind'], 'goroutine': a['goroutine'], 'frames': ['%s %s:%d' % (short(f[0]), f[1], f[2]) for f in a['frames'][:14]]}
            for a in rep['accesses'][:2]]


# ---------------------------------------------------------------- the check

def run(tier, seed, replay=None):
    chk = Check('C15', tier, seed)
    chk.assumptions += [
        "PARTIAL: the theorems are about the lock/access skeleton extracted by tools/locks2coq (statement order of the entry points' top-level statements, "
        "Lock/Unlock/defer placement, goroutine spawns, channel make/close/receive), not about the Go code: the Go memory model, the sync.RWMutex implementation, "
        "timing, panics, and what an access reads or writes are not modelled; every Access conflicts with every Access",
        "translator trust: which statement counts as an access (mentions .cache/.policy/.cfg/.control/.byname, calls a non-whitelisted in-package function, uses a "
        "cache-object variable, or metrics.Block()/its handle -- the second mutex must nest inside the pipeline lock); whitelist of pure helpers "
        "(dump, dumpDetails, podSpanTags, containerSpanTags, marshal, resmgrError) is verified to contain no access; (*resmgr).start is ignored as single-threaded bring-up; "
        "callees (cache, policy, controllers, agent) are assumed not to start goroutines that touch cache/policy (grep: none) and to terminate",
        "rendezvous: one pod, one channel; the channel handed from agent.GoGetPodResources through RunPodSandbox/InsertPod/createPod to the pod is assumed to be the "
        "one the reader waits on (RunPodSandbox passing it to InsertPod is checked syntactically); the no-client path (nil channel, no fetch) is trivial and not modelled; "
        "cache.RefreshPods/setPodResources writing PodResources during Synchronize is outside the model",
        "dynamic search: Go race detector (happens-before based: reports only races on schedules that actually occur) on the topology-aware policy, one 16-CPU synthetic "
        "machine, recording stub, no kubelet/pod-resources client except in the 'fetch' phase; deadlock = phase not completed within the budget",
    ]
    chk.prove('C15_Props', extra_targets=['theories/Gen/Gen_Locks.vo'])
    translator_ok = os.path.exists(LOCKS_JSON)
    if tier == 'thorough' and not replay:
        # independent re-check of the compiled proofs (and their whole dependency cone) by coqchk
        rc, out, dt = sh('coqchk -silent -o -Q theories NV NV.C15_Props', cwd=COQ, timeout=1200)
        axioms_none = re.search(r'\* Axioms: <none>', out) is not None
        chk.obligations.append(('coqchk:C15_Props', rc == 0 and axioms_none))
        chk.cov['coqchk'] = 'ok, axioms: <none>' if rc == 0 and axioms_none else out[-600:]
        if rc != 0 or not axioms_none:
            chk.broken.append(('proof', 'coqchk', out[-1500:]))

    # ---------------- obligations on the generated skeletons, evaluated by the kernel
    static = {}     # signature -> description
    nhandlers = 0
    if translator_ok:
        p = os.path.join(chk.work, 'cases_locks.v')
        with open(p, 'w') as f:
            f.write('From Coq Require Import List String.\nImport ListNotations.\n'
                    'From NV Require Import C15_Model Gen.Gen_Locks.\n'
                    'Definition M_ill := Eval vm_compute in ill_locked gen_handlers.\nPrint M_ill.\n'
                    'Definition M_ok := Eval vm_compute in forallb well_locked (map snd gen_handlers).\nPrint M_ok.\n'
                    'Definition M_one := Eval vm_compute in map fst (filter (fun np => negb (one_section (snd np))) gen_handlers).\nPrint M_one.\n'
                    'Definition M_fetch := Eval vm_compute in fetch_diag gen_fetch gen_reader.\nPrint M_fetch.\n'
                    'Definition M_fob := Eval vm_compute in fetch_obligation gen_fetch gen_reader.\nPrint M_fob.\n'
                    'Definition M_seq := Eval vm_compute in (chan_free gen_fetch && chan_free gen_reader)%bool.\nPrint M_seq.\n'
                    'Definition M_n := Eval vm_compute in List.length gen_handlers.\nPrint M_n.\n')
        rc, out = coqc_file(p)
        ill = parse_coq_print(out, 'M_ill')
        ok = parse_coq_print(out, 'M_ok')
        one = parse_coq_print(out, 'M_one')
        fdiag = parse_coq_print(out, 'M_fetch')
        fob = parse_coq_print(out, 'M_fob')
        fseq = parse_coq_print(out, 'M_seq')
        n = parse_coq_print(out, 'M_n')
        if rc != 0 or None in (ill, ok, one, fdiag, fob, fseq, n):
            chk.corr_broken('gen-obligations', 'coqc failed on %s:\n%s' % (p, out[-2000:]))
        else:
            nhandlers = int(n)
            pairs = re.findall(r'\("([^"]+)",\s*"([^"]+)"\)', ill)
            if (ok == 'true') != (not pairs):
                chk.corr_broken('gen-obligations', 'ill_locked and well_locked disagree: %s / %s' % (ill, ok))
            chk.obligations.append(('gen_handlers_well_locked', ok == 'true'))
            chk.obligations.append(('gen_fetch_obligation', fob == 'true'))
            multi = re.findall(r'"([^"]+)"', one)
            chk.obligations.append(('gen_handlers_one_section', not multi))
            for name, kind in pairs:
                static['%s:%s' % (kind, name)] = 'skeleton of %s is not well-locked: %s' % (name, kind)
            if fob != 'true':
                m = re.search(r'"([^"]+)"', fdiag)
                kind = m.group(1) if m else 'fetch-obligation'
                static['%s:goFetchPodResources' % kind] = 'rendezvous skeleton fails the obligation: %s' % kind
            if multi and ok == 'true':
                # not a violation of the property by itself: the serial-order theorem does not apply to these handlers
                chk.cov['handlers_with_several_sections_or_goroutines'] = multi
            chk.cov['fetch_variant'] = 'sequential (no goroutine, no channel in pod.go/agent)' if fseq == 'true' else 'goroutine + channel'
    sk = Skeletons(LOCKS_JSON) if translator_ok else None
    if sk:
        chk.samples.append({'skeleton': 'RemovePodSandbox', 'steps': [s['kind'] for h in sk.handlers if h['name'] == 'RemovePodSandbox' for s in h['steps']]})
        chk.samples.append({'skeleton': 'fetch', 'steps': [(s['kind'], [b['kind'] for b in s.get('body', [])]) if s['kind'] == 'Spawn' else s['kind'] for s in sk.fetch],
                            'reader': [s['kind'] for s in sk.reader], 'notes': sk.notes})

    # ---------------- dynamic search: the real handlers under the race detector
    ov = overlays(chk.work)
    machines.dump(machines.zoo()[1], os.path.join(chk.work, 'machine.json'))
    if replay:
        rp = json.load(open(replay)).get('replay', {})
        runs = [dict(seed=rp.get('seed', seed), n=rp.get('n', 4), iters=rp.get('iters', 2), procs=rp.get('procs', 0))]
    elif tier == 'quick':
        runs = [dict(seed=seed, n=4, iters=2, procs=0)]
    else:
        runs = [dict(seed=seed * 101 + k, n=n, iters=it, procs=pr) for k, (n, it, pr) in
                enumerate([(8, 60, 0), (16, 30, 0), (4, 100, 2), (8, 50, 4), (12, 40, 0), (32, 12, 0), (2, 150, 1), (6, 60, 3)])]
    dyn = {}       # signature -> (what, replay)
    calls = collections.Counter()
    kinds = set()
    phases_done = 0
    nreports = 0
    panics = collections.Counter()
    for k, r in enumerate(runs):
        rdir = os.path.join(chk.work, 'run%d' % k)
        os.makedirs(rdir, exist_ok=True)
        machines.dump(machines.zoo()[1], os.path.join(rdir, 'machine.json'))
        env = {'VERIF_OUT': rdir, 'VERIF_SEED': str(r['seed']), 'VERIF_C15_N': str(r['n']), 'VERIF_C15_ITERS': str(r['iters']),
               'VERIF_C15_BUDGET_S': '25' if tier == 'quick' else '300', 'GORACE': 'log_path=%s/race halt_on_error=0' % rdir}
        if r['procs']:
            env['GOMAXPROCS'] = str(r['procs'])
        rc, out, dt = go_test('./pkg/resmgr/', ov, '^TestVerifC15$', env=env, timeout=900 if tier != 'quick' else 420, race=True)
        open(os.path.join(rdir, 'go_test.log'), 'w').write(out)
        resf = os.path.join(rdir, 'c15_result.json')
        res = json.load(open(resf)) if os.path.exists(resf) else None
        params = dict(r, tier=tier, rerun='VERIF_SEED=%d bin/check C15 --replay <this file>' % r['seed'])
        if res is None or not res.get('done'):
            fatal = re.search(r'fatal error: [^\n]*', out)
            if fatal:
                dyn.setdefault('fatal:%s' % fatal.group(0)[13:60].strip().replace(' ', '-'),
                               ('the test process died: %s' % fatal.group(0), dict(params, log=out[-6000:])))
            elif 'build failed' in out or '[build failed]' in out or 'cannot find' in out:
                chk.corr_broken('harness', 'go test -race did not build:\n' + out[-3000:])
                continue
            else:
                chk.corr_broken('harness', 'harness did not complete (rc=%d):\n%s' % (rc, out[-3000:]))
        for ph in (res or {}).get('phases', []):
            for c, v in ph['calls'].items():
                calls[c] += v
                if ph['goroutines'] > 1:
                    kinds.add((ph['name'], c))
            for c, v in ph['panics'].items():
                panics[c] += v
            if ph['completed']:
                phases_done += 1
            else:
                stuck = ph.get('stuck', '')
                blocked = sorted(set(re.findall(r'\(\*nriPlugin\)\.(\w+)|\(\*resmgr\)\.(reconfigure)', stuck)))
                names = sorted({a or b for a, b in blocked})
                dyn.setdefault('deadlock:%s' % '+'.join(names or [ph['name']]),
                               ('phase %s did not complete within the budget (%d goroutines); blocked in %s' % (ph['name'], ph['goroutines'], names),
                                dict(params, phase=ph['name'], goroutines=stuck[:8000])))
            if ph.get('fetch_stale'):
                dyn.setdefault('fetch-result-not-visible:GetPodResources',
                               ('%d of %d readers that arrived after the fetch was started saw no result' % (ph['fetch_stale'], ph['fetch_reads']),
                                dict(params, phase='fetch')))
            if ph['completed'] and ph['name'] in ('seq', 'lifecycle', 'reconfigure'):
                if ph['pods_left'] or ph['containers_left'] or ph.get('post_lifecycle') != 'ok':
                    dyn.setdefault('state-after-concurrency:%s' % ph['name'],
                                   ('after all pods were removed: %d pods, %d containers left; a fresh lifecycle: %s' % (ph['pods_left'], ph['containers_left'], ph.get('post_lifecycle')),
                                    dict(params, phase=ph['name'])))
        reps = c15_race.parse_reports(c15_race.load_dir(rdir))
        nreports += len(reps)
        for rep in reps:
            if sk is None:
                sigs, desc = ['race:unattributed'], 'translator refused, race not attributed'
            else:
                sigs, desc = classify(rep, sk)
            for sig in sigs:
                dyn.setdefault(sig, ('data race: ' + desc, dict(params, race=trim(rep))))
        if 'DATA RACE' in out and not reps:
            chk.corr_broken('race-log', 'the race detector reported races but none could be parsed:\n' + out[-2000:])

    # ---------------- decide
    for sig in sorted(set(static) | set(dyn)):
        if sig in dyn:
            what, rp = dyn[sig]
            if sig in static:
                what += ' [also: %s]' % static[sig]
                h = sig.split(':', 1)[1]
                rp = dict(rp, skeleton=[s for x in (sk.handlers if sk else []) if x['name'] == h for s in x['steps']])
            chk.violation(sig, what, rp)
        else:
            known = any(kf['property'] == 'C15' and kf['signature'] == sig for kf in known_findings())
            if known:
                chk.violation(sig, static[sig], {})
            else:
                h = sig.split(':', 1)[1]
                chk.broken.append(('proof', 'gen obligation (%s)' % sig,
                                   static[sig] + '\n' + json.dumps([s for x in (sk.handlers if sk else []) if x['name'] == h for s in x['steps']], indent=0)[:3000]))

    total_calls = sum(calls.values())
    chk.samples.append({'handler calls': dict(calls), 'race reports': nreports, 'runs': runs})
    return chk.finish(
        rule='a case is one invocation of a real NRI handler / reconfigure issued while other goroutines issue handlers on the same resmgr under the Go race detector; '
             'distinct_nontrivial counts the distinct (phase, handler) kinds that ran in a phase with >= 2 goroutines. Static part: %d extracted skeletons' % nhandlers,
        evaluations=total_calls + nhandlers, distinct=len(kinds), traces=phases_done,
        extra_cov={'handler_calls': dict(calls), 'race_reports': nreports, 'phases_completed': phases_done, 'runs': len(runs),
                   'panics_recovered_in_handlers': dict(panics), 'skeletons': nhandlers,
                   'static_findings': sorted(static), 'dynamic_findings': sorted(dyn)})


def _warm_overlays():
    return overlays(os.path.join(BUILD, 'c15warm'))


WARM = [('./pkg/resmgr/', _warm_overlays())]
