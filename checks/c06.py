"""C06: memory allocator operations are transactional; stale offers are rejected (libmem)."""
import libmem_common
from libmem_common import WARM


def run(tier, seed, replay=None):
    return libmem_common.run_check('C06', tier, seed, replay)
