"""C08: CPU allocator contract (pkg/cpuallocator): exact count, subset, set bookkeeping, determinism."""
import os, json, re
from vlib import *
import machines, c08_gen

PKG = './pkg/cpuallocator/'
SHARD = 120          # cases per Coq file


def overlays(work):
    """harness + a copy of the shared sysfs renderer with the package clause rewritten"""
    gen = os.path.join(BUILD, 'c08_sysfsgen.go')
    src = open(os.path.join(VERIF, 'harness/common/sysfsgen.go')).read().replace('package PKGNAME', 'package cpuallocator')
    if not os.path.exists(gen) or open(gen).read() != src:
        with open(gen, 'w') as f:
            f.write(src)
    return {'pkg/cpuallocator/zz_verif_c08_test.go': os.path.join(VERIF, 'harness/c08/c08_test.go'),
            'pkg/cpuallocator/zz_verif_sysfsgen_test.go': gen}


# ---------------------------------------------------------------- Coq printing

def nlist(xs):
    return '[' + ';'.join('%d%%N' % x for x in xs) + ']'


def cset(xs):
    return '(mkset %s)' % nlist(sorted(xs))


def topo_term(t):
    cpupkg = dict((a, b) for a, b in t['cpupkg'])
    core = {c['id']: c['cpus'] for c in t['core']}
    cpus = ';\n  '.join('CpuInfo %d%%N %s %s' % (i, zlit(cpupkg[i]), cset(core.get(i, []))) for i in t['cpuids'])
    pkgs = ';\n  '.join('(%s, %s)' % (zlit(p['id']), cset(p['cpus'])) for p in t['pkg'])
    cls = ';\n  '.join('Cluster %s %s %s %s %s' % (zlit(c['pkg']), zlit(c['die']), zlit(c['cluster']), cset(c['cpus']), zlit(c['kind'])) for c in t['clusters'])
    grs = ';\n  '.join('CGroup %s %s %s %s %s %s' % (zlit(g['id']), zlit(g['pkg']), zlit(g['die']), zlit(g['node']), cset(g['cpus']), zlit(g['kind'])) for g in t['groups'])
    return ('Topo\n [%s]\n %s\n [%s]\n %s %s %s %d\n [%s]\n [%s]'
            % (cpus, cset(t['offline']), pkgs, cset(t['prio'][0]), cset(t['prio'][1]), cset(t['prio'][2]), t['nkinds'], cls, grs))


def obs_term(c, o):
    return 'Obs %d %s %s %s %s %s %s %s %s' % (
        c['id'], coq_bool(c['op'] == 'release'), nlist(c['from']), zlit(c['cnt']), zlit(c['prefer']), zlit(c['flags']),
        coq_bool(o['err']), nlist(o['result']), nlist(o['from']))


HDR = ('From stdpp Require Import gmap sets.\nFrom Coq Require Import ZArith.\nFrom NV Require Import CpuAlloc_Model.\n'
       'Open Scope Z_scope.\n')


# ---------------------------------------------------------------- oracle

def oracle(chk, name, src, c, o, stats):
    """the clauses of the statement evaluated directly on the implementation's outputs"""
    frm = set(c['from'])
    n = c['cnt']
    rp = dict(machine=src, case={k: c[k] for k in ('op', 'from', 'cnt', 'prefer', 'flags')})
    r1, r2 = o['run1'], o['run2']
    what = '%s %s(from=%s, cnt=%d, prefer=%d, flags=%d)' % (name, c['op'], machines_cpulist(c['from']), n, c['prefer'], c['flags'])
    for r in (r1, r2):
        if r['panic']:
            chk.violation('panic', what + ' panics: ' + r.get('msg', ''), rp)
            return
    if (r1['result'], r1['from'], r1['err']) != (r2['result'], r2['from'], r2['err']):
        chk.violation('nondeterministic', what + ': two runs on fresh allocators differ: %s/%s vs %s/%s' % (
            machines_cpulist(r1['result']), machines_cpulist(r1['from']), machines_cpulist(r2['result']), machines_cpulist(r2['from'])), rp)
    r3 = o.get('run3')
    if r3 is not None and (r3['panic'] or (r1['result'], r1['from'], r1['err']) != (r3['result'], r3['from'], r3['err'])):
        chk.violation('history-dependent', what + ': the allocator that served the earlier cases answers %s/%s%s, a fresh one %s/%s' % (
            machines_cpulist(r3['result']), machines_cpulist(r3['from']), ' (panic)' if r3['panic'] else '', machines_cpulist(r1['result']), machines_cpulist(r1['from'])), rp)
    res, aft = set(r1['result']), set(r1['from'])
    if c['op'] == 'alloc':
        if n > len(frm):
            stats['too_many'] += 1
            if not r1['err']:
                chk.violation('too-many-no-error', what + ': more CPUs requested than available but no error', rp)
            if aft != frm or res:
                chk.violation('too-many-set-changed', what + ': failed request changed the set or returned CPUs', rp)
            return
        if r1['err']:
            chk.violation('alloc-spurious-error', what + ': error although cnt <= |from|', rp)
            return
        if len(res) != n:
            chk.violation('alloc-wrong-count', what + ': returned %d CPUs (%s)' % (len(res), machines_cpulist(r1['result'])), rp)
        if not res <= frm:
            chk.violation('alloc-not-subset', what + ': returned CPUs outside the set: %s' % machines_cpulist(sorted(res - frm)), rp)
        if aft != frm - res:
            chk.violation('alloc-set-bookkeeping', what + ': set after the call is %s, expected from minus result %s' % (
                machines_cpulist(r1['from']), machines_cpulist(sorted(frm - res))), rp)
    else:
        if n > len(frm):
            return
        if r1['err']:
            chk.violation('release-spurious-error', what + ': error although cnt <= |from|', rp)
            return
        # ReleaseCpus(from, n): *from is left holding the n released CPUs, the rest is returned
        if len(aft) != n or not aft <= frm:
            chk.violation('release-wrong-count', what + ': set after the call is %s (expected %d CPUs of the original)' % (machines_cpulist(r1['from']), n), rp)
        if res != frm - aft:
            chk.violation('release-set-bookkeeping', what + ': returned %s, expected the other CPUs %s' % (
                machines_cpulist(r1['result']), machines_cpulist(sorted(frm - aft))), rp)


def machines_cpulist(ids):
    s = sorted(ids)
    parts, i = [], 0
    while i < len(s):
        j = i
        while j + 1 < len(s) and s[j + 1] == s[j] + 1:
            j += 1
        parts.append(str(s[i]) if i == j else '%d-%d' % (s[i], s[j]))
        i = j + 1
    return ','.join(parts) or '-'


# ---------------------------------------------------------------- main

def select_machines(tier, rng, seed):
    fixed = c08_gen.fixed_machines(rng)
    repo = ('repo-2s4n40c', 'tbz2', os.path.join(REPO, c08_gen.REPO_TARBALL.split(':')[0]) + ':' + c08_gen.REPO_TARBALL.split(':')[1])
    if tier == 'quick':
        ms = [fixed[0], fixed[1 + seed % 4], c08_gen.random_machine(rng, 0, max_cpus=40)]
        return [(m['name'], 'json', m) for m in ms] + [repo]
    ms = list(fixed)
    k = 0
    while len(ms) < 39:
        ms.append(c08_gen.random_machine(rng, k))
        k += 1
    return [(m['name'], 'json', m) for m in ms] + [repo]


def run(tier, seed, replay=None):
    chk = Check('C08', tier, seed)
    rng = chk.rng
    W = chk.work
    chk.assumptions += [
        "model input is the allocator's own view (topologyCache + sysfs.System accessors) dumped by the in-package harness; discovery itself (sysfs -> topologyCache, SST) is not modelled here",
        "Go's sort.Slice / slices.SortFunc: assumed to return a sorted permutation; modelled exactly (insertion sort) for <= 12 elements; for longer candidate lists exact results are compared only where the order is forced (unique sorted permutation), contract-level otherwise",
        "cpuset.CPUSet operations (Union/Difference/Intersection/Size/List) modelled as finite-set operations (std++ gset N)",
        "repeatability of the implementation is validated (every case run twice on fresh allocators over separately discovered systems), not proved",
    ]
    chk.prove('C08_Props')

    ov = overlays(W)
    # ---- machines
    if replay:
        rp = json.load(open(replay))['replay']
        src = rp['machine']
        sel = [(src['name'], src['kind'], src['data'])]
    else:
        sel = select_machines(tier, rng, seed)
    lines, srcs = [], {}
    for name, kind, data in sel:
        if kind == 'json':
            p = os.path.join(W, 'm_%s.json' % name)
            machines.dump(data, p)
            lines.append('%s json %s' % (name, p))
            srcs[name] = dict(name=name, kind='json', data={k: v for k, v in data.items() if not k.startswith('_')})
        else:
            lines.append('%s %s %s' % (name, kind, data))
            srcs[name] = dict(name=name, kind=kind, data=data)
    with open(os.path.join(W, 'machines.txt'), 'w') as f:
        f.write('\n'.join(lines) + '\n')
    rc, out, dt = go_test(PKG, ov, '^TestVerifC08$', env={'VERIF_OUT': W, 'VERIF_MODE': 'topo'}, timeout=300)
    topos = {}
    for name, _, _ in sel:
        p = os.path.join(W, 'topo_%s.json' % name)
        if rc != 0 or not os.path.exists(p):
            chk.corr_broken('harness', 'go test (topology dump) failed:\n' + out[-3000:])
            return chk.finish(rule='harness failed')
        topos[name] = json.load(open(p))
        if os.path.exists(os.path.join(W, 'topo2_%s.json' % name)):
            chk.violation('nondeterministic-discovery', 'two discoveries of machine %s give different allocator topologies' % name, dict(machine=srcs[name]))

    # ---- cases
    all_cases = {}
    budget = 400 if tier == 'quick' else 900
    for name, _, _ in sel:
        t = topos[name]
        if replay:
            c = dict(rp['case'])
            c.update(id=0, tag='replay')
            cases = [c]
        else:
            exhaustive = tier != 'quick' and len(t['online']) <= 12
            b = budget if len(t['online']) <= 48 else budget // 3
            cases = c08_gen.cases_for(t, rng, b, exhaustive=exhaustive)
        all_cases[name] = cases
        with open(os.path.join(W, 'cases_%s.jsonl' % name), 'w') as f:
            for c in cases:
                f.write(json.dumps({k: c[k] for k in ('id', 'op', 'from', 'cnt', 'prefer', 'flags')}) + '\n')
    rc, out, dt = go_test(PKG, ov, '^TestVerifC08$', env={'VERIF_OUT': W, 'VERIF_MODE': 'run'}, timeout=900)
    if rc != 0:
        chk.corr_broken('harness', 'go test (cases) failed:\n' + out[-3000:])
        return chk.finish(rule='harness failed')

    # ---- oracle + Coq case files
    stats = dict(too_many=0, ood_silent_failures=0)
    files = []
    nevals, distinct, tags, sizes = 0, set(), {}, {}
    for name, _, _ in sel:
        t = topos[name]
        outs = [json.loads(l) for l in open(os.path.join(W, 'out_%s.jsonl' % name))]
        cases = all_cases[name]
        if len(outs) != len(cases):
            chk.corr_broken('harness', 'machine %s: %d cases, %d outputs' % (name, len(cases), len(outs)))
            continue
        for c, o in zip(cases, outs):
            nevals += 2
            if c['tag'] == 'ood-offline':
                # outside the quantifier of the property (candidate set not online); compared with the model only
                r = o['run1']
                if not r['err'] and not r['panic'] and c['cnt'] <= len(c['from']) and len(r['result']) != c['cnt']:
                    stats['ood_silent_failures'] += 1
                continue
            oracle(chk, name, srcs[name], c, o, stats)
            tags[c['tag']] = tags.get(c['tag'], 0) + 1
            if 0 < c['cnt'] < len(c['from']):
                distinct.add((name, c['op'], tuple(c['from']), c['cnt'], c['prefer'], c['flags']))
        sizes[name] = dict(cpus=len(t['cpuids']), online=len(t['online']), packages=len(t['pkg']), clusters=len(t['clusters']),
                           cache_groups=len(t['groups']), kinds=t['nkinds'], prio=[len(x) for x in t['prio']], cases=len(cases))
        # consistency of the dump with what the model assumes about the accessors
        if t['offline'] != t['offline2'] or sorted(set(t['cpuids']) - set(t['offline'])) != sorted(t['online']) \
                or [p['id'] for p in t['pkg']] != t['pkgids'] or [c['id'] for c in t['core']] != t['cpuids']:
            chk.corr_broken('topology dump ' + name, 'accessor relations assumed by the model do not hold (Offlined/OfflineCPUs/CPUIDs/PackageIDs)')
        tt = topo_term(t)
        shard = SHARD if len(t['cpuids']) <= 48 else SHARD // 3
        for k in range(0, len(cases), shard):
            p = os.path.join(W, 'cases_%s_%04d.v' % (re.sub(r'[^A-Za-z0-9]', '_', name), k // shard))
            with open(p, 'w') as f:
                f.write(HDR)
                f.write('Definition T : topo :=\n%s.\n' % tt)
                f.write('Definition cs : list obs := [\n %s].\n' % ';\n '.join(obs_term(c, o['run1']) for c, o in zip(cases[k:k + shard], outs[k:k + shard])))
                f.write('Definition W := Eval vm_compute in (bool_decide (topo_wf T), bool_decide (online T = mkset %s)).\nPrint W.\n' % nlist(t['online']))
                f.write('Definition M := Eval vm_compute in mismatches T cs.\nPrint M.\n')
                f.write('Definition U := Eval vm_compute in unforced T cs.\nPrint U.\n')
                f.write('Definition L := Eval vm_compute in level_hist T cs.\nPrint L.\n')
            files.append((name, k, p))
        if len(chk.samples) < 6 and cases:
            c, o = cases[len(cases) // 2], outs[len(cases) // 2]
            chk.samples.append(dict(machine=name, op=c['op'], frm=machines_cpulist(c['from']), cnt=c['cnt'], prefer=c['prefer'], flags=c['flags'],
                                    result=machines_cpulist(o['run1']['result']), after=machines_cpulist(o['run1']['from']), err=o['run1']['err']))
    results = coq_eval_many([p for _, _, p in files], timeout=1500)
    n_exact = n_contract = 0
    lvls = [0, 0, 0]
    for (name, k, p), (rc, out) in zip(files, results):
        m, u, w = parse_coq_print(out, 'M'), parse_coq_print(out, 'U'), parse_coq_print(out, 'W')
        if rc != 0 or m is None or u is None or w is None:
            chk.corr_broken('%s[%d..]' % (name, k), 'coqc failed on %s:\n%s' % (p, out[-1500:]))
            continue
        if re.sub(r'\s+', '', w) != '(true,true)':
            chk.corr_broken('topology ' + name, 'dumped topology is not well-formed / online set differs (topo_wf, online) = %s (%s)' % (w, p))
        mm = re.findall(r'\((-?\d+),\s*(-?\d+)\)', m)
        mm = [x for x in mm if not (int(x[1]) == 5 and all_cases[name][int(x[0])]['tag'] == 'ood-offline')]
        if mm:
            kinds = {2: 'model says error', 3: 'implementation returned an error, model does not', 4: 'result differs from the predicted set',
                     5: 'contract violated (order not predicted)'}
            i, v = int(mm[0][0]), int(mm[0][1])
            c = all_cases[name][i]
            chk.corr_broken('%s case %d' % (name, i), 'model and implementation differ on %d case(s) of %s; first: case %d %s(from=%s, cnt=%d, prefer=%d, flags=%d): %s (%s)' % (
                len(mm), name, i, c['op'], machines_cpulist(c['from']), c['cnt'], c['prefer'], c['flags'], kinds.get(v, v), p))
        nu = len(re.findall(r'-?\d+', u))
        lv = parse_coq_print(out, 'L')
        for i, x in enumerate(re.findall(r'\d+', (lv or '').replace('%N', ''))[:3]):
            lvls[i] += int(x)
        ncs = min(len(all_cases[name]) - k, SHARD if len(topos[name]['cpuids']) <= 48 else SHARD // 3)
        n_contract += nu
        n_exact += ncs - nu - len(mm)

    ncases = sum(len(v) for v in all_cases.values())
    return chk.finish(
        rule='one evaluation = one AllocateCpus/ReleaseCpus call on a fresh allocator (every case is run twice); distinct_nontrivial counts distinct '
             '(machine, op, candidate set, count, priority, flags) with 0 < count < |set| (the multi-stage chooser runs)',
        evaluations=nevals, distinct=len(distinct), traces=ncases,
        extra_cov={'machines': sizes, 'subset_kinds': tags, 'too_many_cases': stats['too_many'], 'out_of_domain_offline_cases_with_silent_failure': stats['ood_silent_failures'],
                   'coq_case_files': len(files), 'cases_compared_exactly': n_exact, 'cases_by_order_level': {'0_all_sorts_forced': lvls[0], '1_unforced_sort_le_12_elements': lvls[1], '2_order_not_predicted': lvls[2]}, 'cases_compared_contract_level_only': n_contract,
                   'exhaustive_subsets_for': [n for n, s in sizes.items() if tier != 'quick' and s['online'] <= 12]})


WARM = [(PKG, overlays(None))]
