"""C03: topology-aware -- pool CPU capacity is never oversubscribed; grants match requests."""
from fscheck import *
from checks.c01 import gen_scripts, oracle_pass


def run(tier, seed, replay=None):
    chk = Check('C03', tier, seed)
    chk.assumptions += [
        'model TA_Model.v (see C01); the capacity theorem holds for every history without any guard: allocation and reinstatement themselves refuse to take CPUs the pools below need (repairs of K2), and the model carries the same tests (spare_okb / spare_allb)',
        'eligibility table cpu_prefs = cpuAllocationPreferences: compared on every (inputs, output) pair observed; inputs are the results of the policy\'s own annotation helpers (their parsing is C18/C14 territory)',
        'cpu.shares: told_shares compared with the cache value of every granted pinned container after every event',
    ]
    chk.prove('C03_Props')
    zoo, paths = prepare_machines(chk)
    binary = build(chk)
    if not binary:
        return chk.finish(rule='harness build failed')
    scripts = gen_scripts(chk, tier, zoo, paths, profiles=('fill', 'brim', 'brim', 'mixed', 'mem'))
    scripts = maybe_replay(chk, replay, scripts, zoo, paths)
    traces = run_histories(chk, binary, [{k: v for k, v in s.items() if not k.startswith('_')} for s in scripts])
    nfind = oracle_pass(chk, scripts, traces, ('C03',))
    stats, bad, guard_fail = ta_correspondence(chk, traces, scripts=scripts, guards=True)
    # consistency of theorem and observation: an oversubscribed pool must be preceded by a failed guard
    for sc in scripts:
        recs = traces.get(sc['name']) or []
        cfgs = configs_along(sc, recs)
        overs = [r['seq'] for r, (cfg, _) in zip(recs, cfgs)
                 if any(f['prop'] == 'C03' and f['clause'] == 'shared-capacity' for f in fsoracle.ta_state_findings(r, cfg, sc['_machine']))]
        if overs and not guard_fail.get(sc['name']):
            chk.corr_broken('C03_capacity:' + sc['name'],
                            'history %s: a pool is oversubscribed after event %d although every operation passed the guard of the capacity theorem' % (sc['name'], overs[0]))
    nt = sum(1 for r in traces.values() if nontrivial_history(r))
    events = sum(len(r) for r in traces.values())
    chk.samples += [{'history': s['name'], 'machine': s['_machine']['name'], 'config': s['config'], 'first_events': [e['op'] for e in s['events'][:12]]} for s in scripts[:2]]
    return chk.finish(
        rule='random structured NRI histories biased to fill pools (many whole-CPU Guaranteed containers mixed with shared ones) on 10 synthetic machines (the corpus of recorded histories is replayed first, 3 copies each); '
             'non-trivial = >=2 live containers at once, >=1 exclusive grant, >=1 release and >=1 request that changed another container',
        evaluations=events, distinct=nt, traces=stats['traces'],
        extra_cov={'histories': len(traces), 'events': events, 'model_ops': dict(stats),
                   'oracle_findings': {'%s/%s' % k: v for k, v in nfind.items()}})


WARM = []
