"""C13: reconfiguration -- idempotent, atomic when rejected, invariant-preserving."""
from fscheck import *
from fsoracle import F

RES = ('cpus', 'mems', 'shares', 'quota', 'period', 'memlimit')


def gen(chk, tier, zoo, paths):
    rng = chk.rng
    n = 24 if tier == 'quick' else 300
    scripts = []
    for policy in ('topology-aware', 'balloons'):
        for i in range(n):
            m = rng.choice(zoo)
            s = fsgen.gen_history(rng, policy, m, paths[m['name']], nevents=rng.choice([40, 60, 80] if tier == 'quick' else [80, 120, 160]),
                                  profile=rng.choice(['mixed', 'light', 'fill']), name='%s%04d' % (policy[:2], i),
                                  reconfig=rng.choice([0.12, 0.2]), sync=rng.choice([0, 0.02]), restart=0)
            s['_machine'] = m
            scripts.append(s)
    return scripts


def state_sig(rec):
    """everything observable that a rejected / identical update must leave alone"""
    d = {'cache': {c['id']: tuple(c[f] for f in RES) + (c['state'],) for c in rec['cache']}, 'zones': sorted(rec['zones'], key=lambda z: (z['name'], z['type']))}
    if rec.get('ta'):
        t = rec['ta']
        d['policy'] = {'pools': [(p['name'], p['free_iso'], p['free_shar'], p['granted_shared'], p['granted_reserved'], p['mem'], p['pmem'], p['hbm']) for p in t['pools']],
                       'grants': [(g['id'], g['pool'], g['exclusive'], g['cputype'], g['portion'], g['memzone']) for g in (t['grants'] or [])],
                       'libmem': t['libmem'].get('users')}
    if rec.get('bln'):
        b = rec['bln']
        d['policy'] = {'balloons': [(x['name'], x['cpus'], x['shared_idle'], x['members'], x['mems']) for x in b['balloons']], 'free': b['free'],
                       'libmem': b['libmem'].get('users'), 'classes': rec.get('cpuclasses')}
    return d


def first_diff(a, b):
    for k in a:
        if a[k] != b.get(k):
            if isinstance(a[k], dict) and isinstance(b.get(k), dict):
                for kk in set(a[k]) | set(b[k]):
                    if a[k].get(kk) != b[k].get(kk):
                        return '%s.%s: %s -> %s' % (k, kk, a[k].get(kk), b[k].get(kk))
            return '%s: %s -> %s' % (k, str(a[k])[:200], str(b.get(k))[:200])
    return None


def run(tier, seed, replay=None):
    chk = Check('C13', tier, seed)
    chk.assumptions += [
        'theorems: resmgr apply/revert composition for every policy that is atomic on error and idempotent on the configuration in force; topology-aware bookkeeping is a function of the grant table (reinstating the same grants reproduces the state)',
        'atomicity and idempotence of the real policies are established by the oracle: the complete observable state (cache resources, pools/grants or balloons, allocator assignments, CPU classes, advertised zones) right before and right after every rejected or identical update must be equal and nothing may be pushed',
        'instead of a twin instance (placement ties are broken by Go map order, so two instances are not comparable run to run) the state is compared within one run; identical observable state implies identical subsequent decisions up to that nondeterminism',
    ]
    chk.prove('C13_Props')
    zoo, paths = prepare_machines(chk)
    binary = build(chk)
    if not binary:
        return chk.finish(rule='harness build failed')
    scripts = gen(chk, tier, zoo, paths)
    scripts = maybe_replay(chk, replay, scripts, zoo, paths)
    traces = run_histories(chk, binary, [{k: v for k, v in s.items() if not k.startswith('_')} for s in scripts])
    nfind = collections.Counter()
    kinds = collections.Counter()
    def viol(sc, f):
        nfind[(f['prop'], f['sig'])] += 1
        chk.violation(f['sig'], '%s [%s] history %s event %d: %s' % (f['prop'], f['clause'], sc['name'], f['seq'], f['what']),
                      {k: v for k, v in replay_of(sc, f['seq']).items() if not k.startswith('_')})
    for sc in scripts:
        recs = traces.get(sc['name']) or []
        cfgs = configs_along(sc, recs)
        rv = fsoracle.RuntimeView()
        prev = None
        pol = 'ta' if sc['policy'] == 'topology-aware' else 'bln'
        tainted = False      # a rejected update whose revert failed too left the state half-rewritten (K9) until the next complete application
        for rec, (cfg, _) in zip(recs, cfgs):
            if rec['seq'] < 0:
                prev = rec
                continue
            ev = sc['events'][rec['seq']]
            c5 = fsoracle.c05_findings(rv, ev, rec, prev['cache'] if prev else None)
            if rec['op'] == 'Reconfigure':
                tag = ev.get('tag', '')
                ok = rec['reply']['class'] == 'ok'
                kinds[(pol, tag.split(':')[0], 'ok' if ok else 'err')] += 1
                if rec['reply']['class'] == 'panic':
                    viol(sc, F('C13', 'no-panic', 'reconfigure-panics', rec['reply']['msg'][:200], rec['seq']))
                    prev = rec
                    continue
                a, b = state_sig(prev), state_sig(rec)
                # balloons: what matters for K9 is the phase in which the update failed, not what the generator meant:
                # a capacity failure while the new balloons are being created is 'unsatisfiable' whatever the tag
                bkind = 'unsatisfiable' if re.search(r'not enough free CPUs|resize/inflate|failed to create balloon', rec['reply'].get('msg') or '') else tag.split(':')[-1]
                if not ok:
                    d = first_diff(a, b)
                    if d:
                        viol(sc, F('C13', 'rejected-is-noop', '%s:rejected-update-changed-state:%s' % (pol, bkind if pol == 'bln' else 'revert-replaces'), 'rejected configuration (%s) changed %s' % (tag, d), rec['seq']))
                    if rec['reply'].get('pushed'):
                        changed = [u for u in rec['reply']['pushed'] if any(u.get(f) is not None and u.get(f) != a['cache'].get(u['id'], (None,) * 7)[i] for i, f in enumerate(RES))]
                        if changed:
                            viol(sc, F('C13', 'rejected-is-noop', '%s:rejected-update-pushed-changes:%s' % (pol, bkind if pol == 'bln' else 'revert-replaces'), 'rejected configuration (%s) pushed %s' % (tag, changed[:2]), rec['seq']))
                elif tag == 'same':
                    for cid, v in a['cache'].items():
                        if cid in b['cache'] and b['cache'][cid] != v:
                            # after a failed revert the configuration in force is re-applied in full on purpose (63619eb)
                            viol(sc, F('C13', 'reconfig-idempotent', '%s:identical-config-%s' % (pol, 'after-failed-revert' if tainted else 'changed-resources'),
                                       're-applying the identical configuration changed container %s: %s -> %s' % (cid, v, b['cache'][cid]), rec['seq']))
                            break
                if rec.get('revert_failed'):
                    tainted = True
                elif ok:
                    tainted = False
                if ok:
                    # accepted: invariants, no stopped container re-admitted, every change pushed
                    fs = fsoracle.ta_state_findings(rec, cfg, sc['_machine']) if rec.get('ta') else fsoracle.bln_state_findings(rec, cfg, sc['_machine'])
                    for f in fs:
                        if f['prop'] in ('C01', 'C02', 'C03', 'C04'):
                            viol(sc, dict(f, prop='C13', sig=f['prop'] + ':' + f['sig'], clause='accepted-preserves-invariants:' + f['clause']))
                        if f['prop'] == 'C09' and 'stopped' in f['sig']:
                            viol(sc, dict(f, prop='C13', clause='stopped-not-readmitted'))
                    for f in c5:
                        if f['clause'] in ('view-eq-cache', 'nothing-pending', 'no-update-to-stopped'):
                            viol(sc, dict(f, prop='C13', clause='changes-pushed:' + f['clause']))
                    # every live container still holds an allocation (if it did before)
                    hold_a = {g[0] for g in a['policy'].get('grants', [])} if rec.get('ta') else {c for x in a['policy']['balloons'] for l in x[3].values() for c in l}
                    hold_b = {g[0] for g in b['policy'].get('grants', [])} if rec.get('ta') else {c for x in b['policy']['balloons'] for l in x[3].values() for c in l}
                    live = {c['id'] for c in rec['cache'] if c['state'] in ('created', 'running')}
                    lost = (hold_a & live) - hold_b
                    if lost and tag == 'same':
                        viol(sc, F('C13', 'accepted-keeps-allocations', '%s:allocation-lost-on-identical-config' % pol, 'containers %s lost their allocation' % sorted(lost), rec['seq']))
            prev = rec
    nt = sum(1 for r in traces.values() if nontrivial_history(r))
    events = sum(len(r) for r in traces.values())
    chk.samples += [{'history': s['name'], 'policy': s['policy'], 'reconfig_events': [(i, e.get('tag')) for i, e in enumerate(s['events']) if e['op'] == 'Reconfigure'][:6]} for s in scripts[:2]]
    return chk.finish(
        rule='random histories under both policies with configuration updates injected at random request boundaries: identical configs, invalid configs of 7 rejection kinds per policy, valid changes of every generated option; '
             'non-trivial as for C01; reconfig_kinds counts (policy, kind, outcome)',
        evaluations=events, distinct=nt, traces=len(traces),
        extra_cov={'histories': len(traces), 'events': events, 'reconfig_kinds': {'/'.join(k): v for k, v in kinds.items()},
                   'oracle_findings': {'%s/%s' % k: v for k, v in nfind.items()}})


WARM = []
