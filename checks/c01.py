"""C01: topology-aware -- exclusively granted CPUs are exclusive to one container."""
from fscheck import *

PROFILE = dict(quick=(48, [20, 40, 60]), thorough=(600, [30, 60, 100, 160]))


def gen_scripts(chk, tier, zoo, paths, policy='topology-aware', profiles=('mixed', 'fill', 'mem', 'preserve'), n=None):
    rng = chk.rng
    n, lens = (n, PROFILE[tier][1]) if n else PROFILE[tier]
    scripts = []
    for i in range(n):
        m = rng.choice(zoo)
        s = fsgen.gen_history(rng, policy, m, paths[m['name']], nevents=rng.choice(lens), profile=rng.choice(profiles), name='h%04d' % i,
                              reconfig=rng.choice([0, 0, 0.05]), sync=rng.choice([0, 0.03]), restart=rng.choice([0, 0, 0.03]))
        s['_machine'] = m
        scripts.append(s)
    return scripts


# clauses judged on the cpusets/shares in the cache (what containers were told), not on pools and grants
TOLD_CLAUSES = ('exclusive-not-in-others-cpuset', 'pinned-within-available', 'no-mixing-reserved', 'reserved-only-reserved-class', 'nonempty-cpuset', 'shares-encoding')


def oracle_pass(chk, scripts, traces, props, pristine=False):
    """run the TA state oracles on every snapshot; report findings of the given properties"""
    nfind = collections.Counter()
    for sc in scripts:
        recs = traces.get(sc['name'])
        if not recs:
            continue
        cfg = sc['config']
        changed = False
        prevg = None
        ret = fsoracle.Retired()
        rq = fsoracle.Requests()
        tainted = False
        reinstated = False
        lost_at = {}
        had_cpus = {}
        for rec in recs:
            ev = sc['events'][rec['seq']] if rec['seq'] >= 0 else {}
            if ev.get('op') == 'Reconfigure' and rec['reply']['class'] == 'ok' and ev['config'] != '__CURRENT__':
                changed = changed or ev['config'] != cfg
                cfg = ev['config']
            fs = fsoracle.ta_state_findings(rec, cfg, sc['_machine'], prevg)
            # a rejected update whose revert failed too leaves the cached cpusets half-rewritten (known finding K9);
            # until the next request that re-applies every grant, what containers are told is judged under that name
            if ev.get('op') == 'Reconfigure' and rec.get('revert_failed'):
                tainted = True
            elif ev.get('op') in ('Reconfigure', 'Synchronize', 'Restart') and rec['reply']['class'] == 'ok':
                tainted = False
            if tainted:
                fs = [dict(f, sig='after-failed-revert') if f['clause'] in TOLD_CLAUSES else f for f in fs]
            # K10 (a zero-request container placed in a pool whose sharable CPUs were sliced off above) is known only where
            # grants are reinstated or re-allocated with a pool hint (configuration update, restart): before the first such
            # request of a history the pool comes from the score, which ranks a pool without sharable capacity last
            # K3 survives only where a re-allocation fails at Synchronize or in a configuration update: a container that
            # lost its grant in an UpdateContainer request (the refused update now restores it) is reported as such
            nowg = {g['id'] for g in ((rec.get('ta') or {}).get('grants') or [])}
            for cid0 in (prevg or {}):
                if cid0 not in nowg:
                    lost_at[cid0] = rec['op']
            for cid0 in nowg:
                lost_at.pop(cid0, None)
            # C01_refused_update_restores_allocation on the real code: a refused UpdateContainer leaves the container's grant as it was
            if rec['op'] == 'UpdateContainer' and rec['reply']['class'] == 'err' and prevg is not None:
                ucid = (ev.get('ctr') or {}).get('id')
                nowgr = {g['id']: g for g in ((rec.get('ta') or {}).get('grants') or [])}
                if ucid in prevg and (ucid not in nowgr or any(prevg[ucid][k] != nowgr[ucid][k] for k in ('pool', 'exclusive', 'portion', 'cputype'))):
                    fs.append(dict(fsoracle.F('C01', 'refused-update-keeps-allocation', 'refused-update-changed-allocation',
                                              'UpdateContainer of %s was refused and its allocation went from %s to %s' % (ucid, prevg[ucid], nowgr.get(ucid)), rec['seq']), ctr=ucid))
            # the same theorem probed on the state the history ends in: every grant, released and put back the way a refused
            # update does it (releasePool, reinstateGrants(.., true)), is accepted by the CPU tests of supply.reserve and
            # leaves pools and grants as they were (restore_after_release_reachable: Ok s' with st_eq s' s)
            for pr in (rec.get('restore_probe') or []):
                if (pr.get('err') and pr.get('cpu_side')) or (not pr.get('err') and not pr.get('same')):
                    fs.append(dict(fsoracle.F('C01', 'refused-update-keeps-allocation', 'release-and-restore-not-identity',
                                              'after the last event the grant of %s was released and put back as a refused update does: %s' % (
                                                  pr.get('id'), pr.get('err') or 'pools or grants differ afterwards'), rec['seq']), ctr=pr.get('id')))
            fs = [dict(f, sig=f['sig'] + ':after-update-request') if f['sig'] == 'overlapping-container-has-no-grant' and lost_at.get(f.get('ctr')) == 'UpdateContainer' else f for f in fs]
            if ev.get('op') in ('Reconfigure', 'Restart'):
                reinstated = True
            if not reinstated:
                fs = [dict(f, sig=f['sig'] + ':by-allocation') if f['sig'] == 'descendant-of-slicing-grant' and f['clause'] != 'nonempty-cpuset' else f for f in fs]
            # C03_nonempty_cpuset_once_placed: K10 is a matter of placement only.  An empty cpuset is the known finding
            # when the container never had a CPU since it was placed where it is (a placement = its grant is new or
            # changed, or the request re-places every grant); a container that HAD a non-empty cpuset under its
            # present grant and lost it was starved by somebody else's allocation or reinstatement, which the theorem
            # excludes: never known
            replaced_all = rec['op'] in ('Reconfigure', 'Restart', 'Setup', 'Synchronize')
            cachenow = {c['id']: c for c in rec['cache']}
            for g0 in ((rec.get('ta') or {}).get('grants') or []):
                pg0 = (prevg or {}).get(g0['id'])
                if replaced_all or pg0 is None or (pg0['pool'], pg0['exclusive'], pg0['portion'], pg0['cputype']) != (g0['pool'], g0['exclusive'], g0['portion'], g0['cputype']):
                    had_cpus.pop(g0['id'], None)
                if (cachenow.get(g0['id']) or {}).get('cpus'):
                    had_cpus[g0['id']] = True
            for cid0 in list(had_cpus):
                if cid0 not in nowg:
                    had_cpus.pop(cid0)
            fs = [dict(f, sig=f['sig'] + ':starved-after-placement') if f['clause'] == 'nonempty-cpuset' and f['sig'] != 'after-failed-revert' and had_cpus.get(f.get('ctr')) else f for f in fs]
            prevg = {g['id']: g for g in ((rec.get('ta') or {}).get('grants') or [])}
            fs += ret.step(ev, rec)
            if rec['seq'] >= 0:
                fs += rq.step(ev, rec)
            if pristine and rec.get('tag') == 'quiescent':
                fs += fsoracle.ta_pristine_findings(recs[0], rec, not changed)
            for f in fs:
                if f['prop'] in props:
                    nfind[(f['prop'], f['sig'])] += 1
                    chk.violation(f['sig'], '%s [%s] history %s event %d: %s' % (f['prop'], f['clause'], sc['name'], f['seq'], f['what']),
                                  {k: v for k, v in replay_of(sc, f['seq']).items() if not k.startswith('_')})
    return nfind


def run(tier, seed, replay=None):
    chk = Check('C01', tier, seed)
    chk.assumptions += [
        'model TA_Model.v: CPU bookkeeping of the topology-aware policy, choice-parametric (pool and CPUs picked by the scoring code and the CPU allocator are inputs read from the implementation snapshot)',
        'tree_wfb holds for the pool trees the policy builds (C16); evaluated on every trace',
        'tie: full-stack harness (real resmgr + policy on synthetic sysfs) -> traces evaluated by TA_Model.check_segments inside Coq; oracle evaluates the clauses on snapshots + cache',
        'modelled not verified: scoring/sorting of pools, cpuallocator choice (C08), hint/affinity code, Go runtime',
        'restore probe: after the last event of every history each grant is released and put back as a refused update does (harness-only call of releasePool + reinstateGrants(..,true)); it ties C01_refused_update_restores_allocation to the code on the final state of each history only',
        'containers without a grant (stale pinning after a failed update, K3) are outside the theorem; the oracle reports them with their own signature',
    ]
    chk.prove('C01_Props')
    zoo, paths = prepare_machines(chk)
    binary = build(chk)
    if not binary:
        return chk.finish(rule='harness build failed')
    scripts = gen_scripts(chk, tier, zoo, paths)
    scripts = maybe_replay(chk, replay, scripts, zoo, paths)
    traces = run_histories(chk, binary, [{k: v for k, v in s.items() if not k.startswith('_')} for s in scripts])
    nfind = oracle_pass(chk, scripts, traces, ('C01',))
    stats, bad = ta_correspondence(chk, traces, scripts=scripts)
    pstats = pins_correspondence(chk, traces, scripts)
    pstats['distinct_trees_nested'] = nested_trees_check(chk, traces)
    nt = sum(1 for r in traces.values() if nontrivial_history(r))
    events = sum(len(r) for r in traces.values())
    probes = [p for r in traces.values() for rec in r for p in (rec.get('restore_probe') or [])]
    pstats['restore_probe'] = {'grants_released_and_put_back': len(probes), 'accepted_and_identical': sum(1 for p in probes if not p.get('err') and p.get('same')),
                               'grant_fills_its_pool_exactly': sum(1 for p in probes if p.get('fills_pool')),
                               'refused_by_memory_side': sum(1 for p in probes if p.get('err') and not p.get('cpu_side'))}
    chk.samples += [{'history': s['name'], 'machine': s['_machine']['name'], 'config': s['config'], 'first_events': [e['op'] for e in s['events'][:12]]} for s in scripts[:2]]
    return chk.finish(
        rule='random structured NRI histories (create/start/update/stop/remove, synchronize, reconfigure, restart) on 10 synthetic machines (the corpus of recorded histories is replayed first, 3 copies each); '
             'non-trivial = >=2 live containers at once, >=1 exclusive grant, >=1 release and >=1 request that changed another container',
        evaluations=events, distinct=nt, traces=stats['traces'],
        extra_cov={'histories': len(traces), 'events': events, 'model_ops': {k: v for k, v in stats.items()}, 'pins': dict(pstats),
                   'oracle_findings': {'%s/%s' % k: v for k, v in nfind.items()}})


WARM = []
