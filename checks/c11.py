"""C11: restart + Synchronize converges to the runtime's truth."""
from fscheck import *
from fsoracle import F

ST = {'creating': 'Creating', 'created': 'Created', 'running': 'Running', 'exited': 'Exited', 'stopped': 'Exited', 'stale': 'Stale'}


def gen(chk, tier, zoo, paths):
    rng = chk.rng
    n = 24 if tier == 'quick' else 300
    scripts = []
    for policy in ('topology-aware', 'balloons'):
        for i in range(n):
            m = rng.choice(zoo)
            s = fsgen.gen_history(rng, policy, m, paths[m['name']], nevents=rng.choice([30, 50, 70] if tier == 'quick' else [60, 100, 150]),
                                  profile=rng.choice(['light', 'light', 'mixed']), name='%s%04d' % (policy[:2], i),
                                  reconfig=rng.choice([0, 0.03]), sync=rng.choice([0.02, 0.05]), restart=rng.choice([0.05, 0.1, 0.15]))
            s['_machine'] = m
            scripts.append(s)
    return scripts


def holders(rec):
    """ids holding an allocation in the policy snapshot"""
    if rec.get('ta'):
        return {g['id'] for g in (rec['ta']['grants'] or [])}
    if rec.get('bln'):
        return {c for x in rec['bln']['balloons'] for l in x['members'].values() for c in l}
    return set()


def run(tier, seed, replay=None):
    chk = Check('C11', tier, seed)
    chk.assumptions += [
        'model Sync_Model.v: RefreshPods/RefreshContainers/syncWithNRI classification; theorem for every cache content and every well-formed runtime listing',
        'allocation invariants after Synchronize are the C01-C04 theorems (they hold for every operation sequence); evaluated here by the same oracles on the post-Synchronize state',
        'restart = new resource-manager instance on the same state directory; the on-disk cache is whatever the last Save wrote, which includes saves made in the middle of requests (saveAllocations before applyGrant, InsertContainer in state creating)',
        'runtime state at restart: listing derived from the history with random removals and state changes',
        'Persist_Model.v: the cache file is compared with the live cache after every request; gen_flush_saves is re-extracted from getPendingUpdates by flush2coq on every run',
    ]
    chk.prove('C11_Props')
    zoo, paths = prepare_machines(chk)
    binary = build(chk)
    if not binary:
        return chk.finish(rule='harness build failed')
    scripts = gen(chk, tier, zoo, paths)
    scripts = maybe_replay(chk, replay, scripts, zoo, paths)
    traces = run_histories(chk, binary, [{k: v for k, v in s.items() if not k.startswith('_')} for s in scripts])
    nfind = collections.Counter()
    cases = []
    nsync = nrestart = ndisk = 0
    pcases = []
    def viol(sc, f):
        nfind[(f['prop'], f['sig'])] += 1
        chk.violation(f['sig'], '%s [%s] history %s event %d: %s' % (f['prop'], f['clause'], sc['name'], f['seq'], f['what']),
                      {k: v for k, v in replay_of(sc, f['seq']).items() if not k.startswith('_')})
    for sc in scripts:
        recs = traces.get(sc['name']) or []
        cfgs = configs_along(sc, recs)
        rv = fsoracle.RuntimeView()
        prev = None
        ids, pids = {}, {}
        held_before, live_before = set(), set()
        never_admitted = set()   # containers whose creation the plugin refused: the runtime would not list them
        cid = lambda c: ids.setdefault(c, len(ids))
        pid = lambda p: pids.setdefault(p, len(pids))
        pcase = []
        pcases.append((sc['name'], pcase))
        for rec, (cfg, _) in zip(recs, cfgs):
            if rec['seq'] < 0:
                prev = rec
                continue
            ev = sc['events'][rec['seq']]
            for f in fsoracle.c05_findings(rv, ev, rec, prev['cache'] if prev else None):
                if rec['op'] == 'Synchronize' and f['clause'] == 'view-eq-cache':
                    viol(sc, dict(f, prop='C11', clause='updates-bring-runtime-in-line'))
            # the cache file vs the live cache (what a restart right now would start from)
            if rec['op'] != 'Restart' and rec.get('disk') is not None:
                disk = {c['id']: c for c in rec['disk']}
                stale = sorted(c['id'] for c in rec['cache'] if c['id'] not in disk or
                               (c['cpus'], c['mems'], c['shares']) != (disk[c['id']]['cpus'], disk[c['id']]['mems'], disk[c['id']]['shares']))
                flushes = rec['op'] in ('CreateContainer', 'UpdateContainer', 'StopContainer', 'Synchronize', 'Reconfigure') and rec['reply']['class'] == 'ok'
                writes = []
                for call in rec.get('calls') or []:
                    if call[0].startswith('Set') and call[0] != 'SetResourceUpdates' and call[1] not in writes:
                        writes.append(call[1])
                pcase.append('({| p_calls := [%s]; p_flushes := %s |}, [%s])' % ('; '.join('PWrite %d' % cid(w) for w in writes), coq_bool(flushes), '; '.join(str(cid(x)) for x in stale)))
                ndisk += 1
                if flushes and stale:
                    c0 = next(c for c in rec['cache'] if c['id'] == stale[0])
                    viol(sc, F('C11', 'saved-cache-in-line', 'cache-file-stale-after-flushed-request',
                               '%s replied ok, but the cache file a restart would load differs from the live cache for %s (e.g. %s: live cpus=%r shares=%r, file %r)' % (
                                   rec['op'], stale, c0['id'], c0['cpus'], c0['shares'], disk.get(c0['id'])), rec['seq']))
            if rec['op'] == 'Restart':
                pcase = []      # the model restarts from the file: nothing stale
                pcases.append((sc['name'], pcase))
            if rec['op'] == 'CreateContainer':
                (never_admitted.add if rec['reply']['class'] != 'ok' else never_admitted.discard)(ev['ctr']['id'])
            if rec['op'] == 'Restart':
                nrestart += 1
            if rec['op'] not in ('Synchronize', 'Restart'):
                held_before = holders(rec)
                live_before = {c['id'] for c in rec['cache'] if c['state'] in ('created', 'running')}
            if rec['op'] == 'Synchronize' and rec['reply']['class'] == 'ok':
                nsync += 1
                listed = {c['id']: c for c in ev['ctrs']}
                lpods = {p['id'] for p in ev['pods']}
                hold = holders(rec)
                cache = {c['id']: c for c in rec['cache']}
                seq = rec['seq']
                for c, lc in listed.items():
                    live = lc.get('state') in ('created', 'running') and lc['pod'] in lpods if 'pod' in lc else lc.get('state') in ('created', 'running')
                    cc = cache.get(c)
                    demand_grew = not ({k for k, v in listed.items() if v.get('state') in ('created', 'running')} <= live_before) or not (live_before <= held_before)
                    # ... or when the listing reports a live container with a larger CPU request than the plugin knew
                    # (the generated runtime may "apply" an update the plugin refused)
                    before = {x['id']: x for x in (prev['cache'] if prev else [])}
                    for k, v in listed.items():
                        sh = (v.get('res') or {}).get('shares')
                        if v.get('state') in ('created', 'running') and sh is not None and k in before and fsoracle.shares_to_milli(sh) > before[k]['cpureq'] + 1:
                            demand_grew = True
                    # an allocation can legitimately fail for lack of capacity -- re-allocating the same containers in another
                    # order is a greedy packing and every pool with a container on its shared CPUs keeps one CPU -- so the
                    # clause is judged only where capacity cannot be the reason: the container held an allocation before, the
                    # set of live containers did not grow, and what the live containers ask for (1 CPU for a zero request)
                    # is at most half of the machine
                    ask = sum(max(x['cpureq'], 1000) for x in rec['cache'] if x['state'] in ('created', 'running'))
                    ncpu = sum(1 for x in sc['_machine']['cpus'] if x['online'])
                    slack = 2 * ask <= 1000 * ncpu
                    if slack and live and c not in hold and c in held_before and not demand_grew and c not in never_admitted and cc is not None and not cc.get('preserve_cpu') and not (sc['policy'] == 'balloons' and cfg.get('preserve') and cc['name'] in cfg['preserve']['matchExpressions'][0]['values']):
                        viol(sc, F('C11', 'sync-allocates-runtime-live', 'live-container-lost-allocation', 'container %s is %s at the runtime and held an allocation before, but holds none after Synchronize (no new live containers)' % (c, lc.get('state')), seq))
                    if live and cc is None and c not in never_admitted:
                        viol(sc, F('C11', 'sync-allocates-runtime-live', 'listed-live-container-not-cached', 'container %s is %s at the runtime (pod %s listed) but is not in the cache after Synchronize' % (c, lc.get('state'), lc.get('pod')), seq))
                    if not live and c in hold:
                        viol(sc, F('C11', 'sync-allocates-runtime-live', 'non-live-container-holds-allocation', 'container %s is %s at the runtime but holds an allocation after Synchronize' % (c, lc.get('state')), seq))
                for c in hold - set(listed):
                    viol(sc, F('C11', 'stale-purged', 'allocation-for-unlisted-container', 'container %s is not known to the runtime but holds an allocation after Synchronize' % c, seq))
                for c in set(cache) - set(listed):
                    viol(sc, F('C11', 'stale-purged', 'unlisted-container-still-cached', 'container %s is not known to the runtime but is still cached (%s)' % (c, cache[c]['state']), seq))
                for p in set(rec['pods']) - lpods:
                    viol(sc, F('C11', 'stale-purged', 'unlisted-pod-still-cached', 'pod %s is not known to the runtime but is still cached' % p, seq))
                # C01-C04 invariants on the post-state
                fs = fsoracle.ta_state_findings(rec, cfg, sc['_machine']) if rec.get('ta') else fsoracle.bln_state_findings(rec, cfg, sc['_machine'])
                for f in fs:
                    if f['prop'] in ('C01', 'C02', 'C03', 'C04'):
                        viol(sc, dict(f, prop='C11', sig=f['prop'] + ':' + f['sig'], clause='invariants-after-sync:' + f['clause']))
                # correspondence case for Sync_Model
                if prev is not None and all('pod' in lc for lc in listed.values()):
                    cpods = [pid(p) for p in prev['pods']]
                    cctrs = [(cid(c['id']), pid(c['pod']), ST.get(c['state'], 'Other')) for c in prev['cache']]
                    lp = [pid(p) for p in sorted(lpods)]
                    lc_ = [(cid(k), pid(v['pod']), ST.get(v.get('state'), 'Other')) for k, v in listed.items()]
                    obs_c = [(cid(c['id']), ST.get(c['state'], 'Other')) for c in rec['cache']]
                    alloc = sorted(cid(c['id']) for c in rec['cache'] if c['state'] in ('created', 'running'))
                    fmt3 = lambda l: '[%s]' % ';'.join('(%d,(%d,%s))' % x for x in l)
                    cases.append('(%s, %s, %s, %s, {| so_cached := [%s]; so_allocated := [%s] |})' % (
                        '[%s]' % ';'.join(map(str, cpods)), fmt3(cctrs), '[%s]' % ';'.join(map(str, lp)), fmt3(lc_),
                        ';'.join('(%d,%s)' % x for x in obs_c), ';'.join(map(str, alloc))))
            prev = rec
    shards = 8
    per = max(1, (len(cases) + shards - 1) // shards)
    files = []
    for k in range(0, len(cases), per):
        p = os.path.join(chk.work, 'cases_sync_%02d.v' % (k // per))
        with open(p, 'w') as f:
            f.write('From Coq Require Import List. Import ListNotations.\nFrom stdpp Require Import gmap.\nFrom NV Require Import Sync_Model.\nOpen Scope nat_scope.\n')
            f.write('Definition cs := [%s].\n' % ';\n'.join(cases[k:k + per]))
            f.write('Definition M := Eval vm_compute in map fst (filter (fun x => negb (sync_case_ok (snd x))) (combine (seq 0 (length cs)) cs)).\nPrint M.\n')
        files.append(p)
    for p, (rc, out) in zip(files, coq_eval_many(files)):
        body = parse_coq_print(out, 'M')
        if rc != 0 or body is None:
            chk.corr_broken('Sync_Model/' + os.path.basename(p), 'coqc failed:\n' + out[-1500:])
        elif body.strip() != '[]':
            chk.corr_broken('Sync_Model', 'classification differs from the implementation on cases %s of %s' % (body.strip()[:200], p))
    # persistence model: the stale set predicted from the observed writes covers the observed one
    pc = [(n, c) for n, c in pcases if c]
    pf = os.path.join(chk.work, 'cases_persist.v')
    with open(pf, 'w') as f:
        f.write('From Coq Require Import List. Import ListNotations.\nFrom stdpp Require Import gmap.\nFrom NV Require Import Persist_Model Gen.Gen_Flush.\nOpen Scope nat_scope.\n')
        f.write('Definition M := Eval vm_compute in [%s].\nPrint M.\n' % ';\n'.join('pcheck gen_flush_saves ∅ 0 [%s]' % '; '.join(c) for _, c in pc))
    (rc, out), = coq_eval_many([pf])
    body = parse_coq_print(out, 'M')
    if rc != 0 or body is None:
        chk.corr_broken('Persist_Model', 'coqc failed:\n' + out[-1500:])
    else:
        for (name, _), it in zip(pc, split_top(body.strip()[1:-1])):
            if it.strip() != 'None':
                chk.corr_broken('Persist_Model:' + name, 'history %s: the cache file is stale for a container the model says is saved (request index %s)' % (name, it.strip()))
    nt = sum(1 for r in traces.values() if nontrivial_history(r))
    events = sum(len(r) for r in traces.values())
    chk.samples += [{'history': s['name'], 'policy': s['policy'], 'restarts': sum(1 for e in s['events'] if e['op'] == 'Restart')} for s in scripts[:2]] + [{'sync_case': (cases or [''])[0][:400]}]
    return chk.finish(
        rule='random histories under both policies cut by restarts (new instance on the saved state) at random request boundaries, each followed by Synchronize with a runtime listing perturbed by removals and state changes; repeated restarts; '
             'non-trivial as for C01',
        evaluations=events, distinct=nt, traces=len(traces),
        extra_cov={'histories': len(traces), 'events': events, 'synchronize_checked': nsync, 'restarts': nrestart, 'classification_cases': len(cases), 'cache_file_comparisons': ndisk,
                   'oracle_findings': {'%s/%s' % k: v for k, v in nfind.items()}})


WARM = []
