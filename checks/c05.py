"""C05: every resource decision reaches the runtime -- runtime view equals cache view."""
from fscheck import *
import flush_corr


def gen(chk, tier, zoo, paths):
    rng = chk.rng
    n = 24 if tier == 'quick' else 300
    scripts = []
    for policy in ('topology-aware', 'balloons'):
        for i in range(n):
            m = rng.choice(zoo)
            s = fsgen.gen_history(rng, policy, m, paths[m['name']], nevents=rng.choice([30, 50, 70] if tier == 'quick' else [60, 100, 150]),
                                  profile=rng.choice(['mixed', 'fill', 'mem']), name='%s%04d' % (policy[:2], i),
                                  reconfig=rng.choice([0, 0.05, 0.1]), sync=rng.choice([0, 0.05]), restart=rng.choice([0, 0.03]))
            s['_machine'] = m
            scripts.append(s)
    return scripts


def run(tier, seed, replay=None):
    chk = Check('C05', tier, seed)
    chk.assumptions += [
        'model Flush_Model.v: mark-level semantics of the pending/flush pipeline; values delivered are compared by the oracle (update content == cache content), the model carries which containers are dirty/pending',
        'tie 1 (translator): tools/flush2coq regenerates the handler table (which handler lets the policy write, which flushes it performs) from pkg/resmgr/nri.go + resource-manager.go on every run; obligation C05_handlers_flush',
        'tie 2 (correspondence): the mutator calls of cache/container.go (auto-instrumented copy regenerated from the current source, overlay only) are replayed in the model per request; predicted pending set and set of delivered containers compared with the cache flags and the reply',
        'the theorem needs the guard "a request that does not flush makes no writes"; failing requests violate it on the unchanged tree (known finding K5)',
        'StartContainer calls policy.HandleEvent without flushing; the correspondence shows it performs no writes (cold-start completion is never delivered: events of type *events.Policy are not processed)',
    ]
    chk.prove('C05_Props')
    zoo, paths = prepare_machines(chk)
    binary = build(chk)
    if not binary:
        return chk.finish(rule='harness build failed')
    scripts = gen(chk, tier, zoo, paths)
    scripts = maybe_replay(chk, replay, scripts, zoo, paths)
    traces = run_histories(chk, binary, [{k: v for k, v in s.items() if not k.startswith('_')} for s in scripts])
    nfind = collections.Counter()
    for sc in scripts:
        recs = traces.get(sc['name']) or []
        rv = fsoracle.RuntimeView()
        prevc = None
        for rec in recs:
            if rec['seq'] < 0:
                prevc = rec['cache']
                continue
            ev = sc['events'][rec['seq']]
            for f in fsoracle.c05_findings(rv, ev, rec, prevc):
                nfind[(f['prop'], f['sig'])] += 1
                chk.violation(f['sig'], 'C05 [%s] history %s event %d: %s' % (f['clause'], sc['name'], f['seq'], f['what']),
                              {k: v for k, v in replay_of(sc, f['seq']).items() if not k.startswith('_')})
            prevc = rec['cache']
    # correspondence
    names = sorted(traces)
    shards = 16
    per = max(1, (len(names) + shards - 1) // shards)
    files, groups = [], []
    stats = collections.Counter()
    for k in range(0, len(names), per):
        grp = names[k:k + per]
        p = os.path.join(chk.work, 'cases_flush_%02d.v' % (k // per))
        for st in flush_corr.case_file(p, [(n, traces[n]) for n in grp]).values():
            stats.update(st)
        files.append(p)
        groups.append(grp)
    nbad = 0
    for grp, p, (rc, out) in zip(groups, files, coq_eval_many(files, timeout=600)):
        body = parse_coq_print(out, 'M')
        if rc != 0 or body is None:
            chk.corr_broken('Flush_Model/' + os.path.basename(p), 'coqc failed:\n' + out[-1500:])
            continue
        for n, it in zip(grp, split_top(body.strip()[1:-1])):
            if it.strip() != 'None':
                nbad += 1
                chk.corr_broken('Flush_Model:' + n, 'history %s: %s (FMPending i = pending flags differ after event i, FMUpdated i = delivered set differs)' % (n, ' '.join(it.split())))
    nt = sum(1 for r in traces.values() if nontrivial_history(r))
    events = sum(len(r) for r in traces.values())
    chk.samples += [{'history': s['name'], 'policy': s['policy'], 'first_events': [e['op'] for e in s['events'][:10]]} for s in scripts[:2]]
    return chk.finish(
        rule='random histories under both policies incl. configuration updates (pushed updates), synchronisations and restarts; non-trivial as for C01 (>=1 request that changed another container)',
        evaluations=events, distinct=nt, traces=len(names),
        extra_cov={'histories': len(traces), 'events': events, 'model_calls': dict(stats), 'mismatching_traces': nbad,
                   'oracle_findings': {'%s/%s' % k: v for k, v in nfind.items()}})


WARM = []
