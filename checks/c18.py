"""C18: effective annotations -- container-specific beats pod-wide beats bare key, in any map order."""
import os, json, hashlib
from vlib import *

HARNESS = {
    'pkg/resmgr/cache/zz_verif_c18_test.go': '/verif/harness/c18/cache_test.go',
    'cmd/plugins/sgx-epc/zz_verif_c18_test.go': '/verif/harness/c18/sgx_test.go',
    'cmd/plugins/memory-qos/zz_verif_c18_test.go': '/verif/harness/c18/mq_test.go',
    'cmd/plugins/memtierd/zz_verif_c18_test.go': '/verif/harness/c18/mt_test.go',
}
PKGS = ['./pkg/resmgr/cache/', './cmd/plugins/sgx-epc/', './cmd/plugins/memory-qos/', './cmd/plugins/memtierd/']
MQ, MT, EPC = '.memory-qos.nri.io', '.memtierd.nri.io', 'epc-limit.nri.io'

# container names inside the stated domain: no '/', not ending with a plugin suffix; prefixes and
# suffixes of each other, with '.', '-', and names that look like parts of the key syntax
NAMES = ['app', 'app-1', '1.app', 'a', 'pp', 'app.a', 'ap', 'p', 'pod', 'container.app', 'container', 'memory-qos.nri.io',
         'memtierd.nri.io', 'x.memory-qos.nri.io.y', 'nri.io', 'io', 'c-0', '0', 'app-', '-app', 'class', 'app.', '.app']
# outside the domain: recorded, never reported as violations
BAD_NAMES = ['y' + MQ + '/app', 'y' + MT + '/app', 'x' + MQ, 'x' + MT, 'a/b', 'b']
CACHE_KEYS = ['prefer-isolated-cpus.resource-policy.nri.io', 'memory-type.resource-policy.nri.io', 'k', EPC, 'k/pod', 'a.b/c']
EPC_VALUES = ['0', '1', '65536', '007', '18446744073709551615', '18446744073709551616', '99999999999999999999999', '', 'abc', '-1', '+5',
              '1_000', ' 7', '7 ', '0x10', '1e3', '4096']
PARAMS = ['class', 'memory.high', 'memory.swap.max', 'memory.low', 'bogus', '', 'memory.high.x', 'clas', 'xclass']
VALUES = ['max', '0', '1000000', 'swap', 'noswap', 'idle', '', 'x', '42']
CLASSES = ['swap', 'noswap', 'idle', 'x']


def in_domain(n):
    return '/' not in n and not n.endswith(MQ) and not n.endswith(MT)


def gen_case(rng, probe=False):
    names = rng.sample(NAMES, rng.randint(2, 5))
    if probe:
        names += rng.sample(BAD_NAMES, 2) + ['app']
        names = list(dict.fromkeys(names))
    ann = {}
    # cache / sgx forms
    for key in rng.sample(CACHE_KEYS, rng.randint(1, 3)) + [EPC]:
        vals = EPC_VALUES if key == EPC else VALUES
        for n in names:
            if rng.random() < 0.45:
                ann[key + '/container.' + n] = rng.choice(vals)
        if rng.random() < 0.5:
            ann[key + '/pod'] = rng.choice(vals)
        if rng.random() < 0.5:
            ann[key] = rng.choice(vals)
        if rng.random() < 0.15:
            ann[key + rng.choice(['/container.', '/podx', '/container', '/pod/', '/container.app/x', '/Container.app'])] = rng.choice(vals)
    # memory-qos / memtierd forms
    for S in (MQ, MT):
        mode = rng.random()
        params = rng.sample(PARAMS[:3], rng.randint(1, 3))
        if mode < 0.25:
            params += rng.sample(PARAMS[3:], 1)
        for p in params:
            vals = CLASSES + [''] if p == 'class' else VALUES
            for n in names:
                if rng.random() < 0.4:
                    ann[p + S + '/' + n] = rng.choice(vals)
            if rng.random() < 0.6:
                ann[p + S] = rng.choice(vals)
        if rng.random() < 0.1:
            ann[rng.choice(['x' + S + 'y', S[1:], 'class' + S + '/', 'class' + S + '//app', 'class' + S.upper()])] = rng.choice(VALUES)
    items = list(ann.items())
    rng.shuffle(items)
    mq = dict(unified=rng.choice([['memory.high', 'memory.swap.max'], ['memory.high', 'memory.swap.max'], ['memory.high', 'memory.swap.max', 'memory.low'],
                                  ['memory.high', 'memory.swap.max', 'memory.low', 'bogus', ''], ['memory.high'], ['memory.swap.max', 'class'], []]),
              classes=[dict(name=c, ratio=rng.choice([0.0, 0.25, 0.5, 0.8, -1.0])) for c in rng.sample(CLASSES + [''], rng.randint(1, 5))],
              memlimit=rng.choice([None, 1000000, 268435456, 1, 123456789]))
    if rng.random() < 0.15 and mq['classes']:
        mq['classes'].append(dict(name=mq['classes'][0]['name'], ratio=0.5))      # duplicate class name: first one wins
    mt = dict(configured=rng.random() < 0.85,
              classes=[dict(name=c, allowswap=rng.choice([None, True, False])) for c in rng.sample(CLASSES, rng.randint(1, 4))])
    return dict(ann=[[k, v] for k, v in items], ctrs=names, keys=rng.sample(CACHE_KEYS, 3), mq=mq, mt=mt, probe=probe)


def cs(x):
    return coq_str(x)


def pairs(l):
    return '[' + ';'.join('(%s,%s)' % (cs(k), cs(v)) for k, v in l) + ']'


def ostr(v):
    return 'None' if v is None else 'Some %s' % cs(v)


def obs_cres(r):
    if r['kind'] == 'err':
        return 'ObsErr'
    if r['kind'] == 'panic':
        return 'ObsPanic'
    return 'ObsUnified %s' % pairs(r['unified'] or [])


def expected3(ann, key, c):
    for k in (key + '/container.' + c, key + '/pod', key):
        if k in ann:
            return ann[k]
    return None


def expected_eff(ann, S, c):
    """oracle's own reading of the precedence rule for memory-qos/memtierd (in-domain names)"""
    eff = {}
    for k, v in ann.items():
        if k.endswith(S) and not k.endswith(S + '/' + c):
            eff[k[:-len(S)]] = v
    for k, v in ann.items():
        if k.endswith(S + '/' + c):
            eff[k[:-len(S + '/' + c)]] = v
    return eff


def run(tier, seed, replay=None):
    chk = Check('C18', tier, seed)
    rng = chk.rng
    chk.assumptions += [
        "model scope: pod.GetEffectiveAnnotation (three exact lookups), sgx-epc parseEpcLimit incl. strconv.ParseUint(v,10,64) acceptance, effectiveAnnotations/associate/CreateContainer of memory-qos and memtierd; Go maps = association lists with distinct keys (one iteration order) / gmaps (maps built by the code)",
        "stated domain of the 'other containers' clause for memory-qos/memtierd: container names without '/' that do not end with the plugin's annotation suffix (all Kubernetes DNS-label names); refuted outside it (C18_mq_other_container_refuted_slash, _suffix_name) and reproduced on the real code by out-of-domain probes (recorded in coverage.out_of_domain_probes, not reported as violations)",
        "memory-qos: plugin configured (config != nil) and container with Linux.Resources.Memory present (the nil cases panic: C14, known defect F6); the memory.high value a class derives (float32 arithmetic) is computed by the real applyQosClass and is an input of the model",
        "modelled not verified: Go map semantics (lookup, insertion, range visits every entry exactly once in an unspecified order), strings.CutSuffix, strconv.ParseUint",
        "correspondence: in-package Go harnesses (harness/c18) for pkg/resmgr/cache and the three package-main plugins; every query repeated on freshly built maps (shuffled insertion order, so bucket layout and range order vary)",
    ]
    chk.prove('C18_Props')

    ncases, nprobe, reps = (160, 24, 16) if tier == 'quick' else (3000, 300, 32)
    if replay:
        r = json.load(open(replay))['replay']
        cases = [r['case']]
    else:
        cases = [gen_case(rng) for _ in range(ncases)] + [gen_case(rng, probe=True) for _ in range(nprobe)]
        # one fixed case exhibiting everything at once
        cases.insert(0, dict(ann=[['memory.high' + MQ + '/app', '100'], ['memory.high' + MQ, '200'], ['class' + MQ, 'swap'], ['memory.swap.max' + MQ + '/app-1', '7'],
                                  ['class' + MT, 'idle'], ['memory.swap.max' + MT + '/app', '5'], ['class' + MT + '/app-1', ''],
                                  [EPC + '/pod', '77'], [EPC + '/container.app-1', '12'], [EPC, '1'], ['k/container.app', 'v1'], ['k', 'v0']],
                             ctrs=['app', 'app-1', '1.app'], keys=['k', EPC, 'k/pod'],
                             mq=dict(unified=['memory.high', 'memory.swap.max'], classes=[dict(name='swap', ratio=0.25)], memlimit=1000000),
                             mt=dict(configured=True, classes=[dict(name='idle', allowswap=True)]), probe=False))
        for bad in ('y' + MQ + '/c', 'x' + MQ):
            cases.append(dict(ann=[['memory.high' + MQ + '/' + bad, '1']], ctrs=['c', bad], keys=['k'],
                              mq=dict(unified=['memory.high', 'memory.swap.max'], classes=[], memlimit=1000000),
                              mt=dict(configured=True, classes=[]), probe=True, witness=True))
    with open(os.path.join(chk.work, 'c18_in.json'), 'w') as f:
        json.dump(dict(reps=reps, seed=seed, cases=cases), f)

    outs = {}
    ok = True
    rc, out, dt = sh(['go', 'test', '-vet=off', '-tags', 'verif', '-overlay', _overlay(), '-count=1', '-timeout', '600s', '-run', '^TestVerifC18'] + PKGS,
                     cwd=REPO, env={'VERIF_OUT': chk.work}, timeout=700)
    for name in ('cache', 'sgx', 'mq', 'mt'):
        p = os.path.join(chk.work, 'c18_%s.jsonl' % name)
        if rc != 0 or not os.path.exists(p):
            ok = False
        else:
            outs[name] = [json.loads(l) for l in open(p)]
    if not ok:
        chk.corr_broken('harness', 'go test failed:\n' + out[-3000:])
        return chk.finish(rule='harness failed')

    def viol(sig, what, ci, extra):
        chk.violation(sig, what, {'case': cases[ci], **extra})

    probes = {'memory-qos': 0, 'memory-qos_affected': 0, 'memory-qos_outcome_changed': 0, 'memtierd': 0, 'memtierd_affected': 0,
              'memtierd_outcome_changed': 0, 'examples': [], 'refuted_witnesses_on_real_code': []}
    evals = 0
    order_groups = 0

    # ---------------- oracle + gathering: cache
    cache_by_case = {}
    for o in outs['cache']:
        ci, c, key = o['case'], o['ctr'], o['key']
        ann = dict(cases[ci]['ann'])
        evals += len(o['vals']) + 1
        order_groups += 1
        if any(v != o['vals'][0] for v in o['vals']):
            viol('cache-order-dependent', 'GetEffectiveAnnotation(%r, %r) returned different values for the same annotations: %r' % (key, c, o['vals']), ci, {'ctr': c, 'key': key})
        exp = expected3(ann, key, c)
        if o['vals'][0] != exp:
            viol('cache-precedence', 'GetEffectiveAnnotation(%r, %r) = %r, precedence rule gives %r' % (key, c, o['vals'][0], exp), ci, {'ctr': c, 'key': key})
        if o['twin'] != o['vals'][0]:
            viol('cache-other-container-matters', 'GetEffectiveAnnotation(%r, %r) changes from %r to %r when annotations of other containers are removed' % (key, c, o['vals'][0], o['twin']), ci, {'ctr': c, 'key': key})
        cache_by_case.setdefault(ci, []).append((key, c, o['vals'][0]))

    # ---------------- sgx
    epc_by_case = {}
    consts = {}
    for o in outs['sgx']:
        ci, c = o['case'], o['ctr']
        consts['epc'] = o['const']
        ann = dict(cases[ci]['ann'])
        evals += len(o['obs']) + 1
        order_groups += 1
        first = o['obs'][0]
        if any(x != first for x in o['obs']):
            viol('epc-order-dependent', 'parseEpcLimit for %r differs between runs on the same annotations' % c, ci, {'ctr': c})
        if first.get('panic'):
            viol('epc-inconsistent', 'sgx-epc for %r: %s' % (c, first['panic']), ci, {'ctr': c})
        v = expected3(ann, EPC, c)
        if v is None:
            exp = (False, 0)
        elif v.isascii() and v.isdigit() and int(v) < 2 ** 64:
            exp = (False, int(v))
        else:
            exp = (True, 0)
        if (first['err'], first['limit']) != exp:
            viol('epc-precedence', 'parseEpcLimit for %r = (err=%s, %d); effective annotation by the precedence rule is %r' % (c, first['err'], first['limit'], v), ci, {'ctr': c})
        want_misc = None if (exp[0] or exp[1] == 0) else 'sgx_epc %d' % exp[1]
        if first['misc_max'] != want_misc:
            viol('epc-adjustment', 'sgx-epc CreateContainer for %r sets misc.max=%r, expected %r' % (c, first['misc_max'], want_misc), ci, {'ctr': c})
        if o['twin'] != first:
            viol('epc-other-container-matters', 'sgx-epc result for %r changes when annotations of other containers are removed' % c, ci, {'ctr': c})
        epc_by_case.setdefault(ci, []).append((c, None if first['err'] else first['limit']))

    # ---------------- memory-qos / memtierd
    plug = {}
    for name, S, label in (('mq', MQ, 'memory-qos'), ('mt', MT, 'memtierd')):
        by_case = {}
        for o in outs[name]:
            ci, c = o['case'], o['ctr']
            consts[name] = o['const']
            case = cases[ci]
            ann = dict(case['ann'])
            evals += len(o['obs']) + 1
            order_groups += 1
            first = o['obs'][0]
            dom = in_domain(c) and all(in_domain(d) for d in case['ctrs'])
            if any(x != first for x in o['obs']):
                kinds = sorted({x['kind'] for x in o['obs']})
                viol('%s-order-dependent' % label, '%s result for container %r depends on map iteration order: %s' % (
                    label, c, json.dumps([x for i, x in enumerate(o['obs']) if x not in o['obs'][:i]])[:600]), ci, {'ctr': c, 'plugin': label, 'kinds': kinds})
            if first['kind'] == 'panic':
                viol('%s-panic' % label, '%s CreateContainer panics for container %r' % (label, c), ci, {'ctr': c, 'plugin': label})
            if dom:
                exp = expected_eff(ann, S, c)
                if dict(map(tuple, first['eff'])) != exp:
                    viol('%s-precedence' % label, '%s effectiveAnnotations for %r = %r, precedence rule gives %r' % (label, c, first['eff'], sorted(exp.items())), ci, {'ctr': c, 'plugin': label})
                if o['twin'] != first:
                    viol('%s-other-container-matters' % label, '%s result for %r changes when annotations addressed to other containers are removed: %s -> %s' % (
                        label, c, json.dumps(first)[:300], json.dumps(o['twin'])[:300]), ci, {'ctr': c, 'plugin': label})
                # explicit parameter beats the class-derived value
                if first['kind'] == 'ok':
                    uni = dict(map(tuple, first['unified'] or []))
                    for p, v in exp.items():
                        explicit = (p != 'class' and p in case['mq']['unified']) if name == 'mq' else p in ('memory.swap.max', 'memory.high')
                        if explicit and uni.get(p) != v:
                            viol('%s-explicit-overridden' % label, '%s: container %r has the explicit annotation %s=%r but unified[%s]=%r' % (label, c, p, v, p, uni.get(p)), ci, {'ctr': c, 'plugin': label})
            elif in_domain(c):
                # out-of-domain probe: another container of the pod has a name with '/' or ending with the suffix
                probes[label] += 1
                if o['twin'] != first:
                    probes[label + '_affected'] += 1
                changed = (o['twin']['kind'], o['twin']['unified']) != (first['kind'], first['unified'])
                if changed:
                    probes[label + '_outcome_changed'] += 1
                    if len(probes['examples']) < 4 and not case.get('witness'):
                        probes['examples'].append({'plugin': label, 'container': c, 'others': [d for d in case['ctrs'] if not in_domain(d)],
                                                   'annotations': ann, 'with': first['kind'], 'without_their_annotations': o['twin']['kind']})
                if case.get('witness') and name == 'mq':
                    probes['refuted_witnesses_on_real_code'].append({'container': c, 'other_container': case['ctrs'][1], 'annotations': ann,
                                                                     'CreateContainer': first['kind'], 'without_the_other_containers_annotation': o['twin']['kind'],
                                                                     'reproduced': changed})
            by_case.setdefault(ci, []).append(o)
        plug[name] = by_case

    # ---------------- correspondence
    hdr = ('From Coq Require Import String Ascii NArith List. Import ListNotations.\nFrom NV Require Import C18_Model.\nOpen Scope string_scope.\n')
    files = []
    p = os.path.join(chk.work, 'cases_consts.v')
    with open(p, 'w') as f:
        f.write(hdr + 'Definition M := Eval vm_compute in (if consts_ok %s %s %s then @nil nat else [1%%nat]).\nPrint M.\n' % (cs(consts.get('epc', '')), cs(consts.get('mq', '')), cs(consts.get('mt', ''))))
    files.append(('constants epcLimitKey/annotationSuffix', p))
    SH = 40
    idx = list(range(len(cases)))
    for k in range(0, len(idx), SH):
        chunk = idx[k:k + SH]
        p = os.path.join(chk.work, 'cases_cache_%03d.v' % (k // SH))
        with open(p, 'w') as f:
            f.write(hdr + 'Definition cases : list cache_case := [%s].\n' % ';\n '.join(
                '(%s, [%s])' % (pairs(cases[ci]['ann']), ';'.join('(%s,%s,%s)' % (cs(key), cs(c), ostr(v)) for key, c, v in cache_by_case.get(ci, []))) for ci in chunk))
            f.write('Definition M := Eval vm_compute in cache_mismatches cases.\nPrint M.\n')
        files.append(('cache cases %d..' % k, p))
        p = os.path.join(chk.work, 'cases_epc_%03d.v' % (k // SH))
        with open(p, 'w') as f:
            f.write(hdr + 'Definition cases : list epc_case := [%s].\n' % ';\n '.join(
                '(%s, [%s])' % (pairs(cases[ci]['ann']), ';'.join('(%s,%s)' % (cs(c), 'None' if v is None else 'Some %d%%N' % v) for c, v in epc_by_case.get(ci, []))) for ci in chunk))
            f.write('Definition M := Eval vm_compute in epc_mismatches cases.\nPrint M.\n')
        files.append(('sgx-epc cases %d..' % k, p))
        p = os.path.join(chk.work, 'cases_mq_%03d.v' % (k // SH))
        with open(p, 'w') as f:
            items = []
            for ci in chunk:
                os_ = plug['mq'].get(ci, [])
                if not os_:
                    continue
                # class effects are per container only through the memory limit, which is per case
                effs = os_[0]['effects'] or []
                def eff(e):
                    if e == 'none':
                        return 'Some None'
                    if e == 'nolimit':
                        return 'None'
                    return 'Some (Some %s)' % cs(e[len('adjust:'):])
                items.append('(%s, [%s], %s, [%s])' % (
                    '[' + ';'.join(cs(u) for u in cases[ci]['mq']['unified']) + ']',
                    ';'.join('(%s,%s)' % (cs(n), eff(e)) for n, e in effs),
                    pairs(cases[ci]['ann']),
                    ';'.join('(%s,%s,%s)' % (cs(o['ctr']), pairs(o['obs'][0]['eff'] or []), obs_cres(o['obs'][0])) for o in os_)))
            f.write(hdr + 'Definition cases : list mq_case := [%s].\n' % ';\n '.join(items))
            f.write('Definition M := Eval vm_compute in mq_mismatches cases.\nPrint M.\n')
        files.append(('memory-qos cases %d..' % k, p))
        p = os.path.join(chk.work, 'cases_mt_%03d.v' % (k // SH))
        with open(p, 'w') as f:
            items = []
            for ci in chunk:
                os_ = plug['mt'].get(ci, [])
                if not os_:
                    continue
                mt = cases[ci]['mt']
                cfg = 'None' if not mt['configured'] else 'Some [%s]' % ';'.join(
                    '(%s,%s)' % (cs(c['name']), 'None' if c['allowswap'] is None else 'Some %s' % coq_bool(c['allowswap'])) for c in mt['classes'])
                items.append('(%s, %s, [%s])' % (cfg, pairs(cases[ci]['ann']),
                                                 ';'.join('(%s,%s,%s)' % (cs(o['ctr']), pairs(o['obs'][0]['eff'] or []), obs_cres(o['obs'][0])) for o in os_)))
            f.write(hdr + 'Definition cases : list mt_case := [%s].\n' % ';\n '.join(items))
            f.write('Definition M := Eval vm_compute in mt_mismatches cases.\nPrint M.\n')
        files.append(('memtierd cases %d..' % k, p))
    results = coq_eval_many([p for _, p in files])
    for (nm, p), (rc, out) in zip(files, results):
        body = parse_coq_print(out, 'M')
        if rc != 0 or body is None:
            chk.corr_broken(nm, 'coqc failed on %s:\n%s' % (p, out[-1500:]))
        elif body.replace(' ', '') != '[]':
            chk.corr_broken(nm, 'model and implementation differ at (case in file, query[, CreateContainer?]): %s (%s)' % (body[:500], p))

    # ---------------- coverage
    def forms(case):
        """how many of the three forms (container-specific, pod-wide, bare / pod-level) occur for some key"""
        ann = dict(case['ann'])
        best = 0
        for key in CACHE_KEYS:
            n = sum([any((key + '/container.' + c) in ann for c in case['ctrs']), (key + '/pod') in ann, key in ann])
            best = max(best, n)
        for S in (MQ, MT):
            for p_ in PARAMS:
                n = sum([any((p_ + S + '/' + c) in ann for c in case['ctrs']), (p_ + S) in ann])
                best = max(best, n + (1 if n == 2 else 0))
        return best
    distinct = {hashlib.sha1(json.dumps([sorted(c['ann']), c['ctrs'], c['mq'], c['mt']], sort_keys=True).encode()).hexdigest()
                for c in cases if forms(c) >= 2}
    chk.samples += [{'annotations': dict(cases[0]['ann']), 'containers': cases[0]['ctrs'],
                     'memory-qos': [{'ctr': o['ctr'], 'unified': o['obs'][0]['unified'], 'kind': o['obs'][0]['kind']} for o in plug['mq'].get(0, [])],
                     'memtierd': [{'ctr': o['ctr'], 'unified': o['obs'][0]['unified'], 'kind': o['obs'][0]['kind']} for o in plug['mt'].get(0, [])],
                     'sgx-epc': epc_by_case.get(0), 'cache': cache_by_case.get(0)}]
    kinds = {}
    for name in ('mq', 'mt'):
        for o in outs[name]:
            k = name + ':' + o['obs'][0]['kind'] + (':adjust' if o['obs'][0].get('unified') else '')
            kinds[k] = kinds.get(k, 0) + 1
    return chk.finish(
        rule='random annotation maps over container names that are prefixes/suffixes of each other and contain "." and "-" (plus names mimicking key syntax: "pod", "container.app", '
             '"memory-qos.nri.io"), all three forms for cache/sgx keys, both forms for memory-qos/memtierd parameters, junk keys/values; every query evaluated %d times on freshly '
             'built maps. Non-trivial = at least 2 of the forms present for some key; distinct = hash of (annotations, containers, plugin configs)' % reps,
        evaluations=evals, distinct=len(distinct), traces=order_groups,
        extra_cov={'cases': len(cases), 'queries': order_groups, 'repetitions_per_query': reps, 'result_kinds': kinds,
                   'out_of_domain_probes': probes, 'coq_case_files': len(files)})


def _overlay():
    os.makedirs(BUILD, exist_ok=True)
    ov = {'Replace': {os.path.join(REPO, k): v for k, v in HARNESS.items()}}
    name = hashlib.sha1(json.dumps(ov, sort_keys=True).encode()).hexdigest()[:12]
    ovp = os.path.join(BUILD, 'overlay_%s.json' % name)
    with open(ovp, 'w') as f:
        json.dump(ov, f)
    return ovp


WARM = [(p, HARNESS) for p in PKGS]
