"""C10: the persisted pod/container cache round-trips and survives crashes during save.

proof      C10_Props.v: (1) generic round trip of the encoding/json model over the struct grammar
           + obligations on the schema generated from the source (schema2coq); (2) crash atomicity of
           every save program passing a static test + obligation on the skeleton of Save() generated
           from the source (save2coq); (3) checkPerm refuses symlinks / wrong types / g+w,o+w.
tie        harness/c10 (in package pkg/resmgr/cache): codec cases (reflection walk of the real snapshot,
           the real JSON, reflection walk of the reloaded snapshot) evaluated against enc/dec/norm in Coq;
           strace'd syscall skeleton of Save vs gen_save_prog; exhaustive permission matrix vs check_perm.
search     differential save / NewCache / compare every getter over generated histories; child process
           killed at every syscall boundary (strace inject), ENOSPC on writes, truncated temp file.
"""
import os, json, collections
from vlib import *
import vlib, c10_gen

c10_gen.register()

HARNESS = {'pkg/resmgr/cache/zz_verif_c10_%s_test.go' % n: '/verif/harness/c10/%s_test.go' % n
           for n in ('gen', 'dump', 'roundtrip', 'crash', 'perm')}
PKG = './pkg/resmgr/cache/'

HDR = ('From Coq Require Import String ZArith List Bool.\n'
       'From NV Require Import C10_Model Gen.Gen_Schema Gen.Gen_Save.\n'
       'Import ListNotations.\nOpen Scope string_scope.\nOpen Scope Z_scope.\n')

FT = {'regular': 'FTRegular', 'dir': 'FTDir', 'fifo': 'FTOther', 'socket': 'FTOther', 'chardev': 'FTOther',
      'symlink-regular': 'FTSymlink', 'symlink-dir': 'FTSymlink', 'symlink-dangling': 'FTSymlink'}


def params(tier):
    if tier == 'quick':
        return dict(VERIF_C10_CONTENTS='24', VERIF_C10_SAVES='3', VERIF_C10_CODEC='32', VERIF_C10_HISTORIES='2',
                    VERIF_C10_MAXKILL='30', VERIF_C10_TRUNCSTEP='0', VERIF_C10_ENOSPC='0', VERIF_C10_BIG='0')
    return dict(VERIF_C10_CONTENTS='160', VERIF_C10_SAVES='4', VERIF_C10_CODEC='96', VERIF_C10_HISTORIES='6',
                VERIF_C10_MAXKILL='0', VERIF_C10_TRUNCSTEP='512', VERIF_C10_ENOSPC='1', VERIF_C10_BIG='1')


def unsafe(name, typ, mode):
    want = 'regular' if name == 'cache' else 'dir'
    return typ != want or (mode & 0o022) != 0


def run(tier, seed, replay=None):
    if replay:
        try:
            seed = int(json.load(open(replay)).get('seed', seed))
        except Exception:
            pass
    chk = Check('C10', tier, seed)
    chk.assumptions += [
        "modelled, not verified: encoding/json (as a tree codec: text syntax, key case-folding, invalid UTF-8 replacement abstracted), "
        "kernel file-system semantics (open(O_TRUNC), write may stop after any byte, rename atomic; no power-loss model: Save does not fsync and none is required for process kills / failed writes)",
        "opaque leaves assumed to round-trip through their own marshalers (observed by the harness, not proved): resource.Quantity, "
        "podresapi.PodResources / ContainerResources (structs with an embedded pointer)",
        "translators (go/ast): tools/schema2coq decides which fields are exported / tagged / of which kind; tools/save2coq decides which "
        "statements of Save/NewCache/Load are file operations and whether their error is checked; both refuse unknown shapes",
        "checkPerm itself is hand-modelled (check_perm); tie = exhaustive matrix (3 names x file types x 512 modes) through NewCache, run as uid 0",
        "not compared after reload because the code keeps them in unexported fields and the property does not list them: "
        "creation times (GetCtime), pending-change marks and pending NRI requests, /proc-backed task lists",
    ]
    chk.prove('C10_Props')

    env = {'VERIF_OUT': chk.work, 'VERIF_SEED': str(seed)}
    env.update(params(tier))
    to = 240 if tier == 'quick' else 2400
    rc, out, dt = go_test(PKG, HARNESS, '^TestVerifC10(Roundtrip|Crash|Perm)$', env=env, timeout=to)
    need = ['c10_roundtrip.jsonl', 'c10_codec.txt', 'c10_crash.jsonl', 'c10_perm.txt']
    have = [n for n in need if os.path.exists(os.path.join(chk.work, n))]

    def load(n):
        p = os.path.join(chk.work, n)
        if not os.path.exists(p):
            return []
        res = []
        for l in open(p):
            try:
                res.append(json.loads(l))
            except Exception:
                pass
        return res

    rts = load('c10_roundtrip.jsonl')
    crs = load('c10_crash.jsonl')
    perms = []
    pp = os.path.join(chk.work, 'c10_perm.txt')
    if os.path.exists(pp):
        for l in open(pp):
            if l.startswith('#') or not l.strip():
                continue
            name, typ, mode, res = l.split()
            perms.append((name, typ, int(mode), int(res)))

    # ---------------- oracle: the property's clauses on the implementation's own outputs
    for r in rts:
        rep = {'kind': 'roundtrip', 'content': r['content'], 'save': r['save'], 'ops': r.get('ops')}
        if r.get('save_err'):
            chk.violation('save-fails', 'Save() failed on generated content %d: %s' % (r['content'], r['save_err']), rep)
        if r.get('load_err'):
            chk.violation('reload-fails', 'NewCache on a directory just saved to fails: %s' % r['load_err'], rep)
        for sig in r.get('sigs', []):
            kind, _, getter = sig.partition('.')
            d = [x for x in r['diffs'] if x.startswith('/' + kind + '/') and ('/' + getter) in x.split(': saved=')[0]][:3] or r['diffs'][:3]
            chk.violation('reload-differs:' + sig, 'reloaded cache differs from the saved one in %s: %s' % (sig, '; '.join(d)), rep)
    def crash_oracle(records):
        for r in records:
            if r.get('sig'):
                what = '%s at %s#%s (during %s) offset %s: %s %s' % (r['kind'], r.get('syscall'), r.get('nth'), r.get('window'),
                                                                    r.get('offset'), r.get('load_err', ''), r.get('detail', ''))
                if r.get('inplace'):
                    what += ' ' + '; '.join(r['inplace'][:6])
                chk.violation(r['sig'], what, {k: r.get(k) for k in ('kind', 'history', 'save', 'syscall', 'nth', 'window', 'offset', 'target', 'ops')})
    crash_oracle(crs)
    for name, typ, mode, res in perms:
        if unsafe(name, typ, mode) and res != 1:
            cls = 'symlink' if typ.startswith('symlink') else ('wrong-type:' + typ if typ != ('regular' if name == 'cache' else 'dir')
                                                               else ('group-writable' if mode & 0o020 else 'other-writable'))
            how = 'hangs in' if res == 2 else 'is accepted by'
            chk.violation('unsafe-accepted:%s:%s' % (name, cls), '%s of type %s mode %04o %s NewCache' % (name, typ, mode, how),
                          {'kind': 'perm', 'name': name, 'type': typ, 'mode': mode})

    widened = 0
    if tier == 'quick' and not chk.violations and any(k in ('proof', 'translator') for k, _, _ in chk.broken):
        # a proof obligation broke and the quick sample found no failing input: widen the fault search
        wdir = os.path.join(chk.work, 'widen')
        os.makedirs(wdir, exist_ok=True)
        env2 = dict(env)
        env2.update(VERIF_OUT=wdir, VERIF_C10_HISTORIES='3', VERIF_C10_MAXKILL='0', VERIF_C10_ENOSPC='1', VERIF_C10_TRUNCSTEP='512')
        go_test(PKG, HARNESS, '^TestVerifC10Crash$', env=env2, timeout=600)
        wp = os.path.join(wdir, 'c10_crash.jsonl')
        if os.path.exists(wp):
            wrecs = []
            for l in open(wp):
                try:
                    wrecs.append(json.loads(l))
                except Exception:
                    pass
            widened = len(wrecs)
            crash_oracle(wrecs)

    if rc != 0 or len(have) != len(need):
        # report harness failure only after the oracle had its say on whatever was written
        chk.corr_broken('harness', 'go test failed (rc=%s, outputs %s):\n%s' % (rc, have, out[-3000:]))

    # ---------------- correspondence: the models evaluated by the kernel on the same observations
    files = []
    cp = os.path.join(chk.work, 'c10_codec.txt')
    cases = [c for c in open(cp).read().split('\n@@@\n') if c.strip()] if os.path.exists(cp) else []
    for i, c in enumerate(cases):
        p = os.path.join(chk.work, 'cases_codec_%03d.v' % i)
        with open(p, 'w') as f:
            f.write(HDR)
            f.write('Definition cs : list codec_case := [\n%s].\n' % c)
            f.write('Definition M := Eval vm_compute in codec_mismatches gen_snapshot cs.\nPrint M.\n')
        files.append(('codec case %d' % i, p))
    refs = [r for r in crs if r['kind'] == 'reference' and r.get('skeleton') is not None]
    if refs:
        p = os.path.join(chk.work, 'cases_skeleton.v')
        with open(p, 'w') as f:
            f.write(HDR)
            f.write('Definition obs : list (Z * list obsop) := [\n%s].\n' %
                    ';\n'.join('(%d, [%s])' % (r['id'], '; '.join(r['skeleton'] or [])) for r in refs))
            f.write('Definition M := Eval vm_compute in skeleton_mismatches gen_save_prog obs.\nPrint M.\n')
        files.append(('save skeleton', p))
    NSH = 8
    per = (len(perms) + NSH - 1) // NSH if perms else 0
    for k in range(NSH if perms else 0):
        ch = perms[k * per:(k + 1) * per]
        if not ch:
            continue
        p = os.path.join(chk.work, 'cases_perm_%02d.v' % k)
        with open(p, 'w') as f:
            f.write(HDR)
            f.write('Definition cs : list perm_case := [\n%s].\n' % ';\n'.join(
                'mkPerm %d %s %s %d %s' % (k * per + i, coq_str(name), FT[typ], 511 if typ.startswith('symlink') else mode, coq_bool(res != 0))
                for i, (name, typ, mode, res) in enumerate(ch)))
            f.write('Definition M := Eval vm_compute in perm_mismatches gen_newcache_checks cs.\nPrint M.\n')
        files.append(('permission matrix shard %d' % k, p))
    results = coq_eval_many([p for _, p in files]) if files else []
    for (name, p), (rc2, out2) in zip(files, results):
        body = parse_coq_print(out2, 'M')
        if rc2 != 0 or body is None:
            chk.corr_broken(name, 'coqc failed on %s:\n%s' % (p, out2[-1500:]))
        elif body.replace(' ', '') not in ('[]', 'nil'):
            chk.corr_broken(name, 'model and implementation differ: %s (%s)' % (body[:400], p))

    # ---------------- coverage
    hashes = {r['hash'] for r in rts if r['pods'] > 0 and r['ctrs'] > 0}
    feats = collections.Counter(x for r in rts for x in r['features'])
    kills = [r for r in crs if r['kind'] == 'kill']
    crash_distinct = {(r['history'], r['save'], r['kind'], r.get('syscall'), r.get('nth'), r.get('offset')) for r in crs
                      if r['kind'] != 'reference' and (r['kind'] != 'kill' or (r.get('killed') and r.get('window')))}
    if rts:
        chk.samples.append({'roundtrip': {k: rts[-1][k] for k in ('content', 'save', 'pods', 'ctrs', 'entries', 'bytes', 'features')}})
    if refs:
        chk.samples.append({'save_skeleton_observed': refs[0]['skeleton'], 'snapshots_in_save_group': refs[0]['nlegit']})
    for r in kills[:2]:
        chk.samples.append({'kill': {k: r.get(k) for k in ('syscall', 'nth', 'window', 'killed', 'matches', 'nlegit')}})
    tr = [r for r in crs if r['kind'] == 'truncate']
    if tr:
        chk.samples.append({'truncate': {k: tr[len(tr) // 2].get(k) for k in ('target', 'offset', 'bytes', 'matches')}})
    if perms:
        chk.samples.append({'perm': perms[len(perms) // 3]})
    evals = len(rts) + len([r for r in crs if r['kind'] != 'reference']) + len(perms)
    return chk.finish(
        rule='round trips: generated histories (pods/containers/policy entries, all op kinds), one evaluation per explicit Save compared getter by getter '
             'with a second cache opened on the directory; distinct = distinct canonical dumps having >=1 pod and >=1 container. '
             'crash experiments: distinct (history, save, fault kind, syscall#n | offset) with the kill landing inside an operation window. '
             'permission matrix: every (name, file type, mode) once.  distinct_nontrivial is the sum of the three.',
        evaluations=evals, distinct=len(hashes) + len(crash_distinct) + len(set(perms)),
        traces=len([r for r in crs if r['kind'] in ('reference', 'kill', 'enospc')]),
        extra_cov={
            'exhaustive': False, 'permission_matrix_exhaustive': True,
            'roundtrip_saves_compared': len(rts), 'roundtrip_distinct_contents': len(hashes),
            'codec_cases_in_coq': len(cases), 'feature_histogram': dict(feats),
            'kill_experiments': len(kills), 'kills_effective': sum(1 for r in kills if r.get('killed')),
            'kill_syscalls': dict(collections.Counter(r.get('syscall') for r in kills)),
            'kill_windows': dict(collections.Counter(r.get('window') or 'outside' for r in kills)),
            'truncate_experiments': len(tr), 'enospc_experiments': len([r for r in crs if r['kind'] == 'enospc']),
            'saves_observed_by_strace': len(refs), 'permission_cases': len(perms),
            'coq_case_files': len(files), 'harness_seconds': round(dt, 1), 'widened_search_experiments': widened,
        })


WARM = [(PKG, HARNESS)]
