"""C20: resource requirements reconstructed from cgroup parameters are faithful."""
import os, json, random
from vlib import *

HARNESS = {'pkg/kubernetes/zz_verif_c20_test.go': '/verif/harness/c20/c20_test.go'}
LIM = 2 ** 63 - 1          # every capacity an int64 holds (1000*memRequest is formed in 128 bits since the K4 repair)
OLD_LIM = (2 ** 63) // 1000   # the bound below which the old int64 expression did not wrap


def capacities(tier, rng):
    caps = set()
    for e in range(20, 53):
        for d in (-1, 0, 1):
            caps.add(2 ** e + d)
    for k in (1048576, 1048577, 1049000, 2 * 10 ** 6, 10 ** 9, 10 ** 9 + 1, 10 ** 9 - 1, 16 * 2 ** 30, 16 * 2 ** 30 + 4096,
              123456789012, 999999999999, 10 ** 12, 2 ** 40 + 12345, LIM, LIM - 1000, LIM // 2 + 7, OLD_LIM, OLD_LIM + 1, OLD_LIM - 1,
              2 ** 63 // 999 - 1, 2 ** 62, 2 ** 62 + 1, 2 ** 63 - 4097):
        caps.add(k)
    try:
        for line in open('/proc/meminfo'):
            if line.startswith('MemTotal:'):
                caps.add(int(line.split()[1]) * 1024)
    except Exception:
        pass
    n = 40 if tier == 'quick' else 1500
    for _ in range(n):
        e = rng.randint(20, 62)
        c = rng.randint(2 ** e, 2 ** (e + 1))
        if c <= LIM:
            caps.add(c)
    for _ in range(n // 4):
        caps.add(rng.randint(1048576, 2 ** 24) * 4096)           # page multiples
        caps.add(rng.randint(1049, 10 ** 9) * 1000 + rng.choice((-1, 0, 1)))
    caps = {c for c in caps if 1048576 <= c <= LIM}
    if tier == 'quick':
        caps = set(sorted(caps)[::2][:64]) | {LIM, 1048576, OLD_LIM, OLD_LIM + 1, 2 ** 62, 2 ** 63 // 999 - 1}
    huge = []     # (before the K4 repair: capacities beyond 2^63/1000 were run apart because they panicked)
    return sorted(caps), huge


def run(tier, seed, replay=None):
    chk = Check('C20', tier, seed)
    rng = chk.rng
    chk.assumptions += [
        "IEEE-754 binary64 as modelled by Flocq's executable BinarySingleNaN operations (theorems about the float expressions use Flocq, which brings in the stdlib real-number axioms)",
        "correspondence: Go harness (harness/c20) + this script's table printer; exhaustive over shares 0..262160 and mCPU 0..300000",
        "modelled not verified: estimateResourceRequirements glue (QoS switch, Quantity construction); float start point of the estimate loop is validated per capacity, not bounded by a general theorem",
    ]
    chk.prove('C20_Props')

    caps, huge = capacities(tier, rng)
    with open(os.path.join(chk.work, 'caps.txt'), 'w') as f:
        f.write('\n'.join(map(str, caps + huge)) + '\n')
    qps = []
    for _ in range(4000 if tier == 'quick' else 60000):
        p = rng.choice([100000, 100000, 1000, 10000, 50000, rng.randint(1000, 1000000)])
        q = rng.choice([rng.randint(0, 30000000), rng.randint(0, 2000), p * rng.randint(0, 256)])
        qps.append((q, p))
    with open(os.path.join(chk.work, 'qp_in.txt'), 'w') as f:
        f.write('\n'.join('%d %d' % qp for qp in qps) + '\n')
    rc, out, dt = go_test('./pkg/kubernetes/', HARNESS, '^TestVerifC20$', env={'VERIF_OUT': chk.work}, timeout=300)
    if rc != 0 or not os.path.exists(os.path.join(chk.work, 'caps.jsonl')):
        chk.corr_broken('harness', 'go test failed:\n' + out[-3000:])
        return chk.finish(rule='harness failed')

    shares = [tuple(map(int, l.split())) for l in open(os.path.join(chk.work, 'shares.txt'))]
    milli = [tuple(map(int, l.split())) for l in open(os.path.join(chk.work, 'milli.txt'))]
    qp = [tuple(map(int, l.split())) for l in open(os.path.join(chk.work, 'qp.txt'))]
    capsr = [json.loads(l) for l in open(os.path.join(chk.work, 'caps.jsonl'))]

    # ---------------- oracle: the clauses of the statement on the implementation's outputs
    s2m = dict(shares)
    prev_sh, prev_q, prev_s2m = None, None, None
    for s, v in shares:
        if s >= 2 and prev_s2m is not None and v < prev_s2m:
            chk.violation('shares-to-milli-not-monotone', 'SharesToMilliCPU not monotone at shares=%d' % s, {'shares': s})
        if s >= 2:
            prev_s2m = v
    for m, sh_, q, p, back in milli:
        if m <= 256000:
            rt = s2m[sh_]
            tol = 2 if m <= 2 else 1
            if abs(rt - m) > tol:
                chk.violation('shares-roundtrip', 'mCPU %d -> shares %d -> %d mCPU (off by more than %d)' % (m, sh_, rt, tol), {'milli': m, 'shares': sh_, 'back': rt})
            if m % 125 == 0 and rt != m:
                chk.violation('shares-exact-125', 'mCPU %d (multiple of 125) reconstructed as %d' % (m, rt), {'milli': m, 'shares': sh_, 'back': rt})
        if m >= 10 and back != m:
            chk.violation('quota-exact', 'CPU limit %d mCPU -> quota %d/%d -> %d' % (m, q, p, back), {'milli': m, 'quota': q, 'period': p, 'back': back})
        if prev_sh is not None and (sh_ < prev_sh or q < prev_q):
            chk.violation('milli-to-cgroup-not-monotone', 'MilliCPUToShares/Quota not monotone at %d' % m, {'milli': m})
        prev_sh, prev_q = sh_, q
    byp = {}
    for q, p, v in qp:
        byp.setdefault(p, []).append((q, v))
    for p, l in byp.items():
        l.sort()
        for (q1, v1), (q2, v2) in zip(l, l[1:]):
            if v2 < v1:
                chk.violation('quota-to-milli-not-monotone', 'QuotaToMilliCPU(%d,%d)=%d > QuotaToMilliCPU(%d,%d)=%d' % (q1, p, v1, q2, p, v2), {'q1': q1, 'q2': q2, 'period': p})
    ncap_ok = 0
    for r in capsr:
        c = r['cap']
        if r['panic']:
            if c > LIM:
                chk.violation('capacity>2^63/1000', 'SetMemoryCapacity(%d) panics: %s' % (c, r.get('msg', '')), {'capacity': c})
            else:
                chk.violation('estimate-table-panics', 'SetMemoryCapacity(%d) panics: %s' % (c, r.get('msg', '')), {'capacity': c})
            continue
        bad = [a for a in range(3, 1000) if r['back'][a - 1] != a]
        if bad:
            sig = 'capacity>2^63/1000' if c > LIM else 'estimate-does-not-map-back'
            chk.violation(sig, 'capacity %d: estimate for oom_score_adj %d is %d which maps to %d' % (c, bad[0], r['table'][bad[0] - 1], r['back'][bad[0] - 1]), {'capacity': c, 'adj': bad[0]})
        else:
            ncap_ok += 1
        # the lookup a container's request is estimated with: every Burstable adjustment has an estimate,
        # suppressed only by a real (non-zero) memory limit not above it; nothing outside [3, 999]
        probes = [(a, lim) for a in (-997, 0, 1, 2, 3, 4, 500, 998, 999, 1000, 1001) for lim in (0, 1, c // 2, c, c + 1)]
        for (a, lim), got in zip(probes, r.get('lookup') or []):
            if lim > 2 ** 63 - 1:
                continue      # c + 1 is not an int64 for the largest capacity: the harness passes a wrapped value
            if a < 3 or a > 999:
                want = -1
            else:
                est = r['table'][a - 1]
                want = est if (lim == 0 or est < lim) else -1
            if got != want:
                chk.violation('oom-lookup-wrong' if c <= LIM else 'capacity>2^63/1000',
                              'capacity %d: OomAdjToMemReq(%d, limit %d) = %s, expected %s (table entry %s)' % (c, a, lim, 'nil' if got < 0 else got, 'nil' if want < 0 else want, r['table'][a - 1] if 1 <= a <= 999 else '-'),
                              {'capacity': c, 'adj': a, 'limit': lim})
                break

    # ---------------- correspondence: the model evaluated by the kernel on the same inputs
    files = []
    hdr = 'From Coq Require Import ZArith List. Import ListNotations.\nFrom NV Require Import C20_Model C20_Est.\nOpen Scope Z_scope.\n'
    NSH = 16
    svals = [v for _, v in shares]
    per = (len(svals) + NSH - 1) // NSH
    for k in range(NSH):
        lo = k * per
        p = os.path.join(chk.work, 'cases_shares_%02d.v' % k)
        with open(p, 'w') as f:
            f.write(hdr)
            f.write('Definition M := Eval vm_compute in first_diff shares_to_milli_z %d %s.\nPrint M.\n' % (lo, zlist(svals[lo:lo + per])))
        files.append(('shares[%d..]' % lo, p))
    per = (len(milli) + NSH - 1) // NSH
    for k in range(NSH):
        lo = k * per
        ch = milli[lo:lo + per]
        p = os.path.join(chk.work, 'cases_milli_%02d.v' % k)
        with open(p, 'w') as f:
            f.write(hdr)
            f.write('Definition M1 := Eval vm_compute in first_diff milli_to_shares %d %s.\n' % (lo, zlist([x[1] for x in ch])))
            f.write('Definition M2 := Eval vm_compute in first_diff (fun m => fst (milli_to_quota m)) %d %s.\n' % (lo, zlist([x[2] for x in ch])))
            f.write('Definition M3 := Eval vm_compute in first_diff (fun m => snd (milli_to_quota m)) %d %s.\n' % (lo, zlist([x[3] for x in ch])))
            f.write('Definition M4 := Eval vm_compute in first_diff (fun m => quota_to_milli_z (fst (milli_to_quota m)) (snd (milli_to_quota m))) %d %s.\n' % (lo, zlist([x[4] for x in ch])))
            f.write('Definition M := Eval vm_compute in match M1, M2, M3, M4 with None, None, None, None => None | Some x, _, _, _ => Some x | _, Some x, _, _ => Some x | _, _, Some x, _ => Some x | _, _, _, Some x => Some x end.\nPrint M.\n')
        files.append(('milli[%d..]' % lo, p))
    # quota/period pairs: integer formula (and binary64 on a sample)
    p = os.path.join(chk.work, 'cases_qp.v')
    with open(p, 'w') as f:
        f.write(hdr)
        f.write('Definition cs : list (Z*Z*Z) := [%s].\n' % ';'.join('(%d,%d,%d)' % x for x in qp))
        f.write('Definition M0 := Eval vm_compute in filter (fun c => match c with (q,p,v) => negb (quota_to_milli_z q p =? v) end) cs.\n')
        f.write('Definition M := Eval vm_compute in match M0 with [] => None | (q,p,v)::_ => Some q end.\nPrint M.\n')
    files.append(('quota/period pairs', p))
    p = os.path.join(chk.work, 'cases_qpf.v')
    with open(p, 'w') as f:
        f.write(hdr)
        f.write('Definition cs : list (Z*Z*Z) := [%s].\n' % ';'.join('(%d,%d,%d)' % x for x in qp[:1500]))
        f.write('Definition M0 := Eval vm_compute in filter (fun c => match c with (q,p,v) => negb (quota_to_milli_f q p =? v) end) cs.\n')
        f.write('Definition M := Eval vm_compute in match M0 with [] => None | (q,p,v)::_ => Some q end.\nPrint M.\n')
    files.append(('quota/period pairs (binary64 model)', p))
    # estimate tables
    # capacities beyond 2^53 cost the model ~1000 search steps per table entry (binary64 start points are off by up
    # to a few KiB there): the quick tier replays none of them in Coq, the thorough tier 33 of them (evenly spaced, the largest included); the Go-side clauses above
    # judge every capacity in both tiers
    big = [r for r in capsr if r['cap'] > 2 ** 53]
    coqcaps = [r for r in capsr if r['cap'] <= 2 ** 53] + (big[::max(1, len(big) // 32)][:32] + big[-1:] if tier != 'quick' else [])
    per = (len(coqcaps) + NSH - 1) // NSH
    for k in range(NSH):
        ch = coqcaps[k * per:(k + 1) * per]
        if not ch:
            continue
        p = os.path.join(chk.work, 'cases_caps_%02d.v' % k)
        with open(p, 'w') as f:
            f.write(hdr)
            items = []
            for r in ch:
                items.append('(%d, %s)' % (r['cap'], 'ObsPanic' if r['panic'] else 'ObsTable ' + zlist(r['table'])))
            f.write('Definition cs : list (Z * cap_obs) := [%s].\n' % ';\n'.join(items))
            f.write('Definition M0 := Eval vm_compute in cap_mismatches cs.\n')
            f.write('Definition M := Eval vm_compute in match M0 with [] => None | c :: _ => Some c end.\nPrint M.\n')
        files.append(('estimate tables shard %d' % k, p))
    results = coq_eval_many([p for _, p in files])
    for (name, p), (rc, out) in zip(files, results):
        body = parse_coq_print(out, 'M')
        if rc != 0 or body is None:
            chk.corr_broken(name, 'coqc failed on %s:\n%s' % (p, out[-1500:]))
        elif body != 'None':
            chk.corr_broken(name, 'model and implementation differ, first at %s (%s)' % (body, p))

    nontrivial = len({c for c in caps if c & (c - 1)})
    chk.samples += [{'shares': 1025, 'SharesToMilliCPU': s2m[1025]}, {'milli': milli[1500]},
                    {'capacity': capsr[0]['cap'], 'table[a=3..5]': capsr[0].get('table', [None] * 5)[2:5]}]
    evals = len(shares) + len(milli) + len(qp) + len(capsr)
    return chk.finish(
        rule='exhaustive tables: SharesToMilliCPU on shares 0..262160, MilliCPUToShares/Quota and QuotaToMilliCPU on 0..300000 mCPU; '
             'random quota/period pairs; estimate tables for capacities (powers of two +-1, multiples of 1000 +-1, page multiples, random 64-bit below 2^63/999, this machine). '
             'distinct_nontrivial counts capacities that are not a power of two',
        evaluations=evals, distinct=nontrivial, traces=len(files),
        extra_cov={'exhaustive': True, 'capacities': len(capsr), 'capacities_ok': ncap_ok, 'quota_period_pairs': len(qp),
                   'coq_case_files': len(files)})
WARM = [('./pkg/kubernetes/', HARNESS)]
