// save2coq: extract the syscall-level skeleton of (*cache).Save, the file that Load reads,
// and the permission checks of NewCache from pkg/resmgr/cache/cache.go into Coq definitions
// (NV.Gen.Gen_Save) over the types of NV.C10_Model.
//
// usage: save2coq -root /repo -out Gen_Save.v
//
// Recognised statement shapes in Save (anything else is refused with exit 2, not guessed):
//   log.X(...)                                        ignored
//   data, err := cch.Snapshot()                       binds the new snapshot bytes
//   if err != nil { ... return ... }                  error check of the preceding operation
//   v := <path expr>                                  path variable; path expr = cch.filePath,
//                                                     <path expr> + "literal", a path variable, f.Name()
//   [x, err :=|err =|if err := ...; err != nil {return}] os.WriteFile(P, data, perm)
//                                                     -> OpCreate P; OpWrite P; OpClose P
//   ... os.Rename(A, B)  -> OpRename      ... os.Remove(P) -> OpRemove
//   f, err := os.CreateTemp(dir, "pattern") / os.OpenFile(P, flags incl. O_TRUNC, perm) / os.Create(P)
//                                                     -> OpCreate
//   f.Write(data) -> OpWrite   f.Sync() -> OpSync   f.Close() -> OpClose
//   return nil / return <expr>
// Every operation carries a flag: true iff its error is tested and the test's body returns.
// Names are relative to the cache directory: cch.filePath is "cache" (taken from the
// filepath.Join(options.CacheDir, "cache") initialiser in NewCache).
//
// NewCache: the sequence of `cch.checkPerm(what, path, isDir, perm)` / `cch.mkdirAll(what, path, perm)`
// calls, each of which must be the init of an `if ...; err != nil { return nil, ... }`, with
// path in {cch.filePath, options.CacheDir, cch.dataDir} and perm one of the package-level
// `&permissions{prefer: N, reject: M}` variables; mkdirAll must start with
// `exists, err := cch.checkPerm(what, path, true, p); if err != nil { return err }`.
package main

import (
	"flag"
	"fmt"
	"go/ast"
	"go/parser"
	"go/token"
	"os"
	"path/filepath"
	"strconv"
	"strings"
)

var fset = token.NewFileSet()

func die(pos token.Pos, f string, a ...interface{}) {
	where := ""
	if pos.IsValid() {
		where = fset.Position(pos).String() + ": "
	}
	fmt.Fprintf(os.Stderr, "save2coq: "+where+f+"\n", a...)
	os.Exit(2)
}

func coqStr(s string) string { return `"` + strings.ReplaceAll(s, `"`, `""`) + `"` }

type op struct {
	kind string
	a, b string
	ab   bool
	pos  token.Pos
}

type saveCtx struct {
	recv    string
	dataVar string
	paths   map[string]string // path variables -> name relative to the cache dir
	files   map[string]string // *os.File variables -> name
	fields  map[string]string // cch.<field> -> name
	ops     []op
	pending []int // indices of ops whose error is in `err`, awaiting `if err != nil`
}

func sel(e ast.Expr) (string, string, bool) {
	s, ok := e.(*ast.SelectorExpr)
	if !ok {
		return "", "", false
	}
	x, ok := s.X.(*ast.Ident)
	if !ok {
		return "", "", false
	}
	return x.Name, s.Sel.Name, true
}

func (c *saveCtx) pathExpr(e ast.Expr) string {
	switch v := e.(type) {
	case *ast.Ident:
		if p, ok := c.paths[v.Name]; ok {
			return p
		}
	case *ast.SelectorExpr:
		if x, f, ok := sel(v); ok && x == c.recv {
			if p, ok := c.fields[f]; ok {
				return p
			}
		}
	case *ast.BinaryExpr:
		if v.Op == token.ADD {
			if lit, ok := v.Y.(*ast.BasicLit); ok && lit.Kind == token.STRING {
				s, _ := strconv.Unquote(lit.Value)
				return c.pathExpr(v.X) + s
			}
		}
	case *ast.CallExpr:
		if x, f, ok := sel(v.Fun); ok && f == "Name" && len(v.Args) == 0 {
			if p, ok := c.files[x]; ok {
				return p
			}
		}
	case *ast.ParenExpr:
		return c.pathExpr(v.X)
	}
	die(e.Pos(), "unrecognised path expression")
	return ""
}

func (c *saveCtx) isData(e ast.Expr) bool {
	id, ok := e.(*ast.Ident)
	return ok && id.Name == c.dataVar && c.dataVar != ""
}

// call translates a call expression into operations; returns the indices of the new ops and
// whether the call was recognised as a file operation.
func (c *saveCtx) call(call *ast.CallExpr, lhs []ast.Expr) ([]int, bool) {
	x, f, ok := sel(call.Fun)
	if !ok {
		die(call.Pos(), "unrecognised call")
	}
	start := len(c.ops)
	add := func(kind, a, b string) { c.ops = append(c.ops, op{kind: kind, a: a, b: b, pos: call.Pos()}) }
	switch {
	case x == "os" && f == "WriteFile" && len(call.Args) == 3:
		if !c.isData(call.Args[1]) {
			die(call.Pos(), "os.WriteFile of something that is not the snapshot data")
		}
		p := c.pathExpr(call.Args[0])
		add("OpCreate", p, "")
		add("OpWrite", p, "")
		add("OpClose", p, "")
	case x == "os" && f == "Rename" && len(call.Args) == 2:
		add("OpRename", c.pathExpr(call.Args[0]), c.pathExpr(call.Args[1]))
	case x == "os" && f == "Remove" && len(call.Args) == 1:
		add("OpRemove", c.pathExpr(call.Args[0]), "")
	case x == "os" && (f == "CreateTemp" || f == "OpenFile" || f == "Create"):
		var p string
		switch f {
		case "CreateTemp":
			if len(call.Args) != 2 {
				die(call.Pos(), "os.CreateTemp: unexpected arguments")
			}
			lit, ok := call.Args[1].(*ast.BasicLit)
			if !ok {
				die(call.Pos(), "os.CreateTemp: pattern is not a literal")
			}
			s, _ := strconv.Unquote(lit.Value)
			p = "<temp:" + s + ">"
		case "OpenFile":
			if len(call.Args) != 3 {
				die(call.Pos(), "os.OpenFile: unexpected arguments")
			}
			flags := fmt.Sprint(exprString(call.Args[1]))
			if !strings.Contains(flags, "O_TRUNC") || !strings.Contains(flags, "O_CREATE") || strings.Contains(flags, "O_APPEND") {
				die(call.Pos(), "os.OpenFile: only O_CREATE|O_TRUNC opens are modelled (flags %s)", flags)
			}
			p = c.pathExpr(call.Args[0])
		case "Create":
			p = c.pathExpr(call.Args[0])
		}
		if len(lhs) < 1 {
			die(call.Pos(), "result of os.%s is dropped", f)
		}
		id, ok := lhs[0].(*ast.Ident)
		if !ok || id.Name == "_" {
			die(call.Pos(), "file returned by os.%s is not bound to a variable", f)
		}
		c.files[id.Name] = p
		add("OpCreate", p, "")
	default:
		p, isFile := c.files[x]
		if !isFile {
			return nil, false
		}
		switch f {
		case "Write":
			if len(call.Args) != 1 || !c.isData(call.Args[0]) {
				die(call.Pos(), "Write of something that is not the snapshot data")
			}
			add("OpWrite", p, "")
		case "Sync":
			add("OpSync", p, "")
		case "Close":
			add("OpClose", p, "")
		default:
			die(call.Pos(), "unrecognised file method %s", f)
		}
	}
	var idx []int
	for i := start; i < len(c.ops); i++ {
		idx = append(idx, i)
	}
	return idx, true
}

func exprString(e ast.Expr) string {
	switch v := e.(type) {
	case *ast.BinaryExpr:
		return exprString(v.X) + v.Op.String() + exprString(v.Y)
	case *ast.SelectorExpr:
		return exprString(v.X) + "." + v.Sel.Name
	case *ast.Ident:
		return v.Name
	case *ast.ParenExpr:
		return exprString(v.X)
	case *ast.BasicLit:
		return v.Value
	}
	return "?"
}

// errCheckReturns: is `cond` the test `err != nil` and does the body end in a return?
func errCheckReturns(cond ast.Expr, body *ast.BlockStmt) bool {
	b, ok := cond.(*ast.BinaryExpr)
	if !ok || b.Op != token.NEQ {
		return false
	}
	x, ok1 := b.X.(*ast.Ident)
	y, ok2 := b.Y.(*ast.Ident)
	if !ok1 || !ok2 || x.Name != "err" || y.Name != "nil" {
		return false
	}
	if len(body.List) == 0 {
		return false
	}
	_, isRet := body.List[len(body.List)-1].(*ast.ReturnStmt)
	return isRet
}

func assignsErr(lhs []ast.Expr) bool {
	for _, l := range lhs {
		if id, ok := l.(*ast.Ident); ok && id.Name == "err" {
			return true
		}
	}
	return false
}

func (c *saveCtx) stmt(s ast.Stmt, last bool) {
	switch v := s.(type) {
	case *ast.ExprStmt:
		call, ok := v.X.(*ast.CallExpr)
		if !ok {
			die(s.Pos(), "unrecognised statement")
		}
		if x, _, ok := sel(call.Fun); ok && x == "log" {
			return
		}
		if _, ok := c.call(call, nil); !ok {
			die(s.Pos(), "unrecognised call statement")
		}
		c.pending = nil // error dropped: ops stay ab=false
	case *ast.AssignStmt:
		if len(v.Rhs) != 1 {
			die(s.Pos(), "unrecognised assignment")
		}
		if call, ok := v.Rhs[0].(*ast.CallExpr); ok {
			if x, f, ok := sel(call.Fun); ok && x == c.recv && f == "Snapshot" {
				id, ok := v.Lhs[0].(*ast.Ident)
				if !ok || len(v.Lhs) != 2 {
					die(s.Pos(), "unexpected use of Snapshot()")
				}
				c.dataVar = id.Name
				c.pending = nil
				return
			}
			if idx, ok := c.call(call, v.Lhs); ok {
				c.pending = nil
				if assignsErr(v.Lhs) {
					c.pending = idx
				}
				return
			}
		}
		// path variable
		if len(v.Lhs) == 1 {
			if id, ok := v.Lhs[0].(*ast.Ident); ok {
				c.paths[id.Name] = c.pathExpr(v.Rhs[0])
				return
			}
		}
		die(s.Pos(), "unrecognised assignment")
	case *ast.IfStmt:
		if v.Else != nil {
			die(s.Pos(), "if/else is not a recognised shape")
		}
		if v.Init != nil {
			as, ok := v.Init.(*ast.AssignStmt)
			if !ok || len(as.Rhs) != 1 {
				die(s.Pos(), "unrecognised if-init")
			}
			call, ok := as.Rhs[0].(*ast.CallExpr)
			if !ok {
				die(s.Pos(), "unrecognised if-init")
			}
			idx, ok := c.call(call, as.Lhs)
			if !ok || !assignsErr(as.Lhs) {
				die(s.Pos(), "unrecognised if-init call")
			}
			if !errCheckReturns(v.Cond, v.Body) {
				die(s.Pos(), "if-init operation whose body does not return on err != nil")
			}
			for _, i := range idx {
				c.ops[i].ab = true
			}
			c.pending = nil
			return
		}
		if !errCheckReturns(v.Cond, v.Body) {
			die(s.Pos(), "unrecognised if statement (only `if err != nil { ...; return ... }`)")
		}
		for _, i := range c.pending {
			c.ops[i].ab = true
		}
		c.pending = nil
	case *ast.ReturnStmt:
		if !last {
			die(s.Pos(), "return in the middle of Save")
		}
	default:
		die(s.Pos(), "unrecognised statement %T", s)
	}
}

func main() {
	root := flag.String("root", "/repo", "repository root")
	out := flag.String("out", "", "output .v file")
	flag.Parse()
	rel := "pkg/resmgr/cache/cache.go"
	file, err := parser.ParseFile(fset, filepath.Join(*root, rel), nil, parser.SkipObjectResolution)
	if err != nil {
		die(token.NoPos, "%v", err)
	}
	funcs := map[string]*ast.FuncDecl{}
	perms := map[string][2]int64{}
	permPos := map[string]token.Pos{}
	for _, d := range file.Decls {
		switch d := d.(type) {
		case *ast.FuncDecl:
			name := d.Name.Name
			if d.Recv != nil {
				name = "cache." + name
			}
			funcs[name] = d
		case *ast.GenDecl:
			if d.Tok != token.VAR {
				continue
			}
			for _, s := range d.Specs {
				vs := s.(*ast.ValueSpec)
				for i, n := range vs.Names {
					if i >= len(vs.Values) {
						continue
					}
					u, ok := vs.Values[i].(*ast.UnaryExpr)
					if !ok || u.Op != token.AND {
						continue
					}
					cl, ok := u.X.(*ast.CompositeLit)
					if !ok {
						continue
					}
					if id, ok := cl.Type.(*ast.Ident); !ok || id.Name != "permissions" {
						continue
					}
					var pr [2]int64
					seen := 0
					for _, el := range cl.Elts {
						kv, ok := el.(*ast.KeyValueExpr)
						if !ok {
							die(el.Pos(), "permissions literal without field names")
						}
						lit, ok := kv.Value.(*ast.BasicLit)
						if !ok || lit.Kind != token.INT {
							die(el.Pos(), "permissions literal with a non-literal value")
						}
						val, err := strconv.ParseInt(lit.Value, 0, 64)
						if err != nil {
							die(el.Pos(), "%v", err)
						}
						switch kv.Key.(*ast.Ident).Name {
						case "prefer":
							pr[0] = val
							seen |= 1
						case "reject":
							pr[1] = val
							seen |= 2
						default:
							die(el.Pos(), "unknown permissions field")
						}
					}
					if seen != 3 {
						die(cl.Pos(), "permissions literal must set prefer and reject")
					}
					perms[n.Name] = pr
					permPos[n.Name] = n.Pos()
				}
			}
		}
	}

	// ---- NewCache: field initialisers and permission checks
	nc := funcs["NewCache"]
	if nc == nil {
		die(token.NoPos, "func NewCache not found")
	}
	optName := ""
	if len(nc.Type.Params.List) == 1 && len(nc.Type.Params.List[0].Names) == 1 {
		optName = nc.Type.Params.List[0].Names[0].Name
	} else {
		die(nc.Pos(), "NewCache: unexpected parameters")
	}
	fields := map[string]string{}
	recvNC := ""
	type check struct {
		name  string
		isDir bool
		perm  string
		pos   token.Pos
	}
	var checks []check
	loadSeen := false
	ncPath := func(e ast.Expr) string {
		if x, f, ok := sel(e); ok {
			if x == recvNC {
				if p, ok := fields[f]; ok {
					return p
				}
			}
			if x == optName && f == "CacheDir" {
				return "."
			}
		}
		die(e.Pos(), "NewCache: unrecognised path argument")
		return ""
	}
	for i, s := range nc.Body.List {
		switch v := s.(type) {
		case *ast.AssignStmt:
			if i != 0 || len(v.Lhs) != 1 || len(v.Rhs) != 1 {
				die(s.Pos(), "NewCache: unrecognised assignment")
			}
			recvNC = v.Lhs[0].(*ast.Ident).Name
			u, ok := v.Rhs[0].(*ast.UnaryExpr)
			if !ok {
				die(s.Pos(), "NewCache: expected &cache{...}")
			}
			cl, ok := u.X.(*ast.CompositeLit)
			if !ok {
				die(s.Pos(), "NewCache: expected &cache{...}")
			}
			for _, el := range cl.Elts {
				kv := el.(*ast.KeyValueExpr)
				call, ok := kv.Value.(*ast.CallExpr)
				if !ok {
					continue
				}
				if x, f, ok := sel(call.Fun); ok && x == "filepath" && f == "Join" && len(call.Args) == 2 {
					if a, b, ok := sel(call.Args[0]); ok && a == optName && b == "CacheDir" {
						if lit, ok := call.Args[1].(*ast.BasicLit); ok {
							name, _ := strconv.Unquote(lit.Value)
							fields[kv.Key.(*ast.Ident).Name] = name
						}
					}
				}
			}
		case *ast.IfStmt:
			as, ok := v.Init.(*ast.AssignStmt)
			if !ok || len(as.Rhs) != 1 || !assignsErr(as.Lhs) || !errCheckReturns(v.Cond, v.Body) || v.Else != nil {
				die(s.Pos(), "NewCache: unrecognised if statement")
			}
			call, ok := as.Rhs[0].(*ast.CallExpr)
			if !ok {
				die(s.Pos(), "NewCache: unrecognised if statement")
			}
			x, f, ok := sel(call.Fun)
			if !ok || x != recvNC {
				die(s.Pos(), "NewCache: unrecognised call")
			}
			if loadSeen {
				die(s.Pos(), "NewCache: check after Load")
			}
			switch f {
			case "checkPerm":
				if len(call.Args) != 4 {
					die(s.Pos(), "checkPerm: unexpected arguments")
				}
				isDir := exprString(call.Args[2])
				if isDir != "true" && isDir != "false" {
					die(s.Pos(), "checkPerm: isDir is not a literal")
				}
				checks = append(checks, check{ncPath(call.Args[1]), isDir == "true", exprString(call.Args[3]), s.Pos()})
			case "mkdirAll":
				if len(call.Args) != 3 {
					die(s.Pos(), "mkdirAll: unexpected arguments")
				}
				checks = append(checks, check{ncPath(call.Args[1]), true, exprString(call.Args[2]), s.Pos()})
			case "Load":
				loadSeen = true
			default:
				die(s.Pos(), "NewCache: unrecognised call %s", f)
			}
		case *ast.ReturnStmt:
		default:
			die(s.Pos(), "NewCache: unrecognised statement %T", s)
		}
	}
	if !loadSeen {
		die(nc.Pos(), "NewCache does not call Load")
	}
	if fields["filePath"] == "" {
		die(nc.Pos(), "NewCache: filePath initialiser not recognised")
	}
	// mkdirAll must check before creating
	if mk := funcs["cache.mkdirAll"]; mk == nil || len(mk.Body.List) < 2 {
		die(token.NoPos, "mkdirAll not found")
	} else {
		as, ok := mk.Body.List[0].(*ast.AssignStmt)
		okShape := ok && len(as.Rhs) == 1 && assignsErr(as.Lhs)
		if okShape {
			call, ok := as.Rhs[0].(*ast.CallExpr)
			okShape = ok
			if ok {
				_, f, ok := sel(call.Fun)
				okShape = ok && f == "checkPerm" && len(call.Args) == 4 && exprString(call.Args[2]) == "true" &&
					exprString(call.Args[1]) == "path" && exprString(call.Args[3]) == "p"
			}
		}
		if okShape {
			ifs, ok := mk.Body.List[1].(*ast.IfStmt)
			okShape = ok && ifs.Init == nil && errCheckReturns(ifs.Cond, ifs.Body)
		}
		if !okShape {
			die(mk.Pos(), "mkdirAll does not start with `exists, err := cch.checkPerm(what, path, true, p); if err != nil { return err }`")
		}
	}

	// ---- Load: which file is read
	ld := funcs["cache.Load"]
	if ld == nil {
		die(token.NoPos, "Load not found")
	}
	recvLd := ld.Recv.List[0].Names[0].Name
	loadPath := ""
	ast.Inspect(ld.Body, func(n ast.Node) bool {
		call, ok := n.(*ast.CallExpr)
		if !ok {
			return true
		}
		if x, f, ok := sel(call.Fun); ok && x == "os" && (f == "ReadFile" || f == "Open") && len(call.Args) == 1 {
			if a, b, ok := sel(call.Args[0]); ok && a == recvLd {
				if loadPath != "" {
					die(call.Pos(), "Load reads more than one file")
				}
				loadPath = fields[b]
			}
		}
		return true
	})
	if loadPath == "" {
		die(ld.Pos(), "Load: the file it reads was not recognised")
	}

	// ---- Save
	sv := funcs["cache.Save"]
	if sv == nil {
		die(token.NoPos, "Save not found")
	}
	c := &saveCtx{recv: sv.Recv.List[0].Names[0].Name, paths: map[string]string{}, files: map[string]string{}, fields: fields}
	for i, s := range sv.Body.List {
		c.stmt(s, i == len(sv.Body.List)-1)
	}
	if c.dataVar == "" {
		die(sv.Pos(), "Save does not call Snapshot()")
	}

	var b strings.Builder
	b.WriteString("(* GENERATED by tools/save2coq from the current source tree -- do not edit. *)\n")
	b.WriteString("From Coq Require Import String ZArith List Bool.\nFrom NV Require Import C10_Model.\nImport ListNotations.\nOpen Scope string_scope.\n\n")
	fmt.Fprintf(&b, "(* %s:%d NewCache: filePath = CacheDir/%s ; %s:%d Load reads it *)\n", rel, fset.Position(nc.Pos()).Line, fields["filePath"], rel, fset.Position(ld.Pos()).Line)
	fmt.Fprintf(&b, "Definition gen_cache_file : string := %s.\nDefinition gen_load_path : string := %s.\n\n", coqStr(fields["filePath"]), coqStr(loadPath))
	fmt.Fprintf(&b, "(* %s:%d Save *)\nDefinition gen_save_prog : list fsop := [\n", rel, fset.Position(sv.Pos()).Line)
	for i, o := range c.ops {
		sep := ";"
		if i == len(c.ops)-1 {
			sep = ""
		}
		args := coqStr(o.a)
		if o.kind == "OpRename" {
			args += " " + coqStr(o.b)
		}
		fmt.Fprintf(&b, "  %s %s %v%s (* line %d *)\n", o.kind, args, o.ab, sep, fset.Position(o.pos).Line)
	}
	b.WriteString("].\n\n")
	for _, n := range []string{"cacheDirPerm", "cacheFilePerm", "dataDirPerm", "dataFilePerm"} {
		p, ok := perms[n]
		if !ok {
			die(token.NoPos, "permissions variable %s not found", n)
		}
		fmt.Fprintf(&b, "(* %s:%d *)\nDefinition gen_%s_prefer : Z := %d%%Z.\nDefinition gen_%s_reject : Z := %d%%Z.\n", rel, fset.Position(permPos[n]).Line, n, p[0], n, p[1])
	}
	b.WriteString("\n(* NewCache's checks, in order: (name relative to the cache dir, is_dir, reject mask) *)\nDefinition gen_newcache_checks : list (string * bool * Z) := [\n")
	for i, ck := range checks {
		p, ok := perms[ck.perm]
		if !ok {
			die(ck.pos, "unknown permissions variable %s", ck.perm)
		}
		sep := ";"
		if i == len(checks)-1 {
			sep = ""
		}
		fmt.Fprintf(&b, "  (%s, %v, %d%%Z)%s (* line %d, %s *)\n", coqStr(ck.name), ck.isDir, p[1], sep, fset.Position(ck.pos).Line, ck.perm)
	}
	b.WriteString("].\n")

	if *out == "" {
		fmt.Print(b.String())
		return
	}
	old, _ := os.ReadFile(*out)
	if string(old) == b.String() {
		return
	}
	if err := os.WriteFile(*out, []byte(b.String()), 0o644); err != nil {
		die(token.NoPos, "%v", err)
	}
}
