// locks2coq: extract the lock/access skeleton of the resource manager's request entry points
// into Coq (Gen/Gen_Locks.v) and a JSON side file with source positions.
//
//   handlers    every exported method of *nriPlugin in pkg/resmgr/nri.go (the NRI handlers),
//               updateConfig / reconfigure / Stop of *resmgr in pkg/resmgr/resource-manager.go
//   rendezvous  goFetchPodResources / GetPodResources of *pod in pkg/resmgr/cache/pod.go and,
//               when the pod only stores the channel it is given, GoGetPodResources of
//               pkg/agent/pod-resource-api.go (where that channel is created)
//
// step ::= Lock | Unlock | Access | Spawn [steps] | Wait | Signal | ChanMake, in program order.
//
// Handlers.  Only the top-level statements of a function body are sequenced:
//   X.Lock() / X.Unlock()        X the resmgr (receiver m, alias `m := p.resmgr`, p.resmgr)   -> Lock / Unlock
//   defer X.Unlock()             -> Unlock at the end (defers run in LIFO order)
//   defer f(..) / defer func(){..}()  -> Access at the end if it is an access (see below)
//   go func(){ body }()          -> Spawn [skeleton of body]   (top level, or nested in if/switch/block)
//   name := func(..){..}         -> no step; a later call name(..) is an access iff the body is
//   simple statement calling a self-locking in-package function (reconfigure)  -> its skeleton inlined
//   any other statement (compound statements as a whole)  -> Access iff it is an access
// A statement is an ACCESS iff it
//   * mentions a selector .cache .policy .cfg .control .byname, or
//   * calls a function or method declared in package resmgr that is not on the whitelist of pure
//     helpers [(*nriPlugin).dump, (*nriPlugin).dumpDetails, podSpanTags, containerSpanTags, marshal,
//     resmgrError] (the whitelist is verified: a whitelisted body must itself contain no access)
//     and not a bring-up call [(*resmgr).start: runs once, before the NRI plugin is registered], or
//   * calls a local closure whose body is an access, or
//   * mentions a variable holding a cache object (result of a cache.Cache / cache.Pod /
//     cache.Container method or of an in-package function whose declared result type mentions
//     Container or Pod; slices.Clone/append of such), or
//   * calls metrics.Block() or uses its result (that takes the metrics gatherer's mutex: the model
//     has one mutex, so the second one is required to nest inside the pipeline lock, which rules
//     out lock-order inversion).
// REFUSED (exit 2, nothing guessed): Lock/Unlock on anything else or nested inside a compound
// statement, closure or deferred closure; RLock/RUnlock; an explicit (non-deferred) Unlock with a
// return statement in between; `go` inside a loop or inside a goroutine; a self-locking call inside
// a compound statement; a missing entry point; a whitelisted helper that is not pure.
//
// Rendezvous (pod.go), receiver p:
//   p.F = make(chan ..)  -> ChanMake        close(p.F) / defer close(p.F) -> Signal (deferred: at the end)
//   <-p.R  where R is the field GetPodResources receives from -> Wait (an enclosing `if p.R != nil`
//   guard is the nil-check the model's Wait includes); as the right-hand side of an assignment -> Wait; Access
//   go func(){..}() -> Spawn;  if-statements are flattened;  any other statement mentioning p.<field> -> Access
// agent.GoGetPodResources: ch := make(..) -> ChanMake; go func -> Spawn; `ch <- v` -> Access;
//   defer close(ch) -> Signal.
package main

import (
	"encoding/json"
	"flag"
	"fmt"
	"go/ast"
	"go/parser"
	"go/token"
	"os"
	"path/filepath"
	"sort"
	"strings"
)

type Step struct {
	Kind     string `json:"kind"`
	Body     []Step `json:"body,omitempty"`
	Line     int    `json:"line"`
	End      int    `json:"end"`
	Deferred bool   `json:"deferred,omitempty"`
	Held     bool   `json:"held"` // lock held when the step starts (filled in afterwards)
	Why      string `json:"why,omitempty"`
}

type Skel struct {
	Name     string `json:"name"`
	File     string `json:"file"`
	Line     int    `json:"line"`
	End      int    `json:"end"`
	Steps    []Step `json:"steps"`
	FuncName string `json:"func"`
}

func refuse(format string, a ...interface{}) {
	fmt.Fprintf(os.Stderr, "locks2coq: REFUSED: "+format+"\n", a...)
	os.Exit(2)
}

var accessFields = map[string]bool{"cache": true, "policy": true, "cfg": true, "control": true, "byname": true}
var whitelist = map[string]bool{"nriPlugin.dump": true, "nriPlugin.dumpDetails": true, "podSpanTags": true,
	"containerSpanTags": true, "marshal": true, "resmgrError": true}
var bringup = map[string]bool{"resmgr.start": true}

type pkgInfo struct {
	fset    *token.FileSet
	funcs   map[string]*ast.FuncDecl // "recvType.name" or "name"
	files   map[string]*ast.File
	ifaces  map[string]map[string]*ast.FuncType // cache interfaces: Cache/Pod/Container -> method -> type
	selfLck map[string]bool
	skels   map[string][]Step
	busy    map[string]bool
}

func recvType(fd *ast.FuncDecl) string {
	if fd.Recv == nil || len(fd.Recv.List) == 0 {
		return ""
	}
	t := fd.Recv.List[0].Type
	if s, ok := t.(*ast.StarExpr); ok {
		t = s.X
	}
	if id, ok := t.(*ast.Ident); ok {
		return id.Name
	}
	return "?"
}

func recvName(fd *ast.FuncDecl) string {
	if fd.Recv == nil || len(fd.Recv.List) == 0 || len(fd.Recv.List[0].Names) == 0 {
		return ""
	}
	return fd.Recv.List[0].Names[0].Name
}

func key(fd *ast.FuncDecl) string {
	if r := recvType(fd); r != "" {
		return r + "." + fd.Name.Name
	}
	return fd.Name.Name
}

func typeMentions(e ast.Expr, names ...string) bool {
	found := false
	ast.Inspect(e, func(n ast.Node) bool {
		if id, ok := n.(*ast.Ident); ok {
			for _, nm := range names {
				if id.Name == nm {
					found = true
				}
			}
		}
		return !found
	})
	return found
}

// ---------------------------------------------------------------- handler analysis

type fctx struct {
	pi       *pkgInfo
	fd       *ast.FuncDecl
	recv     string            // receiver identifier
	rtype    string            // receiver type
	aliases  map[string]string // identifier -> "resmgr" | "nriPlugin"
	tainted  map[string]bool
	mblock   map[string]bool // variables holding the result of metrics.Block()
	closures map[string]bool // local closure name -> its body is an access
	inGo     bool
}

// static type (resmgr / nriPlugin / cacheobj:<iface> / "") of a base expression
func (c *fctx) baseType(e ast.Expr) string {
	switch v := e.(type) {
	case *ast.Ident:
		if t, ok := c.aliases[v.Name]; ok {
			return t
		}
		if c.tainted[v.Name] {
			return "cacheobj"
		}
	case *ast.SelectorExpr:
		bt := c.baseType(v.X)
		switch {
		case bt == "nriPlugin" && v.Sel.Name == "resmgr":
			return "resmgr"
		case bt == "resmgr" && v.Sel.Name == "nri":
			return "nriPlugin"
		case bt == "resmgr" && v.Sel.Name == "cache":
			return "cache"
		}
	case *ast.ParenExpr:
		return c.baseType(v.X)
	}
	return ""
}

func (c *fctx) isLockCall(call *ast.CallExpr) (string, bool) {
	sel, ok := call.Fun.(*ast.SelectorExpr)
	if !ok {
		return "", false
	}
	switch sel.Sel.Name {
	case "Lock", "Unlock", "RLock", "RUnlock", "TryLock":
	default:
		return "", false
	}
	if c.baseType(sel.X) != "resmgr" {
		refuse("%s: %s() on something that is not the resource manager", c.pi.fset.Position(call.Pos()), sel.Sel.Name)
	}
	if sel.Sel.Name != "Lock" && sel.Sel.Name != "Unlock" {
		refuse("%s: %s() is not modelled", c.pi.fset.Position(call.Pos()), sel.Sel.Name)
	}
	return sel.Sel.Name, true
}

// in-package callee key of a call, "" if the callee is not declared in package resmgr
func (c *fctx) callee(call *ast.CallExpr) string {
	switch f := call.Fun.(type) {
	case *ast.Ident:
		if _, ok := c.pi.funcs[f.Name]; ok {
			return f.Name
		}
	case *ast.SelectorExpr:
		bt := c.baseType(f.X)
		if bt == "resmgr" || bt == "nriPlugin" {
			k := bt + "." + f.Sel.Name
			if _, ok := c.pi.funcs[k]; ok {
				return k
			}
		}
	}
	return ""
}

func isMetricsBlock(call *ast.CallExpr) bool {
	if sel, ok := call.Fun.(*ast.SelectorExpr); ok {
		if id, ok := sel.X.(*ast.Ident); ok && id.Name == "metrics" && sel.Sel.Name == "Block" {
			return true
		}
	}
	return false
}

// why a node is an access ("" if it is not)
func (c *fctx) access(n ast.Node) string {
	why := ""
	ast.Inspect(n, func(x ast.Node) bool {
		if why != "" || x == nil {
			return false
		}
		switch v := x.(type) {
		case *ast.SelectorExpr:
			if accessFields[v.Sel.Name] {
				why = "." + v.Sel.Name
			}
		case *ast.Ident:
			if c.tainted[v.Name] {
				why = "cache object " + v.Name
				if c.mblock[v.Name] {
					why = "metrics block handle " + v.Name
				}
			}
		case *ast.CallExpr:
			if isMetricsBlock(v) {
				why = "metrics.Block()"
				return false
			}
			if id, ok := v.Fun.(*ast.Ident); ok {
				if acc, ok := c.closures[id.Name]; ok && acc {
					why = "closure " + id.Name
					return false
				}
			}
			if k := c.callee(v); k != "" && !whitelist[k] && !bringup[k] {
				why = "call " + k
			}
		}
		return why == ""
	})
	return why
}

func (c *fctx) hasLockOps(n ast.Node) bool {
	found := false
	ast.Inspect(n, func(x ast.Node) bool {
		if call, ok := x.(*ast.CallExpr); ok {
			if _, is := c.isLockCall(call); is {
				found = true
			}
		}
		return !found
	})
	return found
}

func (c *fctx) selfLockingCall(n ast.Node) (string, *ast.CallExpr) {
	var k string
	var at *ast.CallExpr
	ast.Inspect(n, func(x ast.Node) bool {
		if call, ok := x.(*ast.CallExpr); ok {
			if kk := c.callee(call); kk != "" && c.pi.isSelfLocking(kk) {
				k, at = kk, call
			}
		}
		return k == ""
	})
	return k, at
}

func hasReturn(n ast.Node) bool {
	found := false
	ast.Inspect(n, func(x ast.Node) bool {
		switch x.(type) {
		case *ast.ReturnStmt:
			found = true
		case *ast.FuncLit:
			return false
		}
		return !found
	})
	return found
}

func (c *fctx) line(p token.Pos) int { return c.pi.fset.Position(p).Line }

// result types of a call whose value is a cache object: indices of the results to taint
func (c *fctx) taintedResults(rhs ast.Expr) []int {
	call, ok := rhs.(*ast.CallExpr)
	if !ok {
		return nil
	}
	if isMetricsBlock(call) {
		return []int{0}
	}
	var ft *ast.FuncType
	if k := c.callee(call); k != "" {
		ft = c.pi.funcs[k].Type
	} else if sel, ok := call.Fun.(*ast.SelectorExpr); ok {
		bt := c.baseType(sel.X)
		var ifs []string
		if bt == "cache" {
			ifs = []string{"Cache"}
		} else if bt == "cacheobj" {
			ifs = []string{"Pod", "Container"}
		}
		for _, i := range ifs {
			if t, ok := c.pi.ifaces[i][sel.Sel.Name]; ok {
				ft = t
				break
			}
		}
		if ft == nil {
			// slices.Clone(x) of a cache-object value
			if id, ok := sel.X.(*ast.Ident); ok && id.Name == "slices" && len(call.Args) > 0 {
				if c.access(call.Args[0]) != "" {
					return []int{0}
				}
			}
			return nil
		}
	} else if id, ok := call.Fun.(*ast.Ident); ok && id.Name == "append" && len(call.Args) > 0 {
		if c.access(call.Args[0]) != "" {
			return []int{0}
		}
		return nil
	}
	if ft == nil || ft.Results == nil {
		return nil
	}
	var out []int
	i := 0
	for _, f := range ft.Results.List {
		n := len(f.Names)
		if n == 0 {
			n = 1
		}
		for k := 0; k < n; k++ {
			if typeMentions(f.Type, "Container", "Pod", "Cache") {
				out = append(out, i)
			}
			i++
		}
	}
	return out
}

func (c *fctx) noteAssign(as *ast.AssignStmt) {
	if len(as.Rhs) == 1 {
		// alias of the resource manager / plugin
		if len(as.Lhs) == 1 {
			if id, ok := as.Lhs[0].(*ast.Ident); ok {
				if bt := c.baseType(as.Rhs[0]); bt == "resmgr" || bt == "nriPlugin" {
					c.aliases[id.Name] = bt
					return
				}
			}
		}
		isBlock := false
		if call, ok := as.Rhs[0].(*ast.CallExpr); ok && isMetricsBlock(call) {
			isBlock = true
		}
		for _, i := range c.taintedResults(as.Rhs[0]) {
			if i < len(as.Lhs) {
				if id, ok := as.Lhs[i].(*ast.Ident); ok && id.Name != "_" {
					c.tainted[id.Name] = true
					if isBlock {
						c.mblock[id.Name] = true
					}
				}
			}
		}
	}
}

// goroutines found inside a statement (their bodies are not descended into)
func (c *fctx) nestedGo(n ast.Node, out *[]*ast.GoStmt) {
	ast.Inspect(n, func(x ast.Node) bool {
		if g, ok := x.(*ast.GoStmt); ok {
			*out = append(*out, g)
			return false
		}
		return true
	})
}

func (c *fctx) goInLoop(n ast.Node) bool {
	found := false
	var walk func(x ast.Node, inLoop bool)
	walk = func(x ast.Node, inLoop bool) {
		ast.Inspect(x, func(y ast.Node) bool {
			if y == nil || found {
				return false
			}
			switch v := y.(type) {
			case *ast.GoStmt:
				if inLoop {
					found = true
				}
				return false
			case *ast.ForStmt:
				if v != x {
					walk(v.Body, true)
					return false
				}
			case *ast.RangeStmt:
				if v != x {
					walk(v.Body, true)
					return false
				}
			}
			return true
		})
	}
	switch v := n.(type) {
	case *ast.ForStmt:
		walk(v.Body, true)
	case *ast.RangeStmt:
		walk(v.Body, true)
	default:
		walk(n, false)
	}
	return found
}

func (c *fctx) spawn(g *ast.GoStmt) Step {
	if c.inGo {
		refuse("%s: goroutine started inside a goroutine", c.pi.fset.Position(g.Pos()))
	}
	st := Step{Kind: "Spawn", Line: c.line(g.Pos()), End: c.line(g.End())}
	if fl, ok := g.Call.Fun.(*ast.FuncLit); ok {
		sub := *c
		sub.inGo = true
		st.Body = sub.stmts(fl.Body.List)
	} else if k := c.callee(g.Call); k != "" && c.pi.isSelfLocking(k) {
		st.Body = c.pi.skeleton(k)
	} else if w := c.access(g.Call); w != "" {
		st.Body = []Step{{Kind: "Access", Line: st.Line, End: st.End, Why: w}}
	}
	return st
}

func (c *fctx) stmts(list []ast.Stmt) []Step {
	var steps, deferred []Step
	explicitLockLine := 0 // line of an explicit Lock not yet matched by a deferred Unlock
	deferredUnlock := false
	for _, s := range list {
		l, e := c.line(s.Pos()), c.line(s.End())
		switch v := s.(type) {
		case *ast.ExprStmt:
			if call, ok := v.X.(*ast.CallExpr); ok {
				if op, is := c.isLockCall(call); is {
					steps = append(steps, Step{Kind: op, Line: l, End: e})
					if op == "Lock" {
						explicitLockLine = l
						deferredUnlock = false
					} else {
						explicitLockLine = 0
					}
					continue
				}
			}
		case *ast.DeferStmt:
			if op, is := c.isLockCall(v.Call); is {
				if op != "Unlock" {
					refuse("%s: defer %s()", c.pi.fset.Position(s.Pos()), op)
				}
				deferred = append(deferred, Step{Kind: "Unlock", Line: l, End: e, Deferred: true})
				deferredUnlock = true
				continue
			}
			if c.hasLockOps(v.Call) {
				refuse("%s: lock operation inside a deferred closure", c.pi.fset.Position(s.Pos()))
			}
			if k, _ := c.selfLockingCall(v.Call); k != "" {
				refuse("%s: deferred call of self-locking %s", c.pi.fset.Position(s.Pos()), k)
			}
			g := []*ast.GoStmt{}
			c.nestedGo(v.Call, &g)
			if len(g) > 0 {
				refuse("%s: goroutine started in a deferred closure", c.pi.fset.Position(s.Pos()))
			}
			if w := c.access(v.Call); w != "" {
				deferred = append(deferred, Step{Kind: "Access", Line: l, End: e, Deferred: true, Why: "deferred: " + w})
			}
			continue
		case *ast.GoStmt:
			if c.hasLockOps(v.Call) {
				// Lock/Unlock inside a goroutine body are handled by the recursive extraction
			}
			steps = append(steps, c.spawn(v))
			continue
		case *ast.AssignStmt:
			if len(v.Rhs) == 1 && len(v.Lhs) == 1 {
				if fl, ok := v.Rhs[0].(*ast.FuncLit); ok {
					if id, ok := v.Lhs[0].(*ast.Ident); ok {
						if c.hasLockOps(fl) {
							refuse("%s: lock operation inside closure %s", c.pi.fset.Position(fl.Pos()), id.Name)
						}
						if k, _ := c.selfLockingCall(fl); k != "" {
							refuse("%s: closure %s calls self-locking %s", c.pi.fset.Position(fl.Pos()), id.Name, k)
						}
						g := []*ast.GoStmt{}
						c.nestedGo(fl, &g)
						if len(g) > 0 {
							refuse("%s: goroutine started inside closure %s", c.pi.fset.Position(fl.Pos()), id.Name)
						}
						c.closures[id.Name] = c.access(fl.Body) != ""
						continue
					}
				}
			}
		}
		// simple or compound statement
		simple := false
		switch s.(type) {
		case *ast.ExprStmt, *ast.AssignStmt, *ast.ReturnStmt, *ast.DeclStmt, *ast.IncDecStmt, *ast.SendStmt, *ast.EmptyStmt:
			simple = true
		case *ast.IfStmt, *ast.ForStmt, *ast.RangeStmt, *ast.SwitchStmt, *ast.TypeSwitchStmt, *ast.BlockStmt, *ast.SelectStmt, *ast.LabeledStmt:
		default:
			refuse("%s: unrecognised statement %T", c.pi.fset.Position(s.Pos()), s)
		}
		if !simple && c.hasLockOps(s) {
			refuse("%s: lock operation nested inside a compound statement", c.pi.fset.Position(s.Pos()))
		}
		if simple && c.hasLockOps(s) {
			refuse("%s: lock operation inside an expression", c.pi.fset.Position(s.Pos()))
		}
		if k, _ := c.selfLockingCall(s); k != "" {
			if !simple {
				refuse("%s: call of self-locking %s nested inside a compound statement", c.pi.fset.Position(s.Pos()), k)
			}
			for _, st := range c.pi.skeleton(k) {
				st.Why = "inlined " + k + ": " + st.Why
				steps = append(steps, st)
			}
			continue
		}
		if !simple {
			if c.goInLoop(s) {
				refuse("%s: goroutine started inside a loop", c.pi.fset.Position(s.Pos()))
			}
			if explicitLockLine != 0 && !deferredUnlock && hasReturn(s) {
				refuse("%s: return between an explicit Lock (line %d) and a non-deferred Unlock", c.pi.fset.Position(s.Pos()), explicitLockLine)
			}
		}
		gos := []*ast.GoStmt{}
		if !simple {
			c.nestedGo(s, &gos)
		}
		// the access test ignores the bodies of nested goroutines (they run in their own thread)
		w := c.accessExcludingGo(s)
		if w != "" {
			steps = append(steps, Step{Kind: "Access", Line: l, End: e, Why: w})
		}
		for _, g := range gos {
			steps = append(steps, c.spawn(g))
		}
		if as, ok := s.(*ast.AssignStmt); ok {
			c.noteAssign(as)
		}
	}
	for i := len(deferred) - 1; i >= 0; i-- {
		steps = append(steps, deferred[i])
	}
	return steps
}

func (c *fctx) accessExcludingGo(s ast.Stmt) string {
	why := ""
	ast.Inspect(s, func(x ast.Node) bool {
		if why != "" || x == nil {
			return false
		}
		if _, ok := x.(*ast.GoStmt); ok {
			return false
		}
		switch x.(type) {
		case *ast.SelectorExpr, *ast.Ident, *ast.CallExpr:
			// test this node only (children are visited by Inspect)
			w := c.accessNode(x)
			if w != "" {
				why = w
				return false
			}
		}
		return true
	})
	return why
}

func (c *fctx) accessNode(x ast.Node) string {
	switch v := x.(type) {
	case *ast.SelectorExpr:
		if accessFields[v.Sel.Name] {
			return "." + v.Sel.Name
		}
	case *ast.Ident:
		if c.tainted[v.Name] {
			if c.mblock[v.Name] {
				return "metrics block handle " + v.Name
			}
			return "cache object " + v.Name
		}
	case *ast.CallExpr:
		if isMetricsBlock(v) {
			return "metrics.Block()"
		}
		if id, ok := v.Fun.(*ast.Ident); ok {
			if acc, ok := c.closures[id.Name]; ok && acc {
				return "closure " + id.Name
			}
		}
		if k := c.callee(v); k != "" && !whitelist[k] && !bringup[k] {
			return "call " + k
		}
	}
	return ""
}

func (pi *pkgInfo) newCtx(fd *ast.FuncDecl) *fctx {
	c := &fctx{pi: pi, fd: fd, recv: recvName(fd), rtype: recvType(fd), aliases: map[string]string{},
		tainted: map[string]bool{}, mblock: map[string]bool{}, closures: map[string]bool{}}
	if c.recv != "" {
		c.aliases[c.recv] = c.rtype
	}
	// parameters of cache object type
	for _, f := range fd.Type.Params.List {
		if typeMentions(f.Type, "Container", "Pod") {
			if se, ok := f.Type.(*ast.SelectorExpr); ok {
				if id, ok := se.X.(*ast.Ident); ok && id.Name == "cache" {
					for _, n := range f.Names {
						c.tainted[n.Name] = true
					}
				}
			}
			if el, ok := f.Type.(*ast.Ellipsis); ok {
				if se, ok := el.Elt.(*ast.SelectorExpr); ok {
					if id, ok := se.X.(*ast.Ident); ok && id.Name == "cache" {
						for _, n := range f.Names {
							c.tainted[n.Name] = true
						}
					}
				}
			}
		}
	}
	return c
}

// does the body of k (syntactically, at top level) lock the resource manager?
func (pi *pkgInfo) isSelfLocking(k string) bool {
	if v, ok := pi.selfLck[k]; ok {
		return v
	}
	fd := pi.funcs[k]
	res := false
	if fd != nil && fd.Body != nil {
		c := pi.newCtx(fd)
		pi.selfLck[k] = false // cycle guard
		for _, s := range fd.Body.List {
			if as, ok := s.(*ast.AssignStmt); ok {
				c.noteAssign(as)
			}
			if es, ok := s.(*ast.ExprStmt); ok {
				if call, ok := es.X.(*ast.CallExpr); ok {
					if sel, ok := call.Fun.(*ast.SelectorExpr); ok && sel.Sel.Name == "Lock" && c.baseType(sel.X) == "resmgr" {
						res = true
					}
				}
			}
		}
	}
	pi.selfLck[k] = res
	return res
}

func (pi *pkgInfo) skeleton(k string) []Step {
	if s, ok := pi.skels[k]; ok {
		return s
	}
	if pi.busy[k] {
		refuse("recursive self-locking call chain through %s", k)
	}
	pi.busy[k] = true
	fd := pi.funcs[k]
	if fd == nil || fd.Body == nil {
		refuse("entry point %s not found", k)
	}
	c := pi.newCtx(fd)
	s := c.stmts(fd.Body.List)
	pi.busy[k] = false
	pi.skels[k] = s
	return s
}

func (pi *pkgInfo) checkWhitelist() {
	for k := range whitelist {
		fd := pi.funcs[k]
		if fd == nil {
			continue // helper does not exist (any more): nothing to trust
		}
		c := pi.newCtx(fd)
		if w := c.access(fd.Body); w != "" {
			refuse("whitelisted helper %s is not pure: %s", k, w)
		}
		if c.hasLockOps(fd.Body) {
			refuse("whitelisted helper %s takes the lock", k)
		}
	}
}

func fillHeld(steps []Step, held bool) bool {
	for i := range steps {
		steps[i].Held = held
		switch steps[i].Kind {
		case "Lock":
			held = true
		case "Unlock":
			held = false
		case "Spawn":
			fillHeld(steps[i].Body, false)
		}
	}
	return held
}

// ---------------------------------------------------------------- rendezvous (pod.go, agent)

type rctx struct {
	fset  *token.FileSet
	recv  string // receiver identifier (pod.go) or "" (agent: local channel variable)
	rfld  string // field the reader receives from
	local string // local channel variable (agent)
}

func (r *rctx) line(p token.Pos) int { return r.fset.Position(p).Line }

func (r *rctx) fieldOf(e ast.Expr) string {
	if se, ok := e.(*ast.SelectorExpr); ok {
		if id, ok := se.X.(*ast.Ident); ok && r.recv != "" && id.Name == r.recv {
			return se.Sel.Name
		}
	}
	if id, ok := e.(*ast.Ident); ok && r.local != "" && id.Name == r.local {
		return "@" + id.Name
	}
	return ""
}

func (r *rctx) isChan(e ast.Expr) bool {
	f := r.fieldOf(e)
	return f != "" && (f == r.rfld || strings.HasPrefix(f, "@"))
}

func (r *rctx) mentionsState(n ast.Node) bool {
	found := false
	ast.Inspect(n, func(x ast.Node) bool {
		if se, ok := x.(*ast.SelectorExpr); ok {
			if id, ok := se.X.(*ast.Ident); ok && r.recv != "" && id.Name == r.recv {
				found = true
			}
		}
		return !found
	})
	return found
}

func (r *rctx) hasRecvFromChan(n ast.Node) bool {
	found := false
	ast.Inspect(n, func(x ast.Node) bool {
		if u, ok := x.(*ast.UnaryExpr); ok && u.Op == token.ARROW && r.isChan(u.X) {
			found = true
		}
		return !found
	})
	return found
}

func isMake(e ast.Expr) bool {
	if call, ok := e.(*ast.CallExpr); ok {
		if id, ok := call.Fun.(*ast.Ident); ok && id.Name == "make" && len(call.Args) > 0 {
			_, isch := call.Args[0].(*ast.ChanType)
			return isch
		}
	}
	return false
}

func (r *rctx) closeOf(call *ast.CallExpr) bool {
	if id, ok := call.Fun.(*ast.Ident); ok && id.Name == "close" && len(call.Args) == 1 {
		return r.isChan(call.Args[0])
	}
	return false
}

func (r *rctx) stmts(list []ast.Stmt, inGo bool) []Step {
	var steps, deferred []Step
	for _, s := range list {
		l, e := r.line(s.Pos()), r.line(s.End())
		switch v := s.(type) {
		case *ast.GoStmt:
			fl, ok := v.Call.Fun.(*ast.FuncLit)
			if !ok || inGo {
				refuse("%s: unrecognised goroutine shape", r.fset.Position(s.Pos()))
			}
			steps = append(steps, Step{Kind: "Spawn", Line: l, End: e, Body: r.stmts(fl.Body.List, true)})
		case *ast.DeferStmt:
			if r.closeOf(v.Call) {
				deferred = append(deferred, Step{Kind: "Signal", Line: l, End: e, Deferred: true})
			} else if r.mentionsState(v.Call) || r.hasRecvFromChan(v.Call) {
				refuse("%s: unrecognised deferred statement", r.fset.Position(s.Pos()))
			}
		case *ast.IfStmt:
			if v.Init != nil {
				steps = append(steps, r.stmts([]ast.Stmt{v.Init}, inGo)...)
			}
			if r.hasRecvFromChan(v.Cond) {
				refuse("%s: receive inside a condition", r.fset.Position(s.Pos()))
			}
			// a condition that reads pod state other than the nil-check of the channel is an access
			guard := false
			if be, ok := v.Cond.(*ast.BinaryExpr); ok && be.Op == token.NEQ {
				if id, ok := be.Y.(*ast.Ident); ok && id.Name == "nil" && r.fieldOf(be.X) != "" {
					guard = true
				}
			}
			if !guard && r.mentionsState(v.Cond) {
				steps = append(steps, Step{Kind: "Access", Line: l, End: l, Why: "condition"})
			}
			steps = append(steps, r.stmts(v.Body.List, inGo)...)
			if v.Else != nil {
				switch el := v.Else.(type) {
				case *ast.BlockStmt:
					steps = append(steps, r.stmts(el.List, inGo)...)
				default:
					steps = append(steps, r.stmts([]ast.Stmt{el}, inGo)...)
				}
			}
		case *ast.BlockStmt:
			steps = append(steps, r.stmts(v.List, inGo)...)
		case *ast.ExprStmt:
			if call, ok := v.X.(*ast.CallExpr); ok && r.closeOf(call) {
				steps = append(steps, Step{Kind: "Signal", Line: l, End: e})
				continue
			}
			if u, ok := v.X.(*ast.UnaryExpr); ok && u.Op == token.ARROW && r.isChan(u.X) {
				steps = append(steps, Step{Kind: "Wait", Line: l, End: e})
				continue
			}
			if r.hasRecvFromChan(v.X) {
				refuse("%s: receive inside an expression", r.fset.Position(s.Pos()))
			}
			if r.mentionsState(v.X) {
				steps = append(steps, Step{Kind: "Access", Line: l, End: e})
			}
		case *ast.AssignStmt:
			if len(v.Lhs) == 1 && len(v.Rhs) == 1 {
				if isMake(v.Rhs[0]) {
					if f := r.fieldOf(v.Lhs[0]); f != "" {
						steps = append(steps, Step{Kind: "ChanMake", Line: l, End: e, Why: f})
						continue
					}
					if id, ok := v.Lhs[0].(*ast.Ident); ok && r.recv == "" && r.local == "" {
						r.local = id.Name
						steps = append(steps, Step{Kind: "ChanMake", Line: l, End: e, Why: id.Name})
						continue
					}
				}
				if u, ok := v.Rhs[0].(*ast.UnaryExpr); ok && u.Op == token.ARROW && r.isChan(u.X) {
					steps = append(steps, Step{Kind: "Wait", Line: l, End: e})
					if r.mentionsState(v.Lhs[0]) {
						steps = append(steps, Step{Kind: "Access", Line: l, End: e})
					}
					continue
				}
			}
			if r.hasRecvFromChan(v) {
				refuse("%s: unrecognised receive", r.fset.Position(s.Pos()))
			}
			if r.mentionsState(v) {
				steps = append(steps, Step{Kind: "Access", Line: l, End: e})
			}
		case *ast.SendStmt:
			if r.isChan(v.Chan) {
				steps = append(steps, Step{Kind: "Access", Line: l, End: e, Why: "send"})
			} else if r.mentionsState(v) {
				steps = append(steps, Step{Kind: "Access", Line: l, End: e})
			}
		case *ast.ReturnStmt:
			if r.hasRecvFromChan(v) {
				refuse("%s: receive inside return", r.fset.Position(s.Pos()))
			}
			if r.mentionsState(v) {
				steps = append(steps, Step{Kind: "Access", Line: l, End: e})
			}
		case *ast.DeclStmt, *ast.EmptyStmt, *ast.IncDecStmt:
			if r.mentionsState(v) {
				steps = append(steps, Step{Kind: "Access", Line: l, End: e})
			}
		default:
			refuse("%s: unrecognised statement %T in rendezvous code", r.fset.Position(s.Pos()), s)
		}
	}
	for i := len(deferred) - 1; i >= 0; i-- {
		steps = append(steps, deferred[i])
	}
	return steps
}

func findFunc(f *ast.File, recv, name string) *ast.FuncDecl {
	for _, d := range f.Decls {
		if fd, ok := d.(*ast.FuncDecl); ok && fd.Name.Name == name && recvType(fd) == recv {
			return fd
		}
	}
	return nil
}

// ---------------------------------------------------------------- output

func coqSteps(steps []Step) string {
	var parts []string
	for _, s := range steps {
		if s.Kind == "Spawn" {
			parts = append(parts, "Spawn "+coqSteps(s.Body))
		} else {
			parts = append(parts, s.Kind)
		}
	}
	return "[" + strings.Join(parts, "; ") + "]"
}

func comment(steps []Step, indent string) string {
	var b strings.Builder
	for _, s := range steps {
		d := ""
		if s.Deferred {
			d = " (deferred)"
		}
		w := ""
		if s.Why != "" {
			w = "  -- " + strings.ReplaceAll(s.Why, "*)", "* )")
		}
		fmt.Fprintf(&b, "%s%s  line %d-%d%s%s\n", indent, s.Kind, s.Line, s.End, d, w)
		if s.Kind == "Spawn" {
			b.WriteString(comment(s.Body, indent+"    "))
		}
	}
	return b.String()
}

func main() {
	root := flag.String("root", "/repo", "repository root")
	out := flag.String("out", "", "output .v file")
	jout := flag.String("json", "", "output .json side file (positions)")
	flag.Parse()

	fset := token.NewFileSet()
	pi := &pkgInfo{fset: fset, funcs: map[string]*ast.FuncDecl{}, files: map[string]*ast.File{},
		ifaces: map[string]map[string]*ast.FuncType{}, selfLck: map[string]bool{}, skels: map[string][]Step{}, busy: map[string]bool{}}
	dir := filepath.Join(*root, "pkg/resmgr")
	ents, err := os.ReadDir(dir)
	if err != nil {
		refuse("%v", err)
	}
	for _, e := range ents {
		n := e.Name()
		if e.IsDir() || !strings.HasSuffix(n, ".go") || strings.HasSuffix(n, "_test.go") {
			continue
		}
		f, err := parser.ParseFile(fset, filepath.Join(dir, n), nil, 0)
		if err != nil {
			refuse("%v", err)
		}
		pi.files[n] = f
		for _, d := range f.Decls {
			if fd, ok := d.(*ast.FuncDecl); ok {
				pi.funcs[key(fd)] = fd
			}
		}
	}
	// cache interfaces (result types of cache methods)
	cf, err := parser.ParseFile(fset, filepath.Join(*root, "pkg/resmgr/cache/cache.go"), nil, 0)
	if err != nil {
		refuse("%v", err)
	}
	for _, d := range cf.Decls {
		gd, ok := d.(*ast.GenDecl)
		if !ok {
			continue
		}
		for _, sp := range gd.Specs {
			ts, ok := sp.(*ast.TypeSpec)
			if !ok {
				continue
			}
			it, ok := ts.Type.(*ast.InterfaceType)
			if !ok {
				continue
			}
			m := map[string]*ast.FuncType{}
			for _, f := range it.Methods.List {
				if ft, ok := f.Type.(*ast.FuncType); ok {
					for _, n := range f.Names {
						m[n.Name] = ft
					}
				}
			}
			pi.ifaces[ts.Name.Name] = m
		}
	}
	for _, need := range []string{"Cache", "Pod", "Container"} {
		if pi.ifaces[need] == nil {
			refuse("interface cache.%s not found", need)
		}
	}
	pi.checkWhitelist()

	var skels []Skel
	add := func(name, k, file string) {
		fd := pi.funcs[k]
		if fd == nil {
			refuse("entry point %s not found in pkg/resmgr", k)
		}
		st := pi.skeleton(k)
		st = append([]Step{}, st...)
		fillHeld(st, false)
		skels = append(skels, Skel{Name: name, File: file, Line: fset.Position(fd.Pos()).Line, End: fset.Position(fd.End()).Line,
			Steps: st, FuncName: k})
	}
	// NRI handlers: exported methods of *nriPlugin, in source order
	var hs []*ast.FuncDecl
	for k, fd := range pi.funcs {
		if strings.HasPrefix(k, "nriPlugin.") && ast.IsExported(fd.Name.Name) {
			hs = append(hs, fd)
		}
	}
	sort.Slice(hs, func(i, j int) bool { return hs[i].Pos() < hs[j].Pos() })
	if len(hs) < 9 {
		refuse("only %d exported methods on *nriPlugin (expected the NRI handlers)", len(hs))
	}
	for _, must := range []string{"Synchronize", "RunPodSandbox", "StopPodSandbox", "RemovePodSandbox", "CreateContainer",
		"StartContainer", "UpdateContainer", "StopContainer", "RemoveContainer"} {
		if pi.funcs["nriPlugin."+must] == nil {
			refuse("NRI handler %s not found", must)
		}
	}
	for _, fd := range hs {
		add(fd.Name.Name, key(fd), "pkg/resmgr/"+filepath.Base(fset.Position(fd.Pos()).Filename))
	}
	for _, k := range []string{"resmgr.reconfigure", "resmgr.updateConfig", "resmgr.Stop"} {
		add(strings.TrimPrefix(k, "resmgr."), k, "pkg/resmgr/resource-manager.go")
	}

	// ---- rendezvous
	pf, err := parser.ParseFile(fset, filepath.Join(*root, "pkg/resmgr/cache/pod.go"), nil, 0)
	if err != nil {
		refuse("%v", err)
	}
	rd := findFunc(pf, "pod", "GetPodResources")
	ft := findFunc(pf, "pod", "goFetchPodResources")
	if rd == nil || ft == nil {
		refuse("GetPodResources / goFetchPodResources not found in pkg/resmgr/cache/pod.go")
	}
	// the field the reader receives from
	rr := &rctx{fset: fset, recv: recvName(rd)}
	flds := map[string]bool{}
	ast.Inspect(rd.Body, func(x ast.Node) bool {
		if u, ok := x.(*ast.UnaryExpr); ok && u.Op == token.ARROW {
			if f := rr.fieldOf(u.X); f != "" {
				flds[f] = true
			} else {
				refuse("%s: GetPodResources receives from something that is not a field of the pod", fset.Position(u.Pos()))
			}
		}
		return true
	})
	if len(flds) > 1 {
		refuse("GetPodResources receives from more than one channel")
	}
	for f := range flds {
		rr.rfld = f
	}
	reader := rr.stmts(rd.Body.List, false)
	fr := &rctx{fset: fset, recv: recvName(ft), rfld: rr.rfld}
	fetch := fr.stmts(ft.Body.List, false)
	notes := []string{}
	fetchSrc := "pkg/resmgr/cache/pod.go:goFetchPodResources"
	// where does the reader's channel come from?
	fromParam := false
	if rr.rfld != "" && len(ft.Type.Params.List) > 0 {
		ast.Inspect(ft.Body, func(x ast.Node) bool {
			if as, ok := x.(*ast.AssignStmt); ok && len(as.Lhs) == 1 && len(as.Rhs) == 1 {
				if fr.fieldOf(as.Lhs[0]) == rr.rfld {
					if id, ok := as.Rhs[0].(*ast.Ident); ok {
						for _, p := range ft.Type.Params.List {
							for _, n := range p.Names {
								if n.Name == id.Name {
									fromParam = true
								}
							}
						}
					}
				}
			}
			return true
		})
	}
	if fromParam {
		// the channel is the one created by agent.GoGetPodResources and handed in through
		// RunPodSandbox -> cache.InsertPod -> createPod -> goFetchPodResources
		af, err := parser.ParseFile(fset, filepath.Join(*root, "pkg/agent/pod-resource-api.go"), nil, 0)
		if err != nil {
			refuse("%v", err)
		}
		ag := findFunc(af, "Agent", "GoGetPodResources")
		if ag == nil {
			refuse("agent.GoGetPodResources not found")
		}
		ar := &rctx{fset: fset}
		asteps := ar.stmts(ag.Body.List, false)
		// RunPodSandbox must hand that channel to InsertPod
		run := pi.funcs["nriPlugin.RunPodSandbox"]
		var chVar string
		ok1 := false
		ast.Inspect(run.Body, func(x ast.Node) bool {
			switch v := x.(type) {
			case *ast.AssignStmt:
				if len(v.Lhs) == 1 && len(v.Rhs) == 1 {
					if call, ok := v.Rhs[0].(*ast.CallExpr); ok {
						if sel, ok := call.Fun.(*ast.SelectorExpr); ok && sel.Sel.Name == "GoGetPodResources" {
							if id, ok := v.Lhs[0].(*ast.Ident); ok {
								chVar = id.Name
							}
						}
					}
				}
			case *ast.CallExpr:
				if sel, ok := v.Fun.(*ast.SelectorExpr); ok && sel.Sel.Name == "InsertPod" && len(v.Args) == 2 {
					if id, ok := v.Args[1].(*ast.Ident); ok && chVar != "" && id.Name == chVar {
						ok1 = true
					}
				}
			}
			return true
		})
		if !ok1 {
			refuse("RunPodSandbox does not pass the channel of agent.GoGetPodResources to cache.InsertPod")
		}
		fetch = append(asteps, fetch...)
		fetchSrc = "pkg/agent/pod-resource-api.go:GoGetPodResources ++ pkg/resmgr/cache/pod.go:goFetchPodResources"
		notes = append(notes, "reader waits on pod."+rr.rfld+", which goFetchPodResources sets to its parameter: the channel created in agent.GoGetPodResources")
	} else if rr.rfld != "" {
		notes = append(notes, "reader waits on pod."+rr.rfld+", created in goFetchPodResources")
	} else {
		notes = append(notes, "reader does not receive from any channel")
	}
	fillHeld(fetch, false)
	fillHeld(reader, false)

	// ---- emit Coq
	var b strings.Builder
	b.WriteString("(* GENERATED by tools/locks2coq from the current source tree -- do not edit. *)\n")
	b.WriteString("From Coq Require Import List String.\nFrom NV Require Import C15_Model.\nImport ListNotations.\nOpen Scope string_scope.\n\n")
	var names []string
	for _, s := range skels {
		fmt.Fprintf(&b, "(* %s:%d-%d  %s\n%s*)\n", s.File, s.Line, s.End, s.FuncName, comment(s.Steps, "   "))
		fmt.Fprintf(&b, "Definition sk_%s : list step := %s.\n\n", s.Name, coqSteps(s.Steps))
		names = append(names, fmt.Sprintf("(\"%s\", sk_%s)", s.Name, s.Name))
	}
	fmt.Fprintf(&b, "Definition gen_handlers : list (string * list step) :=\n  [%s].\n\n", strings.Join(names, ";\n   "))
	fmt.Fprintf(&b, "(* %s\n%s*)\nDefinition gen_fetch : list step := %s.\n\n", fetchSrc, comment(fetch, "   "), coqSteps(fetch))
	fmt.Fprintf(&b, "(* pkg/resmgr/cache/pod.go:GetPodResources\n%s*)\nDefinition gen_reader : list step := %s.\n", comment(reader, "   "), coqSteps(reader))
	for _, n := range notes {
		fmt.Fprintf(&b, "(* note: %s *)\n", n)
	}

	if *jout != "" {
		js, _ := json.MarshalIndent(map[string]interface{}{"handlers": skels, "fetch": fetch, "reader": reader,
			"fetch_source": fetchSrc, "notes": notes}, "", " ")
		if err := os.WriteFile(*jout, js, 0o644); err != nil {
			refuse("%v", err)
		}
	}
	if *out == "" {
		fmt.Print(b.String())
		return
	}
	old, _ := os.ReadFile(*out)
	if string(old) == b.String() {
		return
	}
	if err := os.WriteFile(*out, []byte(b.String()), 0o644); err != nil {
		refuse("%v", err)
	}
}
