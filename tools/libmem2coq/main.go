// libmem2coq: derive the table-like parts of the libmem model from the current source of
// pkg/resmgr/lib/memory (go/ast, no type checking):
//
//   - the priority ladder `allowedPrios` and the type ladder `expandTypes` of
//     defaultHandleOvercommit (composite literals of named constants / 0),
//   - the comparator chain handed to SortRequests in zoneShrinkUsage,
//   - four booleans saying whether the public methods reach invalidateOffers /
//     cleanupUnusedZones in the package's static call graph (these follow the fixes F1/F2):
//       LM_fix_F1_allocate  Allocate -> invalidateOffers (or a direct `.version++`)
//       LM_fix_F1_realloc   Realloc  -> invalidateOffers
//       LM_fix_F2_getoffer  GetOffer -> cleanupUnusedZones
//       LM_fix_F2_realloc   Realloc  -> cleanupUnusedZones
//
// Shapes that are not recognised are refused (exit 2) rather than guessed.  The model's
// behaviour under the flags (bump/cleanup on which paths) is pinned by the correspondence check.
//
// usage: libmem2coq -root /repo -out Gen_LibmemTabs.v
package main

import (
	"flag"
	"fmt"
	"go/ast"
	"go/parser"
	"go/token"
	"os"
	"path/filepath"
	"sort"
	"strings"
)

const pkgDir = "pkg/resmgr/lib/memory"

func die(format string, a ...interface{}) {
	fmt.Fprintf(os.Stderr, "libmem2coq: "+format+"\n", a...)
	os.Exit(2)
}

func calleeName(c *ast.CallExpr) string {
	switch f := c.Fun.(type) {
	case *ast.Ident:
		return f.Name
	case *ast.SelectorExpr:
		return f.Sel.Name
	}
	return ""
}

func main() {
	root := flag.String("root", "/repo", "repository root")
	out := flag.String("out", "", "output .v file")
	flag.Parse()
	fset := token.NewFileSet()
	dir := filepath.Join(*root, pkgDir)
	ents, err := os.ReadDir(dir)
	if err != nil {
		die("%v", err)
	}
	funcs := map[string]*ast.FuncDecl{}
	fpos := map[string]string{}
	for _, e := range ents {
		n := e.Name()
		if !strings.HasSuffix(n, ".go") || strings.HasSuffix(n, "_test.go") {
			continue
		}
		f, err := parser.ParseFile(fset, filepath.Join(dir, n), nil, 0)
		if err != nil {
			die("%v", err)
		}
		for _, d := range f.Decls {
			fd, ok := d.(*ast.FuncDecl)
			if !ok || fd.Body == nil {
				continue
			}
			name := fd.Name.Name
			if fd.Recv != nil && len(fd.Recv.List) == 1 {
				t := fd.Recv.List[0].Type
				if s, ok := t.(*ast.StarExpr); ok {
					t = s.X
				}
				if id, ok := t.(*ast.Ident); ok {
					name = id.Name + "." + name
				}
			}
			funcs[name] = fd
			p := fset.Position(fd.Pos())
			fpos[name] = fmt.Sprintf("%s/%s:%d", pkgDir, n, p.Line)
		}
	}
	need := func(name string) *ast.FuncDecl {
		fd, ok := funcs[name]
		if !ok {
			die("function %s not found", name)
		}
		return fd
	}

	// ---- call graph (by method/function name; receiver-insensitive on the callee side)
	byShort := map[string][]string{}
	for full := range funcs {
		short := full
		if i := strings.Index(full, "."); i >= 0 {
			short = full[i+1:]
		}
		byShort[short] = append(byShort[short], full)
	}
	calls := map[string]map[string]bool{}
	bumps := map[string]bool{}
	for full, fd := range funcs {
		set := map[string]bool{}
		ast.Inspect(fd.Body, func(n ast.Node) bool {
			switch v := n.(type) {
			case *ast.CallExpr:
				if c := calleeName(v); c != "" {
					set[c] = true
				}
			case *ast.IncDecStmt:
				if s, ok := v.X.(*ast.SelectorExpr); ok && s.Sel.Name == "version" && v.Tok == token.INC {
					bumps[full] = true
				}
			}
			return true
		})
		calls[full] = set
	}
	reach := func(from string, pred func(full string) bool) bool {
		seen := map[string]bool{}
		var walk func(string) bool
		walk = func(f string) bool {
			if seen[f] {
				return false
			}
			seen[f] = true
			if pred(f) {
				return true
			}
			names := []string{}
			for c := range calls[f] {
				names = append(names, c)
			}
			sort.Strings(names)
			for _, c := range names {
				for _, full := range byShort[c] {
					// only allocator-side code: skip the customAllocator wrappers and Reset/reset,
					// which no public allocation path calls
					if strings.HasPrefix(full, "customAllocator.") {
						continue
					}
					if walk(full) {
						return true
					}
				}
			}
			return false
		}
		return walk(from)
	}
	need("Allocator.Allocate")
	need("Allocator.Realloc")
	need("Allocator.GetOffer")
	need("Allocator.Release")
	need("Offer.Commit")
	need("Allocator.invalidateOffers")
	need("Allocator.cleanupUnusedZones")
	if !bumps["Allocator.invalidateOffers"] {
		die("invalidateOffers does not increment .version")
	}
	invalidates := func(f string) bool { return bumps[f] }
	cleans := func(f string) bool { return f == "Allocator.cleanupUnusedZones" }
	for _, f := range []string{"Allocator.Release", "Offer.Commit"} {
		if !reach(f, invalidates) || !reach(f, cleans) {
			die("%s no longer invalidates offers / cleans unused zones", f)
		}
	}
	if !reach("Allocator.Allocate", cleans) {
		die("Allocate no longer cleans unused zones")
	}
	flags := []struct {
		name string
		v    bool
		src  string
	}{
		{"LM_fix_F1_allocate", reach("Allocator.Allocate", invalidates), fpos["Allocator.Allocate"]},
		{"LM_fix_F1_realloc", reach("Allocator.Realloc", invalidates), fpos["Allocator.Realloc"]},
		{"LM_fix_F2_getoffer", reach("Allocator.GetOffer", cleans), fpos["Allocator.GetOffer"]},
		{"LM_fix_F2_realloc", reach("Allocator.Realloc", cleans), fpos["Allocator.Realloc"]},
	}

	// ---- ladders of defaultHandleOvercommit
	ladder := func(fn, varname, elt string) ([]string, string) {
		fd := need(fn)
		var res []string
		var pos string
		found := false
		ast.Inspect(fd.Body, func(n ast.Node) bool {
			vs, ok := n.(*ast.ValueSpec)
			if !ok {
				return true
			}
			for i, nm := range vs.Names {
				if nm.Name != varname || i >= len(vs.Values) {
					continue
				}
				cl, ok := vs.Values[i].(*ast.CompositeLit)
				if !ok {
					die("%s.%s is not a composite literal", fn, varname)
				}
				at, ok := cl.Type.(*ast.ArrayType)
				if !ok || at.Len != nil {
					die("%s.%s is not a slice literal", fn, varname)
				}
				if id, ok := at.Elt.(*ast.Ident); !ok || id.Name != elt {
					die("%s.%s: element type is not %s", fn, varname, elt)
				}
				for _, e := range cl.Elts {
					switch v := e.(type) {
					case *ast.Ident:
						res = append(res, "LM_"+v.Name)
					case *ast.BasicLit:
						if v.Kind != token.INT || v.Value != "0" {
							die("%s.%s: unsupported literal %s", fn, varname, v.Value)
						}
						res = append(res, "0")
					default:
						die("%s.%s: unsupported element", fn, varname)
					}
				}
				found = true
				pos = fset.Position(vs.Pos()).String()
			}
			return true
		})
		if !found {
			die("%s: variable %s not found", fn, varname)
		}
		// the ladder must not be reassigned elsewhere in the function
		ast.Inspect(fd.Body, func(n ast.Node) bool {
			if as, ok := n.(*ast.AssignStmt); ok {
				for _, l := range as.Lhs {
					if id, ok := l.(*ast.Ident); ok && id.Name == varname {
						die("%s: %s is reassigned", fn, varname)
					}
				}
			}
			return true
		})
		return res, strings.TrimPrefix(pos, *root+"/")
	}
	prios, ppos := ladder("Allocator.defaultHandleOvercommit", "allowedPrios", "Priority")
	types, tpos := ladder("Allocator.defaultHandleOvercommit", "expandTypes", "TypeMask")

	// ---- comparator chain of zoneShrinkUsage
	var chain []string
	var cpos string
	ast.Inspect(need("Allocator.zoneShrinkUsage").Body, func(n ast.Node) bool {
		c, ok := n.(*ast.CallExpr)
		if !ok || calleeName(c) != "SortRequests" {
			return true
		}
		if chain != nil {
			die("zoneShrinkUsage: more than one SortRequests call")
		}
		if len(c.Args) < 2 {
			die("zoneShrinkUsage: SortRequests shape")
		}
		f, ok := c.Args[1].(*ast.CallExpr)
		if !ok || calleeName(f) != "RequestsWithMaxPriority" {
			die("zoneShrinkUsage: filter is not RequestsWithMaxPriority(limit)")
		}
		code := map[string]string{"RequestsByPriority": "1", "RequestsBySize": "2", "RequestsByAge": "3"}
		for _, a := range c.Args[2:] {
			id, ok := a.(*ast.Ident)
			if !ok || code[id.Name] == "" {
				die("zoneShrinkUsage: unknown sorter")
			}
			chain = append(chain, code[id.Name])
		}
		cpos = strings.TrimPrefix(fset.Position(c.Pos()).String(), *root+"/")
		return true
	})
	if chain == nil {
		die("zoneShrinkUsage: SortRequests call not found")
	}

	var b strings.Builder
	b.WriteString("(* GENERATED by tools/libmem2coq from the current source tree -- do not edit. *)\n")
	b.WriteString("From Coq Require Import ZArith List.\nFrom NV Require Import Gen.Gen_LibmemConsts.\nImport ListNotations.\nOpen Scope Z_scope.\n\n")
	fmt.Fprintf(&b, "(* %s *)\nDefinition LM_allowedPrios : list Z := [%s].\n", ppos, strings.Join(prios, "; "))
	fmt.Fprintf(&b, "(* %s *)\nDefinition LM_expandTypes : list Z := [%s].\n", tpos, strings.Join(types, "; "))
	fmt.Fprintf(&b, "(* %s ; 1 = RequestsByPriority, 2 = RequestsBySize, 3 = RequestsByAge *)\nDefinition LM_shrinkSort : list Z := [%s].\n", cpos, strings.Join(chain, "; "))
	for _, f := range flags {
		fmt.Fprintf(&b, "(* %s *)\nDefinition %s : bool := %v.\n", f.src, f.name, f.v)
	}
	if *out == "" {
		fmt.Print(b.String())
		return
	}
	old, _ := os.ReadFile(*out)
	if string(old) == b.String() {
		return
	}
	if err := os.WriteFile(*out, []byte(b.String()), 0o644); err != nil {
		die("%v", err)
	}
}
