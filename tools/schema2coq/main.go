// schema2coq: translate the Go struct types reachable from one root struct (the
// `snapshot` type of pkg/resmgr/cache) into a Coq value of the type grammar of
// NV.C10_Model (ty / fields / finfo).  The generated file is recompiled on every
// run, so the obligations of C10 (roundtrippable gen_snapshot, persisted required
// fields) are re-checked against the struct definitions the code has *now*.
//
// usage: schema2coq -root /repo -pkg pkg/resmgr/cache -type snapshot -out Gen_Schema.v
//
// It works on syntax (go/ast) only.  Imported packages are located by hand:
//   - packages of the repository's own module (and local `replace => ./dir`) under -root,
//   - other modules in $GOMODCACHE at the version required by <root>/go.mod,
//   - the standard library under $GOROOT/src.
// Mapping (what encoding/json does with the type):
//   string kinds -> TString, integer kinds -> TInt, bool -> TBool,
//   *T -> TPtr, []T -> TSlice, map[<string kind>]T -> TMap, struct -> TStruct with one
//   entry per field (name, exported?, json key, json:"-"?, omitempty?),
//   named type with MarshalJSON/UnmarshalJSON (or the Text pair) -> TOpaque name sym kind
//     (sym = both directions are defined),
//   struct with embedded fields -> TOpaque "embedded:..." (field promotion is not modelled),
//   unexported / json:"-" fields get type TDropped and are NOT walked,
//   interface, func, chan, float, array, []byte, non-string map keys, `,string` -> TUnsupported
//     (recognised, but not round-trippable in the model).
// Anything it cannot resolve (unknown import, missing type) is refused with exit 2.
package main

import (
	"flag"
	"fmt"
	"go/ast"
	"go/parser"
	"go/token"
	"os"
	"os/exec"
	"path/filepath"
	"reflect"
	"sort"
	"strconv"
	"strings"
)

type typeDecl struct {
	spec *ast.TypeSpec
	file *ast.File
}

type pkgInfo struct {
	path  string
	dir   string
	name  string
	types map[string]typeDecl
	marsh map[string]int // 1 MarshalJSON 2 UnmarshalJSON 4 MarshalText 8 UnmarshalText
}

type modReq struct{ path, version, local string }

var (
	fset     = token.NewFileSet()
	root     string
	rootMod  string
	reqs     []modReq
	goroot   string
	modcache string
	pkgs     = map[string]*pkgInfo{}

	defs      []string          // emitted Coq definitions, dependency order
	named     = map[string]string{} // qualified type name -> Coq term (ident or leaf)
	inprog    = map[string]bool{}
	structs   []string // qualified names of structs emitted (for gen_schema)
	structIDs = map[string]string{}
	opaques   = map[string]bool{}
	unsupp    = map[string]bool{}
)

func die(f string, a ...interface{}) {
	fmt.Fprintf(os.Stderr, "schema2coq: "+f+"\n", a...)
	os.Exit(2)
}

func readGoMod() {
	data, err := os.ReadFile(filepath.Join(root, "go.mod"))
	if err != nil {
		die("%v", err)
	}
	inReq, inRep := false, false
	repl := map[string]modReq{}
	for _, line := range strings.Split(string(data), "\n") {
		if i := strings.Index(line, "//"); i >= 0 {
			line = line[:i]
		}
		f := strings.Fields(line)
		if len(f) == 0 {
			continue
		}
		switch {
		case f[0] == "module":
			rootMod = f[1]
		case f[0] == "require" && len(f) == 2 && f[1] == "(":
			inReq = true
		case f[0] == "replace" && len(f) == 2 && f[1] == "(":
			inRep = true
		case f[0] == ")":
			inReq, inRep = false, false
		case f[0] == "require" && len(f) >= 3:
			reqs = append(reqs, modReq{path: f[1], version: f[2]})
		case inReq && len(f) >= 2:
			reqs = append(reqs, modReq{path: f[0], version: f[1]})
		case f[0] == "replace" || inRep:
			g := f
			if f[0] == "replace" {
				g = f[1:]
			}
			// old [ver] => new [ver]
			idx := -1
			for i, s := range g {
				if s == "=>" {
					idx = i
				}
			}
			if idx < 1 || idx+1 >= len(g) {
				continue
			}
			r := modReq{path: g[0]}
			if strings.HasPrefix(g[idx+1], ".") || strings.HasPrefix(g[idx+1], "/") {
				r.local = g[idx+1]
			} else if idx+2 < len(g) {
				r.local = ""
				r.path = g[0]
				r.version = g[idx+2]
				repl[g[0]] = modReq{path: g[idx+1], version: g[idx+2]}
				continue
			}
			repl[g[0]] = r
		}
	}
	for i, r := range reqs {
		if x, ok := repl[r.path]; ok {
			if x.local != "" {
				reqs[i].local = x.local
			} else {
				reqs[i] = modReq{path: r.path, version: x.version, local: "@" + x.path}
			}
		}
	}
	if rootMod == "" {
		die("no module line in go.mod")
	}
}

func escapeMod(p string) string {
	var b strings.Builder
	for _, r := range p {
		if r >= 'A' && r <= 'Z' {
			b.WriteByte('!')
			b.WriteRune(r + 32)
		} else {
			b.WriteRune(r)
		}
	}
	return b.String()
}

func pkgDir(imp string) string {
	// local replaces first (nested modules of the repository)
	best := modReq{}
	for _, r := range reqs {
		if (imp == r.path || strings.HasPrefix(imp, r.path+"/")) && len(r.path) > len(best.path) {
			best = r
		}
	}
	if best.path != "" && best.local != "" && !strings.HasPrefix(best.local, "@") {
		return filepath.Join(root, best.local, strings.TrimPrefix(imp, best.path))
	}
	if imp == rootMod || strings.HasPrefix(imp, rootMod+"/") {
		if best.path == "" || len(best.path) <= len(rootMod) {
			return filepath.Join(root, strings.TrimPrefix(imp, rootMod))
		}
	}
	if first := strings.SplitN(imp, "/", 2)[0]; !strings.Contains(first, ".") {
		return filepath.Join(goroot, "src", imp)
	}
	if best.path == "" {
		die("import %q: no module in %s/go.mod provides it", imp, root)
	}
	mp := best.path
	if strings.HasPrefix(best.local, "@") {
		mp = best.local[1:]
	}
	return filepath.Join(modcache, escapeMod(mp)+"@"+best.version, strings.TrimPrefix(imp, best.path))
}

var otherOS = []string{"windows", "darwin", "freebsd", "netbsd", "openbsd", "plan9", "solaris", "js", "wasip1", "aix", "dragonfly", "illumos", "ios", "android"}

func loadPkg(imp string) *pkgInfo {
	if p, ok := pkgs[imp]; ok {
		return p
	}
	dir := pkgDir(imp)
	filter := func(fi os.FileInfo) bool {
		n := fi.Name()
		if strings.HasSuffix(n, "_test.go") {
			return false
		}
		base := strings.TrimSuffix(n, ".go")
		for _, o := range otherOS {
			if strings.HasSuffix(base, "_"+o) || strings.Contains(base, "_"+o+"_") {
				return false
			}
		}
		return true
	}
	m, err := parser.ParseDir(fset, dir, filter, parser.SkipObjectResolution)
	if err != nil {
		die("import %q: %v", imp, err)
	}
	p := &pkgInfo{path: imp, dir: dir, types: map[string]typeDecl{}, marsh: map[string]int{}}
	for name, ap := range m {
		if strings.HasSuffix(name, "_test") || name == "main" && len(m) > 1 {
			continue
		}
		p.name = name
		for _, f := range ap.Files {
			for _, d := range f.Decls {
				switch d := d.(type) {
				case *ast.GenDecl:
					if d.Tok != token.TYPE {
						continue
					}
					for _, s := range d.Specs {
						ts := s.(*ast.TypeSpec)
						p.types[ts.Name.Name] = typeDecl{ts, f}
					}
				case *ast.FuncDecl:
					if d.Recv == nil || len(d.Recv.List) != 1 {
						continue
					}
					bit := map[string]int{"MarshalJSON": 1, "UnmarshalJSON": 2, "MarshalText": 4, "UnmarshalText": 8}[d.Name.Name]
					if bit == 0 {
						continue
					}
					t := d.Recv.List[0].Type
					if s, ok := t.(*ast.StarExpr); ok {
						t = s.X
					}
					if ix, ok := t.(*ast.IndexExpr); ok {
						t = ix.X
					}
					if id, ok := t.(*ast.Ident); ok {
						p.marsh[id.Name] |= bit
					}
				}
			}
		}
	}
	if p.name == "" {
		die("import %q: no Go package in %s", imp, dir)
	}
	pkgs[imp] = p
	return p
}

func importOf(p *pkgInfo, f *ast.File, alias string) *pkgInfo {
	for _, is := range f.Imports {
		path, _ := strconv.Unquote(is.Path.Value)
		if is.Name != nil {
			if is.Name.Name == alias {
				return loadPkg(path)
			}
			continue
		}
		// unnamed import: cheap test on the last element first, then the real package name
		last := path[strings.LastIndex(path, "/")+1:]
		if last == alias || strings.Contains(last, alias) || strings.HasPrefix(last, "v") {
			if q := loadPkg(path); q.name == alias {
				return q
			}
		}
	}
	die("%s: cannot resolve package qualifier %q", fset.Position(f.Pos()).Filename, alias)
	return nil
}

func short(imp string) string {
	return strings.TrimPrefix(imp, rootMod+"/")
}

func relPos(fn string) string {
	for _, pre := range []string{root + "/", modcache + "/", goroot + "/"} {
		if strings.HasPrefix(fn, pre) {
			return strings.TrimPrefix(fn, pre)
		}
	}
	return fn
}

func coqStr(s string) string { return `"` + strings.ReplaceAll(s, `"`, `""`) + `"` }

func ident(q string) string {
	var b strings.Builder
	b.WriteString("T_")
	for _, r := range q {
		if r >= 'a' && r <= 'z' || r >= 'A' && r <= 'Z' || r >= '0' && r <= '9' {
			b.WriteRune(r)
		} else {
			b.WriteByte('_')
		}
	}
	return b.String()
}

func unsupported(why string) string {
	unsupp[why] = true
	return "(TUnsupported " + coqStr(why) + ")"
}

var intKinds = map[string]bool{"int": true, "int8": true, "int16": true, "int32": true, "int64": true, "uint": true,
	"uint8": true, "uint16": true, "uint32": true, "uint64": true, "uintptr": true, "byte": true, "rune": true}

// isStringKind: does the expression denote a type whose kind is string and that is usable
// as a JSON object key without a TextMarshaler?
func isStringKind(p *pkgInfo, f *ast.File, e ast.Expr, depth int) bool {
	if depth > 20 {
		return false
	}
	switch v := e.(type) {
	case *ast.Ident:
		if v.Name == "string" {
			return true
		}
		if d, ok := p.types[v.Name]; ok && p.marsh[v.Name] == 0 {
			return isStringKind(p, d.file, d.spec.Type, depth+1)
		}
	case *ast.SelectorExpr:
		if x, ok := v.X.(*ast.Ident); ok {
			q := importOf(p, f, x.Name)
			if d, ok := q.types[v.Sel.Name]; ok && q.marsh[v.Sel.Name] == 0 {
				return isStringKind(q, d.file, d.spec.Type, depth+1)
			}
		}
	case *ast.ParenExpr:
		return isStringKind(p, f, v.X, depth+1)
	}
	return false
}

func conv(p *pkgInfo, f *ast.File, e ast.Expr) string {
	switch v := e.(type) {
	case *ast.Ident:
		switch {
		case v.Name == "string":
			return "TString"
		case v.Name == "bool":
			return "TBool"
		case intKinds[v.Name]:
			return "TInt"
		case v.Name == "float32" || v.Name == "float64":
			return unsupported("float")
		case v.Name == "any" || v.Name == "error":
			return unsupported("interface")
		case v.Name == "complex64" || v.Name == "complex128":
			return unsupported("complex")
		}
		return convNamed(p, v.Name, v.Pos())
	case *ast.SelectorExpr:
		x, ok := v.X.(*ast.Ident)
		if !ok {
			die("%s: unsupported selector type expression", fset.Position(v.Pos()))
		}
		return convNamed(importOf(p, f, x.Name), v.Sel.Name, v.Pos())
	case *ast.ParenExpr:
		return conv(p, f, v.X)
	case *ast.StarExpr:
		return "(TPtr " + conv(p, f, v.X) + ")"
	case *ast.ArrayType:
		if v.Len != nil {
			return unsupported("array")
		}
		if id, ok := v.Elt.(*ast.Ident); ok && (id.Name == "byte" || id.Name == "uint8") {
			return unsupported("[]byte (base64)")
		}
		return "(TSlice " + conv(p, f, v.Elt) + ")"
	case *ast.MapType:
		if !isStringKind(p, f, v.Key, 0) {
			return unsupported("map with non-string key")
		}
		return "(TMap " + conv(p, f, v.Value) + ")"
	case *ast.StructType:
		return convStruct(p, f, "struct@"+fset.Position(v.Pos()).String(), v)
	case *ast.InterfaceType:
		return unsupported("interface")
	case *ast.FuncType:
		return unsupported("func")
	case *ast.ChanType:
		return unsupported("chan")
	case *ast.IndexExpr, *ast.IndexListExpr:
		return unsupported("generic instantiation")
	}
	die("%s: unsupported type expression %T", fset.Position(e.Pos()), e)
	return ""
}

func underlyingIsStruct(p *pkgInfo, d typeDecl, depth int) bool {
	if depth > 20 {
		return false
	}
	switch v := d.spec.Type.(type) {
	case *ast.StructType:
		return true
	case *ast.Ident:
		if dd, ok := p.types[v.Name]; ok {
			return underlyingIsStruct(p, dd, depth+1)
		}
	case *ast.SelectorExpr:
		if x, ok := v.X.(*ast.Ident); ok {
			q := importOf(p, d.file, x.Name)
			if dd, ok := q.types[v.Sel.Name]; ok {
				return underlyingIsStruct(q, dd, depth+1)
			}
		}
	}
	return false
}

func convNamed(p *pkgInfo, name string, pos token.Pos) string {
	q := short(p.path) + "." + name
	if t, ok := named[q]; ok {
		return t
	}
	d, ok := p.types[name]
	if !ok {
		die("%s: type %s not found in %s", fset.Position(pos), name, p.dir)
	}
	if inprog[q] {
		return unsupported("recursive type " + q)
	}
	inprog[q] = true
	defer delete(inprog, q)
	var t string
	if m := p.marsh[name]; m != 0 && d.spec.Assign == 0 {
		sym := (m&3 == 3) || (m&3 == 0 && m&12 == 12)
		opaques[q] = true
		t = fmt.Sprintf("(TOpaque %s %v %v)", coqStr(q), sym, underlyingIsStruct(p, d, 0))
	} else if st, ok := d.spec.Type.(*ast.StructType); ok && d.spec.Assign == 0 {
		t = convStruct(p, d.file, q, st)
	} else {
		t = conv(p, d.file, d.spec.Type)
	}
	named[q] = t
	return t
}

func convStruct(p *pkgInfo, f *ast.File, q string, st *ast.StructType) string {
	for _, fld := range st.Fields.List {
		if len(fld.Names) == 0 {
			opaques["embedded:"+q] = true
			return fmt.Sprintf("(TOpaque %s true true)", coqStr("embedded:"+q))
		}
	}
	var b strings.Builder
	closers := 0
	for _, fld := range st.Fields.List {
		tag := ""
		if fld.Tag != nil {
			tag, _ = strconv.Unquote(fld.Tag.Value)
		}
		jt, hasJT := reflect.StructTag(tag).Lookup("json")
		for _, n := range fld.Names {
			exported := ast.IsExported(n.Name)
			key, skip, omit, strOpt := n.Name, false, false, false
			if hasJT {
				if jt == "-" {
					skip = true
				} else {
					parts := strings.Split(jt, ",")
					if parts[0] != "" {
						key = parts[0]
					}
					for _, o := range parts[1:] {
						switch o {
						case "omitempty":
							omit = true
						case "string":
							strOpt = true
						case "omitzero":
							die("%s: json option omitzero is not modelled", fset.Position(fld.Pos()))
						}
					}
				}
			}
			ty := "TDropped"
			if exported && !skip {
				if strOpt {
					ty = unsupported("`,string` option")
				} else {
					ty = conv(p, f, fld.Type)
				}
			}
			fmt.Fprintf(&b, "\n  (FCons (mkF %s %v %s %v %v) %s (* %s:%d *)", coqStr(n.Name), exported, coqStr(key), skip, omit, ty,
				relPos(fset.Position(n.Pos()).Filename), fset.Position(n.Pos()).Line)
			closers++
		}
	}
	id := ident(q)
	body := fmt.Sprintf("Definition %s : ty := TStruct %s (%s\n  FNil%s).\n", id, coqStr(q), b.String(), strings.Repeat(")", closers))
	defs = append(defs, body)
	structs = append(structs, q)
	structIDs[q] = id
	return id
}

func main() {
	rootF := flag.String("root", "/repo", "repository root")
	pkgF := flag.String("pkg", "pkg/resmgr/cache", "package directory relative to root")
	typF := flag.String("type", "snapshot", "root struct type")
	out := flag.String("out", "", "output .v file")
	flag.Parse()
	root = filepath.Clean(*rootF)
	readGoMod()
	o, err := exec.Command("go", "env", "GOROOT", "GOMODCACHE").Output()
	if err != nil {
		die("go env: %v", err)
	}
	l := strings.Split(strings.TrimSpace(string(o)), "\n")
	if len(l) != 2 {
		die("unexpected `go env` output")
	}
	goroot, modcache = l[0], l[1]

	p := loadPkg(rootMod + "/" + *pkgF)
	top := convNamed(p, *typF, token.NoPos)

	var b strings.Builder
	b.WriteString("(* GENERATED by tools/schema2coq from the current source tree -- do not edit. *)\n")
	b.WriteString("From Coq Require Import String List Bool.\nFrom NV Require Import C10_Model.\nImport ListNotations.\nOpen Scope string_scope.\n\n")
	for _, d := range defs {
		b.WriteString(d)
		b.WriteString("\n")
	}
	fmt.Fprintf(&b, "Definition gen_snapshot : ty := %s.\n\n", top)
	b.WriteString("Definition gen_schema : list (string * ty) := [\n")
	for i, q := range structs {
		sep := ";"
		if i == len(structs)-1 {
			sep = ""
		}
		fmt.Fprintf(&b, "  (%s, %s)%s\n", coqStr(q), structIDs[q], sep)
	}
	b.WriteString("].\n\n")
	keys := func(m map[string]bool) []string {
		var ks []string
		for k := range m {
			ks = append(ks, coqStr(k))
		}
		sort.Strings(ks)
		return ks
	}
	fmt.Fprintf(&b, "(* leaves assumed to round-trip through their own (Un)MarshalJSON / not modelled *)\nDefinition gen_opaque : list string := [%s].\n", strings.Join(keys(opaques), "; "))
	fmt.Fprintf(&b, "Definition gen_unsupported : list string := [%s].\n", strings.Join(keys(unsupp), "; "))

	if *out == "" {
		fmt.Print(b.String())
		return
	}
	old, _ := os.ReadFile(*out)
	if string(old) == b.String() {
		return
	}
	if err := os.WriteFile(*out, []byte(b.String()), 0o644); err != nil {
		die("%v", err)
	}
}
